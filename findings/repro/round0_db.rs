use pocket_types::*;
use pocket_db::*;
use std::panic::catch_unwind;

fn mk(idb: u8, author: u8, kind: u16, t: u64, tags: &[Vec<&str>], content: &str) -> OwnedEvent {
    let tags = OwnedTags::new(tags).unwrap();
    OwnedEvent::new(Id::from_bytes([idb;32]), Kind::from_u16(kind), Pubkey::from_bytes([author;32]), Sig::from_bytes([0;64]), &tags, Time::from_u64(t), content.as_bytes()).unwrap()
}
fn ok<T,E: std::fmt::Display>(r: Result<T,E>) -> String { match r { Ok(_) => "Ok".into(), Err(e) => format!("Err({e})") } }

fn main() {
    std::panic::set_hook(Box::new(|_| {}));
    // C05: two values for one tag letter; ids+limit
    {
        let d = tempfile::tempdir().unwrap(); let s = Store::new(d.path(), vec![]).unwrap();
        let e1 = mk(1, 9, 1, 100, &[vec!["t","a"]], ""); let e2 = mk(2, 9, 1, 200, &[vec!["t","b"]], "");
        s.store_event(&e1).unwrap(); s.store_event(&e2).unwrap();
        let tags = OwnedTags::new(&[vec!["t","a","b"]]).unwrap();
        let f = OwnedFilter::new(&[], &[], &[], &tags, None, None, None).unwrap();
        let (r,_) = s.find_events(&f, true, 0, 0, |_| ScreenResult::Match).unwrap();
        println!("C05 #t:[a,b] returns {} of 2 matching", r.len());
        let f = OwnedFilter::new(&[Id::from_bytes([1;32]), Id::from_bytes([2;32])], &[], &[], &OwnedTags::empty(), None, None, Some(1)).unwrap();
        let (r,_) = s.find_events(&f, true, 0, 0, |_| ScreenResult::Match).unwrap();
        println!("C05 ids[old,new] limit 1 -> created_at {} (newest is 200)", r[0].created_at());
        let tags = OwnedTags::new(&[vec!["", "a"]]).unwrap();
        let f = OwnedFilter::new(&[], &[], &[], &tags, None, None, None).unwrap();
        println!("C05 empty tag name: {:?}", catch_unwind(std::panic::AssertUnwindSafe(|| s.find_events(&f, true, 0, 0, |_| ScreenResult::Match).map(|r| r.0.len()).map_err(|e| format!("{e}")))));
        let f = OwnedFilter::new(&[], &[], &[], &OwnedTags::empty(), Some(Time::from_u64(u64::MAX-5)), None, None).unwrap();
        println!("C05 future since scrape: {:?}", catch_unwind(std::panic::AssertUnwindSafe(|| s.find_events(&f, false, 0, 10, |_| ScreenResult::Match).map(|r| r.0.len()).map_err(|e| format!("{e}")))));
    }
    // C09: d = "x" vs "x\0"
    {
        let d = tempfile::tempdir().unwrap(); let s = Store::new(d.path(), vec![]).unwrap();
        let e1 = mk(1, 9, 30000, 100, &[vec!["d","x"]], ""); let e2 = mk(2, 9, 30000, 200, &[vec!["d","x\0"]], "");
        s.store_event(&e1).unwrap(); println!("C09 store d=x\\0 newer: {}", ok(s.store_event(&e2)));
        println!("C09 d=x still present: {}", s.has_event(Id::from_bytes([1;32])).unwrap());
    }
    // C11: two deletions newest-first
    {
        let d = tempfile::tempdir().unwrap(); let s = Store::new(d.path(), vec![]).unwrap();
        let a = "10000:".to_string() + &"09".repeat(32) + ":";
        let del_new = mk(3, 9, 5, 500, &[vec!["a", &a]], ""); let del_old = mk(4, 9, 5, 50, &[vec!["a", &a]], "");
        s.store_event(&del_new).unwrap(); s.store_event(&del_old).unwrap();
        let addr = Addr::try_from_bytes(a.as_bytes()).unwrap();
        println!("C11 deletion time after newest-first arrival: {:?} (should be 500)", s.naddr_is_deleted_asof(&addr).unwrap());
        let e = mk(5, 9, 10000, 100, &[], ""); println!("C11 store event at t=100 covered by del@500: {}", ok(s.store_event(&e)));
    }
    // C13: creation window
    {
        let d = tempfile::tempdir().unwrap(); let p = d.path().join("event.map");
        let f = std::fs::File::create(&p).unwrap(); f.set_len(2048).unwrap(); drop(f); // crash after set_len, before header init
        let s = Store::new(d.path(), vec![]).unwrap();
        println!("C13 event_bytes on sized-but-uninitialised file: {}", s.stats().unwrap().event_bytes);
        let e = mk(1, 9, 1, 100, &[], "hello"); let off = s.store_event(&e).map_err(|e| format!("{e}"));
        println!("C13 store -> {:?}", off);
        if let Ok(o) = off { println!("C13 read back equal: {:?}", s.get_event_by_offset(o).map(|x| x.as_bytes()==e.as_bytes()).map_err(|e| format!("{e}"))); }
    }
    // C15: mapping moves
    {
        let d = tempfile::tempdir().unwrap(); let s = Store::new(d.path(), vec![]).unwrap();
        let e = mk(1, 9, 1, 100, &[], &"c".repeat(200)); let off = s.store_event(&e).unwrap();
        let p0 = s.get_event_by_offset(off).unwrap().as_bytes().as_ptr() as usize;
        let mut moved_at = None;
        for i in 2..200u8 { let e = mk(i, 9, 1, 100+i as u64, &[], &"c".repeat(200)); s.store_event(&e).unwrap();
            let p = s.get_event_by_offset(off).unwrap().as_bytes().as_ptr() as usize; if p != p0 { moved_at = Some(i); break; } }
        println!("C15 mapping base moved after store #{:?}", moved_at);
    }
}
