// C14: an ids query must be answered from one snapshot (some prefix of the commit order).
use pocket_types::*;
use pocket_db::*;
fn mk(idb: u8, author: u8, kind: u16, t: u64) -> OwnedEvent {
    let tags = OwnedTags::empty();
    OwnedEvent::new(Id::from_bytes([idb;32]), Kind::from_u16(kind), Pubkey::from_bytes([author;32]), Sig::from_bytes([0;64]), &tags, Time::from_u64(t), b"").unwrap()
}
fn main() {
    let d = tempfile::tempdir().unwrap(); let s = Store::new(d.path(), vec![]).unwrap();
    let (x, p, y) = (mk(1, 9, 1, 100), mk(2, 9, 1, 200), mk(3, 9, 1, 300));
    s.store_event(&p).unwrap();
    let f = OwnedFilter::new(&[x.id(), p.id(), y.id()], &[], &[], &OwnedTags::empty(), None, None, None).unwrap();
    // a writer commits X and then Y while the query is between its lookups (here: from the screen callback on P)
    let (r, _) = s.find_events(&f, true, 0, 0, |e| {
        if e.id() == p.id() { s.store_event(&x).unwrap(); s.store_event(&y).unwrap(); }
        ScreenResult::Match
    }).unwrap();
    let ids: Vec<u8> = r.iter().map(|e| e.id().as_slice()[0]).collect();
    println!("ids query [X,P,Y] with X then Y committed mid-query returned {:?} (prefix states: [2] | [2,1] | [3,2,1]; never Y without X)", ids);
    std::process::exit(if ids.contains(&3) && !ids.contains(&1) { 1 } else { 0 });
}
