// reproduction: a history with two rebuilds (ids and signatures are not checked by the store)
use pocket_db::{ScreenResult, Store};
use pocket_types::{Id, Kind, OwnedEvent, OwnedFilter, OwnedTags, Pubkey, Sig, Time};

#[test]
fn rebuild_twice_keeps_events() {
    let dir = tempfile::tempdir().unwrap();
    let store = Store::new(&dir, vec![]).unwrap();
    let tags = OwnedTags::empty();
    let pk = Pubkey::from_bytes([3u8; 32]);
    let ev = OwnedEvent::new(Id::from_bytes([1u8; 32]), Kind::from_u16(1), pk, Sig::from_bytes([2u8; 64]), &tags,
                             Time::from_u64(1_700_000_000), b"hello").unwrap();
    let _ = store.store_event(&ev).unwrap();
    let id = ev.id();
    let store = unsafe { store.rebuild() }.expect("first rebuild");
    assert!(store.has_event(id).unwrap());
    let second = unsafe { store.rebuild() };
    match second {
        Ok(store) => {
            assert!(store.has_event(id).unwrap(), "event lost by second rebuild");
            let f = OwnedFilter::new(&[], &[pk], &[], &tags, None, None, None).unwrap();
            let (evs, _) = store.find_events(&f, true, 0, 0, |_| ScreenResult::Match).unwrap();
            assert_eq!(evs.len(), 1);
        }
        Err(e) => {
            let listing: Vec<String> = std::fs::read_dir(&dir).unwrap().map(|d| d.unwrap().file_name().to_string_lossy().into_owned()).collect();
            // the store object is consumed: reopen what is on disk
            let reopened = Store::new(&dir, vec![]).unwrap();
            let has = reopened.has_event(id).unwrap();
            let got = reopened.get_event_by_id(id).map(|o| o.is_some());
            panic!("second rebuild failed: {e}; directory: {listing:?}; after reopening: has_event={has} get_event_by_id={got:?}");
        }
    }
}
