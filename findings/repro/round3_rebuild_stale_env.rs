// reproduction: two rebuilds in one process with changes in between
use pocket_db::{ScreenResult, Store};
use pocket_types::{Id, Kind, OwnedEvent, OwnedFilter, OwnedTags, Pubkey, Sig, Time};

fn ev(n: u8) -> OwnedEvent {
    let tags = OwnedTags::empty();
    OwnedEvent::new(Id::from_bytes([n; 32]), Kind::from_u16(1), Pubkey::from_bytes([9u8; 32]), Sig::from_bytes([2u8; 64]), &tags,
                    Time::from_u64(1_700_000_000 + n as u64), b"hello").unwrap()
}

fn ids(store: &Store) -> Vec<u8> {
    let tags = OwnedTags::empty();
    let f = OwnedFilter::new(&[], &[Pubkey::from_bytes([9u8; 32])], &[], &tags, None, None, None).unwrap();
    let (evs, _) = store.find_events(&f, true, 0, 0, |_| ScreenResult::Match).unwrap();
    let mut v: Vec<u8> = evs.iter().map(|e| e.id().as_slice()[0]).collect();
    v.sort();
    v
}

#[test]
fn second_rebuild_keeps_current_state() {
    let dir = tempfile::tempdir().unwrap();
    let store = Store::new(&dir, vec![]).unwrap();
    for n in 1..=3 { store.store_event(&ev(n)).unwrap(); }
    let store = unsafe { store.rebuild() }.expect("first rebuild");
    assert_eq!(ids(&store), vec![1, 2, 3]);
    for n in 4..=5 { store.store_event(&ev(n)).unwrap(); }
    store.remove_event(ev(2).id()).unwrap();
    assert_eq!(ids(&store), vec![1, 3, 4, 5]);
    let store = unsafe { store.rebuild() }.expect("second rebuild");
    assert_eq!(ids(&store), vec![1, 3, 4, 5], "state after the second rebuild");
}

#[test]
fn reopen_in_process_sees_current_state() {
    let dir = tempfile::tempdir().unwrap();
    {
        let store = Store::new(&dir, vec![]).unwrap();
        for n in 1..=3 { store.store_event(&ev(n)).unwrap(); }
    }
    let store = Store::new(&dir, vec![]).unwrap();
    assert_eq!(ids(&store), vec![1, 2, 3]);
}
