use pocket_types::*;
use pocket_db::*;
fn mk(idb: u8, author: u8, kind: u16, t: u64, tags: &[Vec<&str>], content: &str) -> OwnedEvent {
    let tags = OwnedTags::new(tags).unwrap();
    OwnedEvent::new(Id::from_bytes([idb;32]), Kind::from_u16(kind), Pubkey::from_bytes([author;32]), Sig::from_bytes([0;64]), &tags, Time::from_u64(t), content.as_bytes()).unwrap()
}
fn ok<T,E: std::fmt::Display>(r: Result<T,E>) -> String { match r { Ok(_) => "Ok".into(), Err(e) => format!("Err({e})") } }
fn main() {
    let d = tempfile::tempdir().unwrap(); let s = Store::new(d.path(), vec![]).unwrap();
    let d1 = "x".repeat(182) + "AAAA";
    let a1 = "30000:".to_string() + &"09".repeat(32) + ":" + &d1;
    let del = mk(3, 9, 5, 500, &[vec!["a", &a1]], "");
    println!("deletion of long-d address: {}", ok(s.store_event(&del)));
    let addr1 = Addr::try_from_bytes(a1.as_bytes()).unwrap();
    println!("before rebuild: marker {:?}", s.naddr_is_deleted_asof(&addr1).unwrap());
    let s = unsafe { s.rebuild().unwrap() };
    println!("after rebuild:  marker {:?} (should be unchanged)", s.naddr_is_deleted_asof(&addr1).unwrap());
    let e = mk(5, 9, 30000, 100, &[vec!["d", &d1]], "");
    println!("after rebuild: store of an event the deletion covers: {} (should be Err(deleted))", ok(s.store_event(&e)));
    let a_short = "30000:".to_string() + &"09".repeat(32) + ":" + &"x".repeat(182);
    let addr_s = Addr::try_from_bytes(a_short.as_bytes()).unwrap();
    println!("after rebuild: marker on the 182-byte-prefix address, never deleted: {:?} (should be None)", s.naddr_is_deleted_asof(&addr_s).unwrap());
}
