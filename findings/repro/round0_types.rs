// Scratch reproduction (documentation only, never part of a check).
// Build: a throw-away crate path-depending on /repo/pocket-types and /repo/pocket-db
// (see Cargo.toml.example, copy /repo/Cargo.lock beside it), cargo build --offline.
use pocket_types::*;
use std::panic::catch_unwind;

fn ev(json: &str) -> Result<Vec<u8>, String> {
    let mut buf = vec![0xAAu8; 8192];
    match Event::from_json(json.as_bytes(), &mut buf) { Ok((_n,e)) => Ok(e.as_bytes().to_vec()), Err(e)=>Err(format!("{e}")) }
}
const BASE: &str = r#"{"id":"a9663055164ab8b30d9524656370c4bf93393bb051b7edf4556f40c5298dc0c7","pubkey":"ee11a5dff40c19a555f41fe42b48f00e618c91225622ae37b6c2bb67b76c4e49","created_at":1681778790,"kind":1,"sig":"4dfea1a6f73141d5691e43afc3234dbe73016db0fb207cf247e0127cc2591ee6b4be5b462272030a9bde75882aae810f359682b1b6ce6cbb97201141c576db42","content":"He got snowed in","tags":[["client","gossip"]]}"#;

fn main() {
    std::panic::set_hook(Box::new(|_| {}));
    let b = ev(BASE).unwrap(); println!("C02 padding bytes after parse into 0xAA buffer: {:?}", &b[6..8]);
    let j = BASE.replacen("{\"id\"", "{\"foo\":1,\"id\"", 1); println!("C01 unknown member: {:?}", ev(&j).map(|_|()));
    let j = BASE.replace("1681778790", "99999999999999999999");
    println!("C01 20-digit created_at: {:?}", catch_unwind(|| ev(&j).map(|b| u64::from_ne_bytes(b[8..16].try_into().unwrap()))));
    let j = BASE.replace("\"kind\":1", "\"kind\":42949672970");
    println!("C01 kind 42949672970: {:?}", catch_unwind(|| ev(&j).map(|b| u16::from_ne_bytes(b[4..6].try_into().unwrap()))));
    let mut panics=0; for n in 0..BASE.len() { let p=&BASE[..n]; if catch_unwind(|| {let mut buf=vec![0u8;4096]; let _=Event::from_json(p.as_bytes(), &mut buf);}).is_err() {panics+=1;} }
    println!("C03 panicking prefixes of sample: {panics}/{}", BASE.len());
    println!("C03 read_hex with 0xff bytes: {:?}", catch_unwind(|| Id::read_hex(&[0xffu8;64]).is_ok()));
    let f = |s:&str| { let s=s.to_string(); catch_unwind(move || { let mut buf=vec![0u8;65536]; Filter::from_json(s.as_bytes(), &mut buf).map(|(_,_,f)| (f.limit(), f.as_json().map(|v| String::from_utf8_lossy(&v).to_string()).unwrap_or_default())).map_err(|e| format!("{e}")) }) };
    println!("C07 #e,#a: {:?}", f(r##"{"#e":["x"],"#a":["y"]}"##));
    println!("C07 #a,#e: {:?}", f(r##"{"#a":["y"],"#e":["x"]}"##));
    println!("C07 #A: {:?}", f(r##"{"#A":["y"]}"##));
    println!("C07 search: {:?}", f(r##"{"search":"x"}"##));
    println!("C07 limit 2^32: {:?}", f(r##"{"limit":4294967296}"##));
    println!("C07 escape: {:?}", f(r##"{"#t":["a\"b"]}"##));
    let big = "x".repeat(70000);
    println!("C19 70000-byte tag: {:?}", catch_unwind(|| OwnedTags::new(&[vec!["t", &big]]).map(|t| (t.as_bytes().len(), u16::from_ne_bytes(t.as_bytes()[0..2].try_into().unwrap()))).map_err(|e| format!("{e}"))));
    let hex = "ff".repeat(256);
    println!("C20 estimate on 0xff registers: {:?}", catch_unwind(|| Hll8::from_hex_string(&hex).unwrap().estimate_count()));
    println!("C05 Time sub underflow: {:?}", catch_unwind(|| Time::from_u64(1) - Time::from_u64(2)));
}
