#!/bin/bash
# runs every claimed check's quick command (as MANIFEST registers them) and validates the evidence files
cd "$(dirname "$0")/.."
TIER="${1:-quick}"
rc_all=0
for p in $(python3 -c "import json;print(' '.join(c['property_id'] for c in json.load(open('MANIFEST.json'))['checks']))"); do
  /usr/bin/time -f "%es" -o /tmp/t.$p ./check $p --tier $TIER > /tmp/out.$p 2>&1; rc=$?
  echo "$p rc=$rc $(cat /tmp/t.$p) $(head -1 /tmp/out.$p)"
  grep -E "^(VIOLATION|KNOWN-FINDING|ANALYSIS-ERROR)" /tmp/out.$p | cut -c1-160
  [ $rc -ne 0 ] && rc_all=1
done
python3-vt - <<'PY'
import json, jsonschema, glob
sch = json.load(open('/root/.vp/EVIDENCE.schema.json'))
for f in sorted(glob.glob('evidence/*.json')):
    jsonschema.validate(json.load(open(f)), sch)
print("evidence files valid:", len(glob.glob('evidence/*.json')))
PY
exit $rc_all
