#!/usr/bin/env python3
"""mkmutant.py <out.diff> <<spec    where spec is python: EDITS = [(relpath, old, new), ...]
Builds a unified diff (a/ b/ prefixes, applies with patch -p1) against the current /repo."""
import sys, os, difflib
out = sys.argv[1]
ns = {}
exec(sys.stdin.read(), ns)
chunks = []
files = {}
for rel, old, new in ns["EDITS"]:
    p = os.path.join("/repo", rel)
    cur = files.get(rel)
    if cur is None:
        cur = open(p).read()
    if cur.count(old) != 1:
        sys.exit("edit does not match exactly once in %s: %r (%d)" % (rel, old[:60], cur.count(old)))
    files[rel] = cur.replace(old, new)
for rel, newtext in files.items():
    a = open(os.path.join("/repo", rel)).read().splitlines(keepends=True)
    b = newtext.splitlines(keepends=True)
    chunks.append("".join(difflib.unified_diff(a, b, "a/" + rel, "b/" + rel)))
open(out, "w").write("".join(chunks))
print("wrote", out)
