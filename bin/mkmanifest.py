#!/usr/bin/env python3
"""Regenerates MANIFEST.json from the per-property modules present under pv/props."""
import json, os, importlib, sys
HERE = os.path.dirname(os.path.dirname(os.path.abspath(__file__)))
sys.path.insert(0, HERE)

TECH = {
 "C01": "static analysis: MIR dataflow on the integer readers, dispatch exhaustiveness and cursor type-state rules over the event parser",
 "C02": "static analysis: must-write layout analysis of the binary header over every constructor path; writer/parser key-set agreement; escaper dataflow",
 "C03": "static analysis: MIR dataflow (dominating-guard facts, callee summaries, loop induction) over every partial operation reachable from the parsers",
 "C04": "static analysis: who-may-call and effect queries on the call graph, value-provenance and dominance rules on the append/grow/read paths",
 "C05": "static analysis: dominance rules (match and screen before insert), loop-shape rules for the index plans, comparison normalisation, partial-operation dataflow",
 "C06": "static analysis: clause-coverage and comparison-normalisation rules on the match predicate's MIR",
 "C07": "static analysis: MIR dataflow on casts/counters, one-hot flag rule, dispatch exhaustiveness, cursor type-state, escaper dataflow in the writer",
 "C08": "static analysis: must-pass-through (hash and signature checks), sibling agreement of the two canonicalisers, escape-table comparison",
 "C09": "static analysis: constant-range table rule for kind classes, order/dominance rules in store_event, lossy-key re-check rule on the address scans",
 "C10": "static analysis: dominance/must-pass rule (author comparison before every destructive call) with value provenance, who-may-call",
 "C11": "static analysis: order rules (markers consulted first), marker-monotonicity rule on the only marker writer, who-may-delete query, table-coverage of rebuild",
 "C12": "static analysis: single-transaction typestate (S-TXN), effect confinement on the call graph, error-propagation discipline",
 "C13": "static analysis: ordering rules across the two storage engines (bytes < fence < marker < index < commit), reopen validation must-pass",
 "C14": "static analysis: writer-lock-first and transaction-provenance rules, lock-order rule in the dependency, reader effect-freedom on the call graph",
 "C15": "static analysis: compile-fail lifetime witnesses with compiling twins; call-graph rule on which receiver kind can reach a moving remap",
 "C16": "static analysis: table-coverage rule for rebuild, single append loop, key codec agreement (builder vs decoder), backup-rename effect rule",
 "C17": "static analysis: mirror rule between index() and deindex()/deindex_id() over all tables, funnel (who-may-call), scan-range/builder agreement, stats mapping",
 "C18": "static analysis: effect-set rules for remove_event and vanish, constant/provenance rule for the vanish filters, dominance rule for ephemeral events",
 "C19": "static analysis: narrowing-cast and output-bound dataflow over every constructor",
 "C20": "static analysis: shift/index dataflow over the estimator, max-update shape rule for add and merge, hex table inverse check on compiler-evaluated constants",
}
LEVEL_NOTE = ("Trusted: rustc nightly MIR at -Zmir-opt-level=0 (dev profile), the pvx extractor, the pv rule engine; external callees "
              "(std, heed/LMDB, memmap2, secp256k1) are leaves with their documented semantics. A structural necessary condition is "
              "decided, not the behaviour: see level_claimed.text for what is and is not decided.")

ids = ["C%02d" % i for i in range(1, 21)]
checks = []
na = []
NA_REASON = {}
for pid in ids:
    path = os.path.join(HERE, "pv", "props", pid + ".py")
    if not os.path.exists(path):
        na.append({"property_id": pid, "reason": NA_REASON.get(pid, "check under construction (DESIGN.md build order); not claimed yet")})
        continue
    mod = importlib.import_module("pv.props." + pid)
    if getattr(mod, "NOT_APPLICABLE", None):
        na.append({"property_id": pid, "reason": mod.NOT_APPLICABLE})
        continue
    checks.append({
        "property_id": pid,
        "quick_cmd": "./check %s --tier quick" % pid,
        "thorough_cmd": "./check %s --tier thorough" % pid,
        "evidence_file": "evidence/%s.json" % pid,
        "replay_cmd_template": "./check %s --replay {path}" % pid,
        "engine": "pv",
        "technique": TECH[pid],
        "level_claimed": {"category": "other", "text": mod.EXPLANATION, "design_ref": "DESIGN.md section 4 (%s)" % pid},
        "level_note": LEVEL_NOTE,
    })
m = {
 "version": 1,
 "setup_cmd": "cd /verif/driver && CARGO_NET_OFFLINE=true cargo build --release --offline",
 "hooks": {
  "guard": "none",
  "enable": "no hooks: the checks read the unmodified source of /repo through a rustc_private MIR extractor (RUSTC_WRAPPER under cargo +nightly check)",
  "baseline_off_cmd": "cd /repo && CARGO_NET_OFFLINE=true cargo test --workspace --no-fail-fast --offline",
  "source_commits": [],
  "add_only": True
 },
 "engines": [
  {"name": "pvx", "path": "driver", "kind_free_text": "rustc_private driver dumping resolved MIR facts for pocket_types, pocket_db and mmap_append",
   "serves_properties": [c["property_id"] for c in checks]},
  {"name": "pv", "path": "pv", "kind_free_text": "Python rule engine: CFG/dominators, SSA-like value analysis, linear prover, callee summaries, per-property rule instances",
   "serves_properties": [c["property_id"] for c in checks]}
 ],
 "checks": checks,
 "not_applicable": na,
 "notes": "Technique family: static analysis only. Every check re-extracts MIR facts from /repo's current working tree. See DESIGN.md."
}
json.dump(m, open(os.path.join(HERE, "MANIFEST.json"), "w"), indent=1)
print("claimed:", [c["property_id"] for c in checks])
