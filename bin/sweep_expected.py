#!/usr/bin/env python3
"""usage: sweep_expected.py <outdir> [workers]
For every stored mutant and seed run only the checks expected to fire on it (selftest/MAP.json, seeded/*/meta.json
expected_to_fire); for every benign variant run all checks.  Output files are read by bin/sweep_report.py."""
import json, glob, os, sys, subprocess
from concurrent.futures import ThreadPoolExecutor
H = os.path.dirname(os.path.dirname(os.path.abspath(__file__)))
out = sys.argv[1]
workers = int(sys.argv[2]) if len(sys.argv) > 2 else 6
os.makedirs(out, exist_ok=True)
jobs = []
mp = json.load(open(H + "/selftest/MAP.json"))
for f, props in sorted(mp.items()):
    p = H + "/selftest/mutants/" + f
    if not f.startswith("_") and os.path.exists(p) and props:
        jobs.append((p, f, props))
for m in sorted(glob.glob(H + "/seeded/*/meta.json")):
    d = json.load(open(m))
    if d.get("expected_to_fire"):
        jobs.append((os.path.dirname(m) + "/patch.diff", "seeded_" + d["id"], d["expected_to_fire"]))
if "--no-benign" not in sys.argv:
    for b in sorted(glob.glob(H + "/selftest/benign/*.diff") + glob.glob(H + "/selftest/benign_r/*.diff")):
        jobs.append((b, os.path.basename(b), []))


def run(j):
    p, name, props = j
    r = subprocess.run([H + "/bin/allchecks_on_patch.sh", p] + list(props), capture_output=True, text=True)
    open(os.path.join(out, name + ".txt"), "w").write(r.stdout + r.stderr)
    return name


with ThreadPoolExecutor(max_workers=workers) as ex:
    for n in ex.map(run, jobs):
        pass
print("done", len(jobs))
