#!/bin/bash
# usage: allchecks_on_patch.sh <patch.diff> [Cxx ...]   (default: all claimed checks)
# applies the patch to a scratch copy of /repo, runs the repo's own tests? no - only the checks; prints one line per check
set -u
PATCH="$(readlink -f "$1")"; shift
HERE="$(cd "$(dirname "$0")/.." && pwd)"
W="$(mktemp -d /tmp/pvall.XXXXXX)"; trap 'rm -rf "$W"' EXIT
mkdir -p "$W/repo"; (cd /repo && tar --exclude=./target --exclude=./.git -cf - .) | (cd "$W/repo" && tar xf -)
(cd "$W/repo" && patch -p1 --no-backup-if-mismatch -s < "$PATCH") || { echo "SKIPPED patch does not apply"; exit 0; }
"$HERE/bin/extract.sh" "$W/facts" "$W/repo" >/dev/null 2>"$W/err" || { echo "SKIPPED does not compile"; tail -3 "$W/err"; exit 0; }
PROPS="$*"; [ -z "$PROPS" ] && PROPS="$(python3 -c "import json;print(' '.join(c['property_id'] for c in json.load(open('$HERE/MANIFEST.json'))['checks']))")"
for P in $PROPS; do
  ( OUT="$(cd "$HERE" && PV_FACTS="$W/facts" PV_REPO="$W/repo" PV_NO_EVIDENCE=1 python3 -m pv.main "$P" 2>&1)"; RC=$?
    if [ $RC -ne 0 ]; then echo "$P rc=$RC $(echo "$OUT" | grep -m2 -E 'violated:|ANALYSIS-ERROR' | tr '\n' ' ' | cut -c1-220)"; else echo "$P ok"; fi ) &
done; wait
