#!/bin/bash
# usage: sweep.sh <outdir> <patch>...    runs all claimed checks against each patch (4 patches at a time, scratch copies);
# writes <outdir>/<name>.txt with one line per check
OUT="$1"; shift
HERE="$(cd "$(dirname "$0")/.." && pwd)"
mkdir -p "$OUT"
for p in "$@"; do
  n="$(echo "$p" | sed -e 's#.*/seeded/##' -e 's#.*/mutants/##' -e 's#.*/benign/##' -e 's#/patch.diff##' -e 's#/#_#g')"
  echo "$p $OUT/$n.txt"
done | xargs -P ${SWEEP_P:-4} -n 2 sh -c '"'"$HERE"'/bin/allchecks_on_patch.sh" "$0" > "$1" 2>&1'
