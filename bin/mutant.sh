#!/bin/bash
# usage: mutant.sh <patch.diff> <Cxx> [Cxx...]
# Applies the patch to a scratch copy of /repo (outside /repo and /verif), extracts facts from the copy and
# runs the named checks against it.  Prints one line per check: "<Cxx> rc=<rc> <first VIOLATION/summary line>".
set -u
PATCH="$(readlink -f "$1")"; shift
HERE="$(cd "$(dirname "$0")/.." && pwd)"
W="$(mktemp -d /tmp/pvmut.XXXXXX)"
trap 'rm -rf "$W"' EXIT
mkdir -p "$W/repo"
(cd /repo && tar --exclude=./target --exclude=./.git -cf - .) | (cd "$W/repo" && tar xf -)
if ! (cd "$W/repo" && patch -p1 --no-backup-if-mismatch -s < "$PATCH"); then
  echo "SKIPPED patch does not apply: $PATCH"; exit 0
fi
if ! "$HERE/bin/extract.sh" "$W/facts" "$W/repo" >/dev/null 2>"$W/err"; then
  echo "SKIPPED mutant does not compile: $PATCH"; tail -5 "$W/err"; exit 0
fi
for P in "$@"; do
  OUT="$(cd "$HERE" && PV_FACTS="$W/facts" PV_NO_EVIDENCE=1 python3 -m pv.main "$P" 2>&1)"; RC=$?
  echo "$P rc=$RC $(echo "$OUT" | grep -m1 -E 'violated:|ANALYSIS-ERROR' || echo "$OUT" | head -1)"
  if [ "${VERBOSE:-0}" = 1 ]; then echo "$OUT" | sed 's/^/    /'; fi
done
