#!/bin/bash
# usage: extract.sh <facts-out-dir> [repo-dir] [extra cargo args...]
# Runs the pvx fact extractor over the workspace of <repo-dir> (default /repo) with a
# fresh target directory (cargo's freshness cache would otherwise skip the driver).
set -euo pipefail
OUT="$1"; REPO="${2:-/repo}"; shift || true; shift || true
HERE="$(cd "$(dirname "$0")/.." && pwd)"
DRV="$HERE/driver/target/release/pvx"
if [ ! -x "$DRV" ]; then
  (cd "$HERE/driver" && CARGO_NET_OFFLINE=true cargo build --release --offline >&2)
fi
mkdir -p "$OUT"
TGT="$(mktemp -d /tmp/pvx-target.XXXXXX)"
trap 'rm -rf "$TGT"' EXIT
SYSROOT="$(rustc +nightly --print sysroot)"
cd "$REPO"
LD_LIBRARY_PATH="$SYSROOT/lib" \
RUSTFLAGS="-Zmir-opt-level=0 -Awarnings ${PVX_RUSTFLAGS:-}" \
RUSTC_WRAPPER="$DRV" PVX_OUT="$OUT" CARGO_NET_OFFLINE=true \
CARGO_TARGET_DIR="$TGT" cargo +nightly check --offline --workspace "$@" >"$OUT/cargo.log" 2>&1 || {
  echo "extract: cargo check failed; see $OUT/cargo.log" >&2; tail -30 "$OUT/cargo.log" >&2; exit 3; }
for c in pocket_types pocket_db mmap_append; do
  [ -s "$OUT/$c.json" ] || { echo "extract: missing fact file $c.json" >&2; exit 3; }
done
