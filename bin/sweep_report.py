#!/usr/bin/env python3
"""sweep_report.py <sweepdir> : compare a sweep's results with selftest/MAP.json, seeded/*/meta.json and the benign sets"""
import json, os, glob, sys
D = sys.argv[1]
mp = json.load(open('/verif/selftest/MAP.json'))
def res(name):
    c = [x for x in os.listdir(D) if x.endswith(name + '.txt') or x == name + '.txt']
    if not c:
        return None
    lines = open(os.path.join(D, c[0])).read().splitlines()
    return {l.split()[0]: l for l in lines if l.startswith('C') and ' ok' not in l}, [l for l in lines if l.startswith('SKIP')]
print("== benign (must be silent)")
for f in sorted(glob.glob('/verif/selftest/benign_r/*.diff') + glob.glob('/verif/selftest/benign/*.diff')):
    n = os.path.basename(f)
    r = res(n)
    if r is None:
        print(n, 'NO RESULT'); continue
    if r[0] or r[1]:
        print(n, {k: v[:170] for k, v in r[0].items()}, r[1])
print("== mutants (must fire)")
for f, props in sorted(mp.items()):
    if f.startswith('_'):
        continue
    r = res(f)
    if r is None:
        print(f, 'NO RESULT'); continue
    got = r[0]; rc2 = [k for k, l in got.items() if 'rc=2' in l]; miss = [x for x in props if x not in got]
    if miss or rc2 or r[1]:
        print(f, 'miss', miss, 'rc2', rc2, r[1])
print("== seeds (expected_to_fire)")
for m in sorted(glob.glob('/verif/seeded/*/meta.json')):
    meta = json.load(open(m)); n = meta['id']
    r = res('seeded_' + n)
    if r is None:
        print(n, 'NO RESULT'); continue
    got = r[0]; rc2 = [k for k, l in got.items() if 'rc=2' in l]; miss = [x for x in meta['expected_to_fire'] if x not in got]
    if miss or rc2 or r[1]:
        print(n, 'miss', miss, 'rc2', rc2, r[1], {k: got[k][:120] for k in rc2})
