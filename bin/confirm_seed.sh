#!/bin/bash
# usage: confirm_seed.sh <seed-dir containing seedX.diff demoX.rs> <X> -> prints CONFIRMED or the failing step
# Confirms in a scratch copy of /repo HEAD: suite passes with the change; demo fails with it; demo passes without it.
set -u
SD="$1"; X="$2"
W="$(mktemp -d /tmp/pvseed.XXXXXX)"; trap 'rm -rf "$W"' EXIT
mkdir -p "$W/repo"; (cd /repo && git archive HEAD) | (cd "$W/repo" && tar xf -)
cd "$W/repo"
CRATE=pocket-db; grep -q "pocket-types/tests" "$SD/demo$X.rs" && CRATE=pocket-types
export CARGO_NET_OFFLINE=true CARGO_TARGET_DIR="$W/target"
mkdir -p "$CRATE/tests"; cp "$SD/demo$X.rs" "$CRATE/tests/seed_demo.rs"
# 1. pristine: demo passes
if ! cargo test --offline -q -p $CRATE --test seed_demo >"$W/p.log" 2>&1; then echo "$SD $X: demo FAILS on pristine tree"; tail -5 "$W/p.log"; exit 1; fi
# 2. with seed
if ! git apply --check "$SD/seed$X.diff" 2>/dev/null && ! patch -p1 --dry-run -s < "$SD/seed$X.diff" >/dev/null 2>&1; then echo "$SD $X: seed does not apply"; exit 1; fi
patch -p1 -s --no-backup-if-mismatch < "$SD/seed$X.diff"
if cargo test --offline -q -p $CRATE --test seed_demo >"$W/s.log" 2>&1; then echo "$SD $X: demo PASSES with the seed (not a demonstration)"; exit 1; fi
rm "$CRATE/tests/seed_demo.rs"
if ! cargo test --workspace --offline >"$W/t.log" 2>&1; then echo "$SD $X: existing suite FAILS with the seed"; grep -E "FAILED|failed" "$W/t.log" | head -3; exit 1; fi
N=$(grep -E "^test result: ok" "$W/t.log" | sed -E 's/.*ok\. ([0-9]+) passed.*/\1/' | paste -sd+ | bc)
echo "$SD $X: CONFIRMED (suite: $N passed with seed; demo fails with seed, passes without)"
