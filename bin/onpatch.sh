#!/bin/bash
# usage: onpatch.sh <patch> <factsdir>  -> extract facts of /repo+patch into factsdir (kept; caller removes)
PATCH="$(readlink -f "$1")"; OUT="$2"
HERE="$(cd "$(dirname "$0")/.." && pwd)"
W="$(mktemp -d /tmp/pvop.XXXXXX)"; trap 'rm -rf "$W"' EXIT
mkdir -p "$W/repo"; (cd /repo && tar --exclude=./target --exclude=./.git -cf - .) | (cd "$W/repo" && tar xf -)
(cd "$W/repo" && patch -p1 --no-backup-if-mismatch -s < "$PATCH") || { echo "patch does not apply"; exit 1; }
"$HERE/bin/extract.sh" "$OUT" "$W/repo" >/dev/null 2>"$W/err" || { echo "does not compile"; tail -3 "$W/err"; exit 1; }
