//! Compile-fail witnesses (type-level clauses of C15, C04 and C03) with compiling twins.
//! Nothing here is executed: every test is `compile_fail` or `no_run`.
//! Each witness names the crates as an external user would; its twin differs only by the
//! offending line, so a witness that fails to compile for an unrelated reason is detected.

/// W-C15-a: a reference obtained from the store cannot outlive the store.
/// ```compile_fail,E0597
/// let ev;
/// {
///     let store = pocket_db::Store::new("/nonexistent", vec![]).unwrap();
///     ev = store.get_event_by_offset(0).unwrap();
/// }
/// let _n = ev.len();
/// ```
/// twin:
/// ```no_run
/// let store = pocket_db::Store::new("/nonexistent", vec![]).unwrap();
/// let ev;
/// {
///     ev = store.get_event_by_offset(0).unwrap();
/// }
/// let _n = ev.len();
/// ```
pub struct RefOutlivesStore;

/// W-C15-b: a reference obtained by id cannot outlive the store either.
/// ```compile_fail,E0597
/// let ev;
/// {
///     let store = pocket_db::Store::new("/nonexistent", vec![]).unwrap();
///     ev = store.get_event_by_id(pocket_types::Id::from_bytes([0; 32])).unwrap();
/// }
/// let _n = ev.map(|e| e.len());
/// ```
/// twin:
/// ```no_run
/// let store = pocket_db::Store::new("/nonexistent", vec![]).unwrap();
/// let ev = store.get_event_by_id(pocket_types::Id::from_bytes([0; 32])).unwrap();
/// let _n = ev.map(|e| e.len());
/// ```
pub struct RefByIdOutlivesStore;

/// W-C15-c: the store cannot be rebuilt (consumed) while a reference into it is live.
/// ```compile_fail,E0505
/// let store = pocket_db::Store::new("/nonexistent", vec![]).unwrap();
/// let ev = store.get_event_by_offset(0).unwrap();
/// let _store2 = unsafe { store.rebuild() };
/// let _n = ev.len();
/// ```
/// twin:
/// ```no_run
/// let store = pocket_db::Store::new("/nonexistent", vec![]).unwrap();
/// let ev = store.get_event_by_offset(0).unwrap();
/// let _n = ev.len();
/// let _store2 = unsafe { store.rebuild() };
/// ```
pub struct RebuildWhileBorrowed;

/// W-C15-d: query results borrow the store too.
/// ```compile_fail,E0597
/// let tags = pocket_types::OwnedTags::empty();
/// let f = pocket_types::OwnedFilter::new(&[], &[], &[], &tags, None, None, None).unwrap();
/// let found;
/// {
///     let store = pocket_db::Store::new("/nonexistent", vec![]).unwrap();
///     found = store.find_events(&f, true, 0, 0, |_| pocket_db::ScreenResult::Match).unwrap();
/// }
/// let _n = found.0.len();
/// ```
/// twin:
/// ```no_run
/// let tags = pocket_types::OwnedTags::empty();
/// let f = pocket_types::OwnedFilter::new(&[], &[], &[], &tags, None, None, None).unwrap();
/// let store = pocket_db::Store::new("/nonexistent", vec![]).unwrap();
/// let found = store.find_events(&f, true, 0, 0, |_| pocket_db::ScreenResult::Match).unwrap();
/// let _n = found.0.len();
/// ```
pub struct QueryResultOutlivesStore;

/// W-C03-a: `Event::delineate` is not callable from safe code.
/// ```compile_fail,E0133
/// let buf = [0u8; 200];
/// let _e = pocket_types::Event::delineate(&buf);
/// ```
/// twin:
/// ```no_run
/// let buf = [0u8; 200];
/// let _e = unsafe { pocket_types::Event::delineate(&buf) };
/// ```
pub struct DelineateIsUnsafe;

/// W-C03-b: the byte representation of an `Event` is private (safe code gets an `&Event` only from the constructors).
/// ```compile_fail,E0616
/// let buf = vec![0u8; 200];
/// let e = unsafe { pocket_types::Event::delineate(&buf) }.unwrap();
/// let _b = &e.0;
/// ```
/// twin:
/// ```no_run
/// let buf = vec![0u8; 200];
/// let e = unsafe { pocket_types::Event::delineate(&buf) }.unwrap();
/// let _b = e.as_bytes();
/// ```
pub struct EventBytesPrivate;

/// W-C03-c: `Tags::delineate` and `Filter::delineate` are unsafe as well.
/// ```compile_fail,E0133
/// let buf = [0u8; 64];
/// let _t = pocket_types::Tags::delineate(&buf);
/// ```
/// ```compile_fail,E0133
/// let buf = [0u8; 64];
/// let _f = pocket_types::Filter::delineate(&buf);
/// ```
/// twin:
/// ```no_run
/// let buf = [0u8; 64];
/// let _t = unsafe { pocket_types::Tags::delineate(&buf) };
/// let _f = unsafe { pocket_types::Filter::delineate(&buf) };
/// ```
pub struct OtherDelineatesUnsafe;
