"""Which in-crate functions are pure (deterministic in the values of their arguments, no
writes through pointers): computed on the raw MIR by a fixpoint over an allowlist of
deterministic std functions."""

STD_PURE_LAST = {
    ("core::slice::", "len"), ("core::slice::", "index"), ("core::slice::", "iter"),
    ("core::slice::", "as_ptr"), ("core::slice::", "is_empty"), ("core::slice::", "eq"),
    ("core::result::", "branch"), ("core::result::", "from_residual"), ("core::result::", "unwrap"),
    ("core::result::", "expect"), ("core::result::", "is_ok"), ("core::result::", "is_err"),
    ("core::option::", "branch"), ("core::option::", "from_residual"), ("core::option::", "unwrap"),
    ("core::option::", "is_some"), ("core::option::", "is_none"), ("core::option::", "eq"),
    ("core::option::", "expect"),
    ("core::array::", "as_slice"), ("core::array::", "eq"), ("core::array::", "partial_cmp"),
    ("core::array::", "cmp"), ("core::array::", "try_from"),
    ("core::convert::", "try_into"), ("core::convert::", "into"), ("core::convert::", "from"),
    ("core::convert::", "as_ref"),
    ("core::num::", "from_ne_bytes"), ("core::num::", "to_ne_bytes"), ("core::num::", "to_be_bytes"),
    ("core::num::", "from_be_bytes"), ("core::num::", "to_le_bytes"), ("core::num::", "from_le_bytes"),
    ("core::num::", "leading_zeros"),
    ("alloc::vec::", "deref"), ("alloc::vec::", "len"), ("alloc::vec::", "as_slice"), ("alloc::vec::", "index"),
    ("alloc::vec::", "eq"),
    ("core::cmp::", "lt"), ("core::cmp::", "le"), ("core::cmp::", "gt"), ("core::cmp::", "ge"),
    ("core::cmp::", "eq"), ("core::cmp::", "ne"), ("core::cmp::", "cmp"), ("core::cmp::", "partial_cmp"),
    ("core::cmp::", "then"), ("core::cmp::", "min"), ("core::cmp::", "max"),
    ("core::str::", "as_bytes"), ("core::str::", "len"),
    ("core::mem::", "size_of"), ("core::ops::range::", "contains"), ("core::hint::", "must_use"),
    ("core::ops::bit::", "bitand"), ("core::ops::bit::", "bitor"),
    ("core::ops::index::", "index"), ("core::ops::deref::", "deref"),
    ("core::ops::try_trait::", "branch"), ("core::ops::try_trait::", "from_residual"),
    ("core::clone::", "clone"),
    ("memmap2::", "len"), ("memmap2::", "as_ptr"), ("memmap2::", "as_mut_ptr"),
    ("std::sync::poison::rwlock::", "deref"), ("std::sync::poison::mutex::", "deref"),
}


def std_pure(path):
    if path is None:
        return False
    last = path.rsplit("::", 1)[-1]
    for pre, l in STD_PURE_LAST:
        if l == last and path.startswith(pre):
            return True
    return False


def _place_writes_through_pointer(place):
    return any(e == "*" for e in place["p"])


def compute_pure(F):
    cand = {}
    for p, f in F.fns.items():
        if f.kind == "Closure":
            continue
        bad = False
        for i in f.inputs:
            s = i["s"]
            if s.startswith("&mut") or "*mut" in s or "*const" in s or "impl " in s or "dyn " in s:
                bad = True
        if f.unsafe:
            bad = True
        callees = set()
        if not bad:
            for b in f.blocks:
                if b["cleanup"]:
                    continue
                for s in b["stmts"]:
                    if s["s"] == "assign":
                        if _place_writes_through_pointer(s["lhs"]):
                            bad = True
                        rv = s["rv"]
                        if rv["r"] == "rawptr" and rv["mut"]:
                            bad = True
                        if rv["r"] == "agg" and rv["kind"]["a"] == "closure":
                            bad = True
                    elif s["s"] == "intrinsic":
                        bad = True
                t = b["term"]
                if t["t"] == "call":
                    fobj = t["f"]
                    if "path" not in fobj:
                        bad = True
                    else:
                        callees.add((fobj.get("res") or fobj["path"], fobj["path"]))
                    for aty in t["aty"]:
                        if aty.startswith("&mut") and not aty.startswith("&mut std::fmt::Formatter"):
                            # passing &mut to a callee: local mutation only if the target is a local
                            pass
                elif t["t"] in ("other", "tailcall"):
                    bad = True
        if not bad:
            cand[p] = callees
    changed = True
    while changed:
        changed = False
        for p in list(cand):
            for res, base in cand[p]:
                if res in cand or std_pure(res) or std_pure(base):
                    continue
                del cand[p]
                changed = True
                break
    return set(cand)
