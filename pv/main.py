"""Front end:  python3 -m pv.main <Cxx> [--tier quick|thorough] [--replay file] [--facts dir]

 exit 0  property clauses held on everything analysed (known findings are printed, not alarms)
 exit 1  + line `VIOLATION property=<id> replay=<path>`: a violated obligation not in known_findings.txt
 exit 2  + line `ANALYSIS-ERROR ...`: the check itself is broken (missing anchor, floor breach, extractor failure)
"""
import sys, os, json, time, tempfile, subprocess, shutil, importlib, traceback

HERE = os.path.dirname(os.path.dirname(os.path.abspath(__file__)))
sys.path.insert(0, HERE)

from pv.facts import Facts, AnchorMissing  # noqa
from pv.guard import Engine, PROVED, VIOLATION, UNDECIDED  # noqa
from pv.callgraph import CallGraph  # noqa


class AnalysisError(Exception):
    pass


class Ctx:
    def __init__(self, F, tier, prop):
        self.F = F
        self.E = Engine(F)
        self.G = CallGraph(F)
        self.tier = tier
        self.prop = prop
        self.obs = []
        self.notes = []
        self.instances = {}
        self.functions = set()
        self.call_sites = 0
        self.paths = 0

    def add(self, ob):
        self.obs.append(ob)

    def floor(self, what, n, minimum):
        """fail closed when a rule matched fewer sites than were confirmed by hand"""
        self.instances[what] = n
        if os.environ.get("PV_RELAX_FLOORS"):
            return      # release-profile pass of the thorough tier: site counts differ (no overflow asserts)
        if n < minimum:
            raise AnalysisError("rule=%s matched %d instances, floor is %d" % (what, n, minimum))

    def fn(self, nice):
        try:
            f = self.F.nice(nice)
        except AnchorMissing as e:
            raise AnalysisError("missing anchor %s" % e)
        self.functions.add(f.path)
        return f


def tree_is_confirmed(repo):
    """is `repo` exactly the tree the rules' anchors and site counts were confirmed on (pv/confirmed_tree.txt: the commit,
    with a clean working tree)?  On that tree a missing anchor or a count below its floor is an error of the checker and
    fails the check (exit 2).  On any other tree - an edited working tree, a scratch copy - the same condition means the
    code was restructured beyond what a rule can read, and the rule's clauses are reported undecided instead."""
    try:
        want = open(os.path.join(HERE, "pv", "confirmed_tree.txt")).read().split()[0]
        import subprocess
        head = subprocess.run(["git", "-C", repo, "rev-parse", "HEAD"], capture_output=True, text=True)
        if head.returncode != 0 or head.stdout.strip() != want:
            return False
        st = subprocess.run(["git", "-C", repo, "status", "--porcelain", "--untracked-files=no"], capture_output=True, text=True)
        return st.returncode == 0 and not st.stdout.strip()
    except Exception:
        return False


def install_tolerance(ctx, mod):
    """wrap the rule functions (those taking the context first) of the property module and of the shared rule modules: a rule
    that cannot find its anchor function, or finds fewer sites than were confirmed by hand, adds one UNDECIDED obligation
    naming what was missing and the other rules go on"""
    import functools, inspect, types
    from .props.common import simple_ob
    names = ["tables", "lifecycle", "storage", "txn", "parsers", "layout", "escaping", "recheck", "effects"]
    mods = [mod]
    for n in names:
        try:
            mods.append(importlib.import_module("pv.props." + n))
        except ImportError:
            pass
    for pm in list(sys.modules.values()):
        if getattr(pm, "__name__", "").startswith("pv.props.C") and pm not in mods:
            mods.append(pm)

    def wrap(f):
        @functools.wraps(f)
        def g(*a, **k):
            try:
                return f(*a, **k)
            except Exception as e:
                c = a[0] if a and isinstance(a[0], Ctx) else ctx
                anyfn = sorted(c.F.fns)[0]
                c.add(simple_ob("S-ANCHOR", anyfn, "rule-not-applicable", "%s: %s" % (f.__name__, str(e)[:90]),
                                {"f": "?", "l": 0, "c": 0, "l2": 0}, UNDECIDED,
                                "the code no longer has the shape this rule reads (%s): its clauses are not decided on this tree" % e))
                return None
        g._pv_wrapped = True
        return g
    for pm in mods:
        for name, f in list(vars(pm).items()):
            if isinstance(f, types.FunctionType) and f.__module__ == pm.__name__ and name != "run" and \
                    not getattr(f, "_pv_wrapped", False):
                try:
                    params = list(inspect.signature(f).parameters)
                except (TypeError, ValueError):
                    continue
                if params and params[0] == "ctx":
                    setattr(pm, name, wrap(f))


def load_known(prop):
    known, fixed = {}, []
    p = os.path.join(HERE, "known_findings.txt")
    if os.path.exists(p):
        for line in open(p):
            line = line.strip()
            if not line or line.startswith("#"):
                continue
            if line.startswith("known:"):
                parts = line.split(None, 3)
                # known: property=Cxx key=<key> <what fails>
                d = {}
                rest = line[len("known:"):].strip()
                if not rest.startswith("property="):
                    continue
                pid, rest = rest.split(None, 1)
                pid = pid.split("=", 1)[1]
                if not rest.startswith("key="):
                    continue
                # key may contain spaces: it is terminated by " :: "
                keypart, _, what = rest[4:].partition(" :: ")
                if pid == prop:
                    known[keypart.strip()] = what.strip()
            elif line.startswith("fixed:"):
                fixed.append(line)
    return known, fixed


def extract(facts_dir, repo="/repo"):
    r = subprocess.run([os.path.join(HERE, "bin", "extract.sh"), facts_dir, repo], capture_output=True, text=True)
    if r.returncode != 0:
        raise AnalysisError("extractor failed: %s" % (r.stderr.strip()[-800:]))


def run(prop, tier="quick", replay=None, facts_dir=None, repo="/repo", write_evidence=True, quiet=False):
    t0 = time.time()
    tmp = None
    try:
        if facts_dir is None:
            tmp = tempfile.mkdtemp(prefix="pvfacts.")
            facts_dir = tmp
            extract(facts_dir, repo)
        F = Facts(facts_dir)
        for c in ("pocket_types", "pocket_db", "mmap_append"):
            if F.crates[c]["nfns"] <= 0:
                raise AnalysisError("no functions extracted for %s" % c)
        ctx = Ctx(F, tier, prop)
        mod = importlib.import_module("pv.props." + prop)
        if not tree_is_confirmed(repo):
            install_tolerance(ctx, mod)
            try:
                mod.run(ctx)
            except Exception as e:
                # the property's own driver lost an anchor (or a skipped rule's result): what was decided so far stands,
                # the rest is not decided on this tree
                from .props.common import simple_ob
                ctx.add(simple_ob("S-ANCHOR", sorted(F.fns)[0], "property-rules-not-applicable", "%s: %s" % (prop, str(e)[:90]),
                                  {"f": "?", "l": 0, "c": 0, "l2": 0}, UNDECIDED,
                                  "the code no longer has the shape the rules of %s read (%s): the remaining clauses are not "
                                  "decided on this tree" % (prop, e)))
        else:
            mod.run(ctx)
        obs = ctx.obs
        if replay:
            want = set(json.load(open(replay)).get("keys", []))
            obs = [o for o in obs if o.key in want]
        known, fixed = load_known(prop)
        viol = [o for o in obs if o.verdict == VIOLATION]
        new = [o for o in viol if o.key not in known]
        kn = [o for o in viol if o.key in known]
        out_dir = os.path.join(HERE, "out")
        os.makedirs(out_dir, exist_ok=True)
        lines = []
        for o in kn:
            lines.append("KNOWN-FINDING: property=%s %s [%s at %s]" % (prop, known[o.key], o.key, o.loc()))
        replay_path = os.path.join(out_dir, "%s.violations.json" % prop)
        if new:
            with open(replay_path, "w") as f:
                json.dump({"property": prop, "keys": [o.key for o in new],
                           "violations": [o.to_json() for o in new]}, f, indent=1)
            for o in new:
                lines.append("  violated: %s\n      at %s\n      %s" % (o.key, o.loc(), o.why))
            lines.append("VIOLATION property=%s replay=%s" % (prop, replay_path))
        wall = time.time() - t0
        if write_evidence and not replay and not os.environ.get("PV_NO_EVIDENCE"):
            ev = evidence(ctx, mod, prop, tier, obs, new, kn, wall)
            os.makedirs(os.path.join(HERE, "evidence"), exist_ok=True)
            with open(os.path.join(HERE, "evidence", "%s.json" % prop), "w") as f:
                json.dump(ev, f, indent=1)
        if not quiet:
            n = {PROVED: 0, VIOLATION: 0, UNDECIDED: 0}
            for o in obs:
                n[o.verdict] = n.get(o.verdict, 0) + 1
            print("%s: %d obligations: %d proved, %d undecided, %d violated (%d known); %d functions; %.1fs" % (
                prop, len(obs), n[PROVED], n[UNDECIDED], n[VIOLATION], len(kn), len(ctx.functions), wall))
            for l in lines:
                print(l)
        return (1 if new else 0), obs, ctx
    finally:
        if tmp:
            shutil.rmtree(tmp, ignore_errors=True)


def evidence(ctx, mod, prop, tier, obs, new, kn, wall):
    by_rule = {}
    for o in obs:
        d = by_rule.setdefault(o.rule, {"PROVED": 0, "VIOLATION": 0, "UNDECIDED": 0})
        d[o.verdict] += 1
    proved = [o for o in obs if o.verdict == PROVED]
    nontrivial = {o.key for o in obs if o.verdict != PROVED or not o.why.startswith("trivial")}
    samples = []
    seen_rules = {}
    for o in obs:
        k = (o.rule, o.verdict)
        if seen_rules.get(k, 0) < 3:
            seen_rules[k] = seen_rules.get(k, 0) + 1
            samples.append(o.to_json())
    samples = samples[:60]
    undec = [o.to_json() for o in obs if o.verdict == UNDECIDED][:40]
    return {
        "property_id": prop,
        "tier": tier,
        "seed": int(os.environ.get("VERIF_SEED", "0") or 0),
        "level": "other",
        "coverage": {
            "explanation": getattr(mod, "EXPLANATION", ""),
            "evaluations": len(obs),
            "distinct_nontrivial": len(nontrivial),
            "rule": "one obligation per rule instance / partial-operation site found in the resolved MIR of the "
                    "current /repo tree; non-trivial = needed a dominating guard, summary, table comparison or "
                    "path argument (everything except obligations discharged as trivially true)",
            "obligations": len(obs),
            "discharged": len(proved),
            "undecided": len([o for o in obs if o.verdict == UNDECIDED]),
            "violations_new": len(new),
            "known_findings": len(kn),
            "by_rule": by_rule,
            "functions_analysed": len(ctx.functions),
            "functions": sorted(ctx.F.nice_of(p) for p in ctx.functions)[:200],
            "call_sites": ctx.call_sites,
            "paths": ctx.paths,
            "rule_instances": ctx.instances,
            "samples": samples,
            "undecided_samples": undec,
            "checker_cmd": "./check %s --tier %s" % (prop, tier),
            "trusted_base": ["rustc nightly MIR (-Zmir-opt-level=0, dev profile)", "pvx extractor", "pv rule engine",
                             "documented semantics of std / heed / memmap2 / secp256k1 leaves"],
            "exhaustive": True,
            "notes": ctx.notes,
        },
        "assumptions": getattr(mod, "ASSUMPTIONS", []) + [
            "A2: rustc MIR at -Zmir-opt-level=0 is a faithful account of the source",
            "A3: callee resolution is complete for the three analysed crates; external callees are leaves",
        ],
        "wall_s": round(wall, 2),
        "violations": len(new),
    }


def main(argv):
    if not argv:
        print(__doc__)
        return 2
    prop = argv[0]
    tier = os.environ.get("VERIF_TIER", "quick")
    replay = None
    facts = os.environ.get("PV_FACTS")
    repo = os.environ.get("PV_REPO", "/repo")
    i = 1
    while i < len(argv):
        if argv[i] == "--tier":
            tier = argv[i + 1]
            i += 2
        elif argv[i] == "--replay":
            replay = argv[i + 1]
            i += 2
        elif argv[i] == "--facts":
            facts = argv[i + 1]
            i += 2
        elif argv[i] == "--repo":
            repo = argv[i + 1]
            i += 2
        else:
            i += 1
    try:
        rc, _, _ = run(prop, tier, replay, facts, repo)
        if tier == "thorough" and rc == 0:
            try:
                from pv import thorough
                rc = thorough.run(prop, repo)
            except ImportError:
                pass
        return rc
    except AnalysisError as e:
        print("ANALYSIS-ERROR property=%s %s" % (prop, e))
        return 2
    except AnchorMissing as e:
        print("ANALYSIS-ERROR property=%s missing anchor: %s" % (prop, e))
        return 2
    except Exception:
        traceback.print_exc()
        print("ANALYSIS-ERROR property=%s internal error" % prop)
        return 2


if __name__ == "__main__":
    sys.exit(main(sys.argv[1:]))
