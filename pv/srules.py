"""Helpers for the structural rules (S-...): call-site queries, edge-local facts, must-pass
and reachability over the CFG, receiver-field identification."""
from .guard import Ob, PROVED, VIOLATION, UNDECIDED, short
from .sym import show, walk, strip_sites


class S:
    def __init__(self, ctx):
        self.ctx = ctx
        self.E = ctx.E
        self.F = ctx.F

    # ------------------------------------------------------------------ call sites
    def nice(self, path):
        return self.F.nice_of(path) if path else ""

    def calls(self, fn, names=None, pred=None):
        """(block, info) for calls whose (readable) callee name is in names / satisfies pred"""
        an = self.E.an(fn)
        out = []
        for b, info in an.calls():
            callee = info["callee"] or ""
            n = self.nice(callee)
            base = info["base"] or ""
            ok = False
            if names is not None and (n in names or callee in names or base in names):
                ok = True
            if pred is not None and pred(n, callee, base, info):
                ok = True
            if ok:
                out.append((b, info))
        return out

    def closure_sites(self, fn):
        """{closure path: block of fn where the closure value is consumed (passed to a call)}; a closure that is built
        but whose consumer is not found maps to the block that builds it"""
        an = self.E.an(fn)
        out = {}
        cl = {c.path for c in self.F.closures_of(fn.path)}
        for b, info in an.calls():
            for a, pre in zip(info["args"], info.get("pre") or [None] * len(info["args"])):
                for v in (a, pre):
                    if v is None:
                        continue
                    for c in find_values(v, lambda y: y[0] == "agg" and isinstance(y[1], str) and y[1].startswith("closure:")):
                        out.setdefault(c[1][len("closure:"):], b)
        for (b, si), v in an.stmt_val.items():
            if v is not None and v[0] == "agg" and isinstance(v[1], str) and v[1].startswith("closure:"):
                out.setdefault(v[1][len("closure:"):], b)
        return {c: b for c, b in out.items() if c in cl}

    def calls_deep(self, fn, names=None, pred=None):
        """calls of fn and of the closures it builds: (owner fn, block in owner, info, block of fn standing for the
        call) - for a call inside a closure the standing block is where fn hands the closure to its consumer"""
        out = [(fn, b, info, b) for b, info in self.calls(fn, names, pred)]
        for cpath, site in sorted(self.closure_sites(fn).items()):
            cf = self.F.fns[cpath]
            for b, info in self.calls(cf, names, pred):
                out.append((cf, b, info, site))
        return out

    def callers(self, nice_name):
        f = self.ctx.fn(nice_name)
        return sorted(self.F.nice_of(p) for p in self.ctx.G.callers_of(f.path))

    # ------------------------------------------------------------------ edges and paths
    def edge_facts(self, fn, node):
        """facts contributed by one CFG edge node alone"""
        an = self.E.an(fn)
        P = self.E.prover(fn)
        ec = an.edge_cond.get(node)
        out = []
        if ec is None:
            return out
        if ec[0] == "switch":
            _, D, label, dty = ec
            if label[0] == "switch":
                P.decompose_eq(D, label[1], dty, out)
            else:
                vals = label[1]
                if dty == "bool" and len(vals) == 1:
                    P.decompose_eq(D, 1 - vals[0], dty, out)
                else:
                    for v in vals:
                        P.decompose_ne(D, v, dty, out)
                    if len(vals) >= 1 and D[0] == "discr":
                        # two-variant enums: "not variant k" is "the other variant"
                        pass
        elif ec[0] == "assert":
            _, c, expected, info = ec
            if info["mk"] == "BoundsCheck":
                P.decompose_eq(c, 1 if expected else 0, "bool", out)
        return out

    def edge_new_facts(self, fn, node):
        """what becomes known on this edge: its own condition and whatever the prover derives for it (threaded facts of
        a joined value tested here), i.e. the facts at the edge that do not already hold at its source block"""
        an = self.E.an(fn)
        cfg = an.cfg
        if node < cfg.nblocks:
            return []
        src = cfg.edges[node - cfg.nblocks].src
        before = {repr(f) for f in self.E.facts(fn, src)}
        return [f for f in self.E.facts(fn, node) if repr(f) not in before]

    def edges_where(self, fn, pred):
        """edge nodes one of whose own facts satisfies pred(fact)"""
        an = self.E.an(fn)
        out = []
        for node in an.edge_cond:
            for f in self.edge_facts(fn, node):
                if pred(f):
                    out.append(node)
                    break
        return out

    def must_pass(self, fn, block, good_nodes):
        """every (value-feasible) path from entry to `block` passes one of good_nodes"""
        cfg = self.E.an(fn).cfg
        reach = self.reach(fn, [cfg.entry], avoid=good_nodes)
        return block not in reach

    def thread_map(self, fn):
        """edge node -> (switch block, forced label value): see prove.compute_threads"""
        from .prove import compute_threads
        return compute_threads(self.E.an(fn))[0]

    def _correlated_switches(self, fn):
        """switches on one and the same (symbolic) value: {"switch": block -> value, "edge": arm edge node -> (value, k)}
        for values that are switched on in more than one block (`match x` twice, a lookup on x then a dispatch on x)"""
        an = self.E.an(fn)
        r = getattr(an, "_corr_sw", None)
        if r is not None:
            return r
        cfg = an.cfg
        by = {}
        for b, info in an.term.items():
            if info["kind"] == "switch" and info["discr"][0] == "discr" and info["discr"][1][0] != "try":
                by.setdefault(info["discr"][1], []).append(b)
            elif info["kind"] == "switch" and info.get("dty") == "bool" and info["discr"][0] in ("bin", "call", "not") and \
                    not contains_value(info["discr"], lambda y: y[0] in ("load", "aload", "elem", "index", "deref", "clob", "init")):
                # a boolean computed once (comparisons of call results made at one site, constants, parameters) and tested
                # in more than one place: `let new = len < N; if new {..} .. if new {..}`
                by.setdefault(("B", info["discr"]), []).append(b)
        sw, ed = {}, {}
        for D, blocks in by.items():
            if len(blocks) < 2:
                continue
            for b in blocks:
                sw[b] = D
                seen_vals = []
                for e in cfg.out_edges[b]:
                    if e.label[0] == "switch":
                        ed[e.node] = (D, e.label[1])
                        seen_vals.append(e.label[1])
                    elif e.label[0] == "otherwise" and isinstance(D, tuple) and D and D[0] == "B" and \
                            len(e.label[1]) == 1 and e.label[1][0] in (0, 1):
                        ed[e.node] = (D, 1 - e.label[1][0])
        r = {"switch": sw, "edge": ed}
        an._corr_sw = r
        return r

    def reach(self, fn, start_nodes, avoid=()):
        """nodes reachable from start_nodes without entering `avoid`, ignoring value-infeasible arms"""
        an = self.E.an(fn)
        cfg = an.cfg
        tm = self.thread_map(fn)
        avoid = set(avoid)
        seen = set()
        out = set()
        corr = self._correlated_switches(fn)
        back = {e.node for e in cfg.back_edges()}
        stack = [(n, frozenset()) for n in start_nodes if n not in avoid]
        while stack:
            x, pend = stack.pop()
            if (x, pend) in seen:
                continue
            seen.add((x, pend))
            out.add(x)
            if x in back:
                pend = frozenset(p for p in pend if not (isinstance(p[0], tuple)))     # a new iteration: forget decided values
            if x in tm:
                news = dict((S_, k) for S_, k in pend)
                for S_, k in tm[x]:
                    news[S_] = k
                pend = frozenset(news.items())
            if x in corr["edge"]:
                # an arm of a switch on a value that is switched on again later: remember the value's variant
                D, k = corr["edge"][x]
                news = dict(pend)
                news[("D", D)] = k
                pend = frozenset(news.items())
            succs = cfg.succ[x]
            forced = [k for S_, k in pend if S_ == x]
            if not forced and x in corr["switch"]:
                forced = [k for S_, k in pend if S_ == ("D", corr["switch"][x])]
                if forced:
                    k = forced[0]
                    allowed = []
                    for e in cfg.out_edges[x]:
                        if e.label[0] == "switch" and e.label[1] == k:
                            allowed.append(e.node)
                        elif e.label[0] == "otherwise" and k not in e.label[1]:
                            allowed.append(e.node)
                    for y in allowed:
                        if y not in avoid:
                            stack.append((y, pend))
                    continue
            if forced:
                # forced arm of the switch
                k = forced[0]
                allowed = []
                for e in cfg.out_edges[x]:
                    if e.label[0] == "switch" and e.label[1] == k:
                        allowed.append(e.node)
                    elif e.label[0] == "otherwise" and k not in e.label[1]:
                        allowed.append(e.node)
                succs = allowed
                pend = frozenset((S_, kk) for S_, kk in pend if S_ != x)
            for y in succs:
                if y not in avoid:
                    stack.append((y, pend))
        return out

    def paths_to_first(self, fn, start, stops, limit=200):
        """value-feasible acyclic paths from node `start` to the first block in `stops` on each path:
        ([path nodes ending at the stop block], number of paths that end without meeting a stop)"""
        an = self.E.an(fn)
        cfg = an.cfg
        tm = self.thread_map(fn)
        stops = set(stops)
        done, other = [], [0]

        def go(x, pend, path, onpath):
            if len(done) + other[0] > limit:
                return
            path = path + [x]
            if x in stops:
                done.append(path)
                return
            if x in tm:
                news = dict(pend)
                for S_, k in tm[x]:
                    news[S_] = k
                pend = frozenset(news.items())
            succs = cfg.succ[x]
            forced = [k for S_, k in pend if S_ == x]
            if forced:
                k = forced[0]
                allowed = []
                for e in cfg.out_edges[x]:
                    if e.label[0] == "switch" and e.label[1] == k:
                        allowed.append(e.node)
                    elif e.label[0] == "otherwise" and k not in e.label[1]:
                        allowed.append(e.node)
                succs = allowed
                pend = frozenset((S_, kk) for S_, kk in pend if S_ != x)
            nxt = [y for y in succs if y not in onpath]
            if not nxt:
                other[0] += 1
                return
            for y in nxt:
                go(y, pend, path, onpath | {x})
        go(start, frozenset(), [], frozenset())
        return done, other[0]

    def value_on_path(self, fn, path, v, depth=0):
        """v with every join value (phi) replaced by what flows in along `path` (the last edge of the path that enters
        the join's block)"""
        an = self.E.an(fn)
        cfg = an.cfg
        if not isinstance(v, tuple) or not v or depth > 6:
            return v
        if v[0] == "phi":
            J = v[1]
            for n in reversed(path):
                if n >= cfg.nblocks:
                    e = cfg.edges[n - cfg.nblocks]
                    if e.dst == J:
                        st = an.out_state.get(e.src)
                        if st is None:
                            return v
                        x = an.read(st, v[2])
                        return self.value_on_path(fn, path, x, depth + 1) if x != v else v
            return v
        if isinstance(v[0], str):
            return (v[0],) + tuple(self.value_on_path(fn, path, x, depth) if isinstance(x, tuple) else x for x in v[1:])
        return tuple(self.value_on_path(fn, path, x, depth) if isinstance(x, tuple) else x for x in v)

    def reachable_blocks(self, fn, start_nodes, avoid=()):
        cfg = self.E.an(fn).cfg
        return {n for n in self.reach(fn, start_nodes, avoid) if n < cfg.nblocks}

    def dominates(self, fn, a, b):
        return self.E.an(fn).cfg.dominates(a, b)

    def ret_edge(self, fn, block):
        """the CFG edge node of the normal return of the call terminating `block`"""
        cfg = self.E.an(fn).cfg
        for e in cfg.out_edges[block]:
            if e.label[0] == "call_ret":
                return e.node
        return None

    def ok_edges_of_call(self, fn, block):
        """edge nodes on which the Result returned by the call in `block` is known to be Ok
        (the Continue edge of `?`, or the Ok arm of a match on it)"""
        an = self.E.an(fn)
        info = an.term[block]
        V = info["value"]
        out = []
        for node in an.edge_cond:
            for f in self.edge_facts(fn, node):
                if f[0] == "variant" and f[2] == 0 and (f[1] == V or (f[1][0] == "try" and f[1][1] == V)):
                    out.append(node)
        return out

    def return_kinds(self, fn):
        """[(node, kind, value)] for every way the function returns: kind ok/err/unknown/plain"""
        from .guard import _ret_payload, _is_result, _is_option
        an = self.E.an(fn)
        cfg = an.cfg
        wraps = _is_result(fn) or _is_option(fn)
        loops = cfg.natural_loops()
        work = []
        for b, info in an.term.items():
            if info["kind"] == "return":
                st = an.state_before_term(b)
                work.append((b, st, an.read(st, ("local", 0)), 0))
        out = []
        seen = set()
        while work:
            node, st, v, d = work.pop()
            if (node, v) in seen:
                continue
            seen.add((node, v))
            if v[0] == "phi" and v[1] not in loops and d < 80:
                exp = False
                for e in cfg.in_edges[v[1]]:
                    st2 = an.out_state.get(e.src)
                    if st2 is not None:
                        work.append((e.node, st2, an.read(st2, v[2]), d + 1))
                        exp = True
                if exp:
                    continue
            kind, payload = _ret_payload(v) if wraps else ("plain", v)
            out.append((node, kind, v))
        return out

    # ------------------------------------------------------------------ receiver fields
    def field_name(self, adt_path, idx):
        adt = self.F.adts.get(adt_path)
        if adt is None:
            return None
        try:
            return adt["variants"][0]["fields"][idx]["n"]
        except (IndexError, KeyError):
            return None

    def receiver_field(self, fn, v):
        """for a receiver value like &self.deleted_ids or &self.indexes.deleted_ids: the chain of
        field names from the root object, and the root value"""
        an = self.E.an(fn)
        if v[0] != "ref":
            return None, None
        L = v[1]
        chain = []
        while L[0] == "field":
            chain.append(L[2])
            L = L[1]
        chain.reverse()
        root = None
        tk = None
        if L[0] == "deref":
            root = L[1]
            tk = an.vtype.get(root)
            while tk is not None and tk["k"] in ("ref", "ptr"):
                tk = tk["to"]
        elif L[0] == "local":
            root = ("local", L[1])
            tk = an.local_tk[L[1]]
        names = []
        cur = tk
        for idx in chain:
            if cur is None or cur["k"] != "adt":
                names.append("#%s" % idx)
                cur = None
                continue
            adt = self.F.adts.get(cur["path"])
            if adt is None:
                names.append("#%s" % idx)
                cur = None
                continue
            fld = adt["variants"][0]["fields"][idx]
            names.append(fld["n"])
            cur = fld["ty"]["t"]
        return names, root

    # ------------------------------------------------------------------ obligations
    def ob(self, rule, fn, kind, desc, sp, verdict, why, block=0):
        o = Ob(rule, fn.path, block, kind, desc, sp)
        o.verdict = verdict
        o.why = why
        o.key = "%s:%s:%s:%s" % (rule, self.F.nice_of(fn.path).split("::", 1)[-1], kind, desc)
        return o

    def add(self, *a, **k):
        o = self.ob(*a, **k)
        # unique keys
        n = sum(1 for x in self.ctx.obs if x.key == o.key or x.key.startswith(o.key + "#"))
        if n:
            o.key = "%s#%d" % (o.key, n + 1)
        self.ctx.add(o)
        return o

    def show(self, v, fn):
        return self.E.stable(v, fn)


def contains_value(v, pred):
    hit = []

    def f(x):
        if pred(x):
            hit.append(x)
    walk(v, f)
    return bool(hit)


def leaf_values(an, v, depth=0, seen=None):
    """the values that can flow into v: joins are expanded to their inputs, and a projection of an aggregate built in
    this function is replaced by the projected operand (Some(x).0 -> x)"""
    if seen is None:
        seen = set()
    if depth > 12 or not isinstance(v, tuple) or not v or v in seen:
        return []
    if v[0] == "phi":
        seen = seen | {v}
        out = []
        for e in an.cfg.in_edges[v[1]]:
            st = an.out_state.get(e.src)
            if st is None:
                continue
            x = an.read(st, v[2])
            if x != v:
                out += leaf_values(an, x, depth + 1, seen)
        return out
    if v[0] == "proj" and v[2] == ("f", 0) and v[1][0] == "proj" and v[1][2][0] == "dc" and v[1][1][0] == "try":
        # the payload `x?` continues with (dc 0) / the residual it returns (dc 1), for a Result/Option joined before
        k = v[1][2][1]
        out = []
        for l in leaf_values(an, v[1][1][1], depth + 1, seen):
            if l[0] == "agg" and l[1].startswith(("adt:core::result::Result:", "adt:core::option::Option:")):
                vi = {"Ok": 0, "Err": 1, "Some": 0, "None": 1}.get(l[1].rsplit(":", 1)[-1])
                if vi == k and l[2]:
                    out += leaf_values(an, l[2][0], depth + 1, seen)
            elif l[0] != "agg":
                out.append(("proj", ("proj", ("try", l), ("dc", k)), ("f", 0)))
        return out
    if v[0] == "proj":
        sel = v[2]
        out = []
        for l in leaf_values(an, v[1], depth + 1, seen):
            if l[0] == "agg" and sel[0] == "dc":
                known = {"None": 0, "Some": 1, "Ok": 0, "Err": 1}.get(l[1].rsplit(":", 1)[-1]) \
                    if l[1].startswith(("adt:core::option::Option:", "adt:core::result::Result:")) else None
                if known is None or known == sel[1]:
                    out.append(l)       # (a mismatching variant is infeasible on this selection)
            elif l[0] == "agg" and sel[0] == "f" and sel[1] < len(l[2]):
                out += leaf_values(an, l[2][sel[1]], depth + 1, seen)
            elif l[0] == "try":
                out.append(("proj", l, sel))
            else:
                out.append(("proj", l, sel))
        return out
    return [v]


def contains_deep(an, v, pred, depth=0):
    """pred holds of some value inside v, looking through joins, `?` and projections of aggregates at any depth
    (a field of a returned struct that is a component of a pair a helper returned, ...)"""
    if depth > 6 or not isinstance(v, tuple) or not v:
        return False
    if contains_value(v, pred):
        return True
    for x in find_values(v, lambda y: y[0] in ("proj", "phi")):
        for l in leaf_values(an, x):
            if l != x and contains_deep(an, l, pred, depth + 1):
                return True
    return False


def find_values(v, pred):
    hit = []

    def f(x):
        if pred(x):
            hit.append(x)
    walk(v, f)
    return hit


def unbyref(v):
    return v[1] if v and v[0] == "byref" else v


def relation(f):
    """normalise a branch fact on a comparison call to (rel, a, b), rel in  <  <=  ==  !=
    (a rel b holds on that edge); None if the fact is not such a comparison"""
    if f[0] not in ("true", "false") or not isinstance(f[1], tuple) or f[1][0] != "call" or len(f[1][2]) != 2:
        return None
    name = f[1][1].rsplit("::", 1)[-1]
    a, b = unbyref(f[1][2][0]), unbyref(f[1][2][1])
    t = f[0] == "true"
    table = {
        ("lt", True): ("<", a, b), ("lt", False): ("<=", b, a),
        ("le", True): ("<=", a, b), ("le", False): ("<", b, a),
        ("gt", True): ("<", b, a), ("gt", False): ("<=", a, b),
        ("ge", True): ("<=", b, a), ("ge", False): ("<", a, b),
        ("eq", True): ("==", a, b), ("eq", False): ("!=", a, b),
        ("ne", True): ("!=", a, b), ("ne", False): ("==", a, b),
    }
    return table.get((name, t))


def deep_values(an, v, depth=3):
    """v together with the pointee values of references passed to the calls that produced it
    (e.g. as_bytes(&s) -> also the value of s at that call)"""
    out = [v]
    if depth <= 0:
        return out
    for c in find_values(v, lambda x: x[0] == "call" and len(x) > 3 and x[3] is not None):
        site = c[3]
        if site[0] != an.fn.path:
            continue
        info = an.term.get(site[1])
        if info is None or info["kind"] != "call":
            continue
        for a, pre in zip(info["args"], info["pre"]):
            if pre is not None and a[0] in ("ref", "unsize", "ptrcast"):
                out += deep_values(an, pre, depth - 1)
    return out


def const_range(an, v):
    """(lo, hi inclusive) of a range value built from constants (through references and promoted constants)"""
    if not isinstance(v, tuple) or not v:
        return None
    if v[0] == "promoted" and an is not None:
        v = an.promoted_pointee(v) or v
    if v[0] in ("ref", "byref"):
        return const_range(an, v[1]) if isinstance(v[1], tuple) else None
    if v[0] == "init" and v[1][0] == "deref":
        return const_range(an, v[1][1])
    if v[0] == "agg" and isinstance(v[1], str) and v[1].endswith(":Range") and len(v[2]) == 2 and all(x[0] == "const" for x in v[2]):
        return (v[2][0][1], v[2][1][1] - 1)
    if v[0] == "agg" and "RangeInclusive" in str(v[1]) and len(v[2]) >= 2 and v[2][0][0] == "const" and v[2][1][0] == "const":
        return (v[2][0][1], v[2][1][1])
    if v[0] == "call" and "range" in v[1] and v[1].endswith("::new") and len(v[2]) == 2 and all(x[0] == "const" for x in v[2]):
        return (v[2][0][1], v[2][1][1])
    return None


def eval_expr(v, is_x, x, an=None):
    """numeric value of a symbolic expression when the values satisfying is_x are x (None if it depends on anything else);
    Some(e) / None aggregates evaluate to ("Some", value) / ("None",)"""
    if not isinstance(v, tuple) or not v:
        return None
    if is_x(v):
        return x
    t = v[0]
    if t in ("byref", "ref") and isinstance(v[1], tuple) and v[1] and isinstance(v[1][0], str):
        r = eval_expr(v[1], is_x, x, an)
        if r is not None:
            return r
    if t == "call" and v[1].rsplit("::", 1)[-1] == "contains" and len(v[2]) == 2:
        r = const_range(an, v[2][0])
        e = eval_expr(v[2][1], is_x, x, an)
        if r is not None and e is not None and not isinstance(e, tuple):
            return r[0] <= e <= r[1]
        return None
    if t == "call" and v[1].rsplit("::", 1)[-1] in ("is_ascii_uppercase", "is_ascii_lowercase", "is_ascii_digit", "is_ascii_control",
                                                    "is_ascii_alphabetic", "is_ascii_alphanumeric", "is_ascii_hexdigit",
                                                    "is_ascii_graphic", "is_ascii_whitespace", "is_ascii_punctuation", "is_ascii") and len(v[2]) == 1:
        e = eval_expr(v[2][0], is_x, x, an)
        if e is None or isinstance(e, tuple) or not (0 <= int(e) < 0x110000):
            return None
        e = int(e)
        if e > 0x7F:
            return False
        ch = chr(e)
        import string as _st
        return {"is_ascii_uppercase": ch in _st.ascii_uppercase, "is_ascii_lowercase": ch in _st.ascii_lowercase,
                "is_ascii_digit": ch in _st.digits, "is_ascii_control": e < 0x20 or e == 0x7F,
                "is_ascii_alphabetic": ch in _st.ascii_letters, "is_ascii_alphanumeric": ch in _st.ascii_letters + _st.digits,
                "is_ascii_hexdigit": ch in _st.hexdigits, "is_ascii_graphic": 0x21 <= e <= 0x7E,
                "is_ascii_whitespace": e in (0x20, 0x09, 0x0A, 0x0C, 0x0D), "is_ascii_punctuation": ch in _st.punctuation,
                "is_ascii": True}[v[1].rsplit("::", 1)[-1]]
    if t == "const":
        return v[1]
    if t == "cast":
        return eval_expr(v[-1], is_x, x, an)
    if t == "not":
        r = eval_expr(v[1], is_x, x, an)
        return None if r is None else (not r)
    if t == "bin":
        a, b = eval_expr(v[2], is_x, x, an), eval_expr(v[3], is_x, x, an)
        if a is None or b is None or isinstance(a, tuple) or isinstance(b, tuple):
            return None
        try:
            return {"Eq": a == b, "Ne": a != b, "Lt": a < b, "Le": a <= b, "Gt": a > b, "Ge": a >= b,
                    "Add": int(a) + int(b), "Sub": int(a) - int(b), "Mul": int(a) * int(b),
                    "Shl": int(a) << int(b), "Shr": int(a) >> int(b),
                    "BitAnd": int(a) & int(b), "BitOr": int(a) | int(b), "BitXor": int(a) ^ int(b)}.get(v[1])
        except Exception:
            return None
    if t == "agg" and isinstance(v[1], str):
        if v[1].endswith(":None"):
            return ("None",)
        if v[1].endswith(":Some") and v[2]:
            r = eval_expr(v[2][0], is_x, x, an)
            return None if r is None else ("Some", r)
        if v[1].endswith(":Err"):
            return ("Err",)
        if v[1].endswith(":Ok") and v[2]:
            r = eval_expr(v[2][0], is_x, x, an)
            return None if r is None else ("Ok", r)
    if t == "call" and v[1].endswith("from_residual"):
        return ("None",) if "core::option::" in v[1] else ("Err",)
    return None


def eval_fn_scalar_all(S_, fn, is_x, x, limit=4000):
    """the values fn can return when its scalar input is x, over every path whose decided conditions agree with x
    (conditions that depend on anything else are followed both ways); entries that could not be evaluated are None"""
    an = S_.E.an(fn)
    cfg = an.cfg
    out = set()
    stack = [(cfg.entry, ())]
    steps = 0
    while stack and steps < limit:
        steps += 1
        node, path = stack.pop()
        if len(path) > 300:
            continue
        info = an.term.get(node)
        if info is None:
            continue
        if info["kind"] == "return":
            st = an.state_before_term(node)
            v = an.read(st, ("local", 0))
            if contains_value(v, lambda y: y[0] == "phi"):
                v = S_.value_on_path(fn, list(path), v)
            out.add(eval_expr(v, is_x, x, an))
            continue
        outs = cfg.out_edges[node]
        if info["kind"] == "switch":
            D = info["discr"]
            if contains_value(D, lambda y: y[0] == "phi"):
                D = S_.value_on_path(fn, list(path), D)
            val = eval_expr(D, is_x, x, an)
            if val is not None and not isinstance(val, tuple):
                val = int(val)
                sel = [e for e in outs if e.label[0] == "switch" and e.label[1] == val] or \
                    [e for e in outs if e.label[0] == "otherwise" and val not in e.label[1]]
                outs = sel
        for e in outs:
            if e.node in path:
                continue
            stack.append((e.dst, path + (e.node,)))
    return out


def eval_fn_scalar(S_, fn, is_x, x, limit=400):
    """the value fn returns when its scalar input (the values satisfying is_x) is x: the CFG is walked taking only the
    branches its conditions decide; None when a condition or the result depends on anything else"""
    an = S_.E.an(fn)
    cfg = an.cfg
    node = cfg.entry
    path = []
    for _ in range(limit):
        info = an.term.get(node)
        if info is None:
            return None
        if info["kind"] == "return":
            st = an.state_before_term(node)
            v = an.read(st, ("local", 0))
            if contains_value(v, lambda y: y[0] == "phi"):
                v = S_.value_on_path(fn, path, v)
            return eval_expr(v, is_x, x, an)
        if info["kind"] == "switch":
            D = info["discr"]
            if contains_value(D, lambda y: y[0] == "phi"):
                D = S_.value_on_path(fn, path, D)
            val = eval_expr(D, is_x, x, an)
            if val is None or isinstance(val, tuple):
                return None
            val = int(val)
            nxt = None
            for e in cfg.out_edges[node]:
                if e.label[0] == "switch" and e.label[1] == val:
                    nxt = e
            if nxt is None:
                for e in cfg.out_edges[node]:
                    if e.label[0] == "otherwise" and val not in e.label[1]:
                        nxt = e
            if nxt is None:
                return None
            path.append(nxt.node)
            node = nxt.dst
            continue
        outs = cfg.out_edges[node]
        if len(outs) != 1:
            return None
        path.append(outs[0].node)
        node = outs[0].dst
    return None
