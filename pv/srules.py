"""Helpers for the structural rules (S-...): call-site queries, edge-local facts, must-pass
and reachability over the CFG, receiver-field identification."""
from .guard import Ob, PROVED, VIOLATION, UNDECIDED, short
from .sym import show, walk, strip_sites


class S:
    def __init__(self, ctx):
        self.ctx = ctx
        self.E = ctx.E
        self.F = ctx.F

    # ------------------------------------------------------------------ call sites
    def nice(self, path):
        return self.F.nice_of(path) if path else ""

    def calls(self, fn, names=None, pred=None):
        """(block, info) for calls whose (readable) callee name is in names / satisfies pred"""
        an = self.E.an(fn)
        out = []
        for b, info in an.calls():
            callee = info["callee"] or ""
            n = self.nice(callee)
            base = info["base"] or ""
            ok = False
            if names is not None and (n in names or callee in names or base in names):
                ok = True
            if pred is not None and pred(n, callee, base, info):
                ok = True
            if ok:
                out.append((b, info))
        return out

    def callers(self, nice_name):
        f = self.ctx.fn(nice_name)
        return sorted(self.F.nice_of(p) for p in self.ctx.G.callers_of(f.path))

    # ------------------------------------------------------------------ edges and paths
    def edge_facts(self, fn, node):
        """facts contributed by one CFG edge node alone"""
        an = self.E.an(fn)
        P = self.E.prover(fn)
        ec = an.edge_cond.get(node)
        out = []
        if ec is None:
            return out
        if ec[0] == "switch":
            _, D, label, dty = ec
            if label[0] == "switch":
                P.decompose_eq(D, label[1], dty, out)
            else:
                vals = label[1]
                if dty == "bool" and len(vals) == 1:
                    P.decompose_eq(D, 1 - vals[0], dty, out)
                else:
                    for v in vals:
                        P.decompose_ne(D, v, dty, out)
                    if len(vals) >= 1 and D[0] == "discr":
                        # two-variant enums: "not variant k" is "the other variant"
                        pass
        elif ec[0] == "assert":
            _, c, expected, info = ec
            if info["mk"] == "BoundsCheck":
                P.decompose_eq(c, 1 if expected else 0, "bool", out)
        return out

    def edges_where(self, fn, pred):
        """edge nodes one of whose own facts satisfies pred(fact)"""
        an = self.E.an(fn)
        out = []
        for node in an.edge_cond:
            for f in self.edge_facts(fn, node):
                if pred(f):
                    out.append(node)
                    break
        return out

    def must_pass(self, fn, block, good_nodes):
        """every (value-feasible) path from entry to `block` passes one of good_nodes"""
        cfg = self.E.an(fn).cfg
        reach = self.reach(fn, [cfg.entry], avoid=good_nodes)
        return block not in reach

    def thread_map(self, fn):
        """edge node -> (switch block, forced label value): when a join merges Result/Option values whose
        variant is known per incoming edge and the join leads straight to the switch on that variant
        (the lowering of `?` and of match), a path entering through that edge can only take one arm"""
        an = self.E.an(fn)
        tm = getattr(an, "_thread_map", None)
        if tm is not None:
            return tm
        tm = {}
        cfg = an.cfg
        for J in range(cfg.nblocks):
            if len(cfg.in_edges[J]) < 2 or J not in an.in_state:
                continue
            for L0, ph0 in list(an.in_state[J].items()):
                if ph0 != ("phi", J, L0) or L0[0] != "local":
                    continue
                # follow the straight line from J to the switch on this value's variant, through further joins
                cur = J
                tracked = ph0
                S_ = None
                for _ in range(8):
                    info = an.term.get(cur)
                    if info is None:
                        break
                    if info["kind"] == "switch":
                        D = info["discr"]
                        if D[0] == "discr" and (D[1] == tracked or (D[1][0] == "try" and D[1][1] == tracked)):
                            S_ = cur
                        break
                    outs = cfg.out_edges[cur]
                    if len(outs) != 1:
                        break
                    nxt = outs[0].dst
                    if len(cfg.in_edges[nxt]) > 1:
                        found = None
                        for L2, v2 in an.in_state.get(nxt, {}).items():
                            if v2 == ("phi", nxt, L2):
                                st = an.out_state.get(cur)
                                if st is not None and an.read(st, L2) == tracked:
                                    found = v2
                        if found is None:
                            break
                        tracked = found
                    cur = nxt
                if S_ is None:
                    continue
                for e in cfg.in_edges[J]:
                    st = an.out_state.get(e.src)
                    if st is None:
                        continue
                    v = an.read(st, L0)
                    k = None
                    if v[0] == "agg":
                        if v[1].endswith((":Ok", ":None")):
                            k = 0
                        elif v[1].endswith((":Err", ":Some")):
                            k = 1
                    elif v[0] == "call" and v[1].endswith("from_residual"):
                        k = 1
                    if k is not None and e.node not in tm:
                        tm[e.node] = (S_, k)
        an._thread_map = tm
        return tm

    def reach(self, fn, start_nodes, avoid=()):
        """nodes reachable from start_nodes without entering `avoid`, ignoring value-infeasible arms"""
        an = self.E.an(fn)
        cfg = an.cfg
        tm = self.thread_map(fn)
        avoid = set(avoid)
        seen = set()
        out = set()
        stack = [(n, None) for n in start_nodes if n not in avoid]
        while stack:
            x, pend = stack.pop()
            if (x, pend) in seen:
                continue
            seen.add((x, pend))
            out.add(x)
            if x in tm:
                pend = tm[x]
            succs = cfg.succ[x]
            if pend is not None and x == pend[0]:
                # forced arm of the switch
                allowed = []
                for e in cfg.out_edges[x]:
                    if e.label[0] == "switch" and e.label[1] == pend[1]:
                        allowed.append(e.node)
                    elif e.label[0] == "otherwise" and pend[1] not in e.label[1]:
                        allowed.append(e.node)
                succs = allowed
                pend = None
            for y in succs:
                if y not in avoid:
                    stack.append((y, pend))
        return out

    def reachable_blocks(self, fn, start_nodes, avoid=()):
        cfg = self.E.an(fn).cfg
        return {n for n in self.reach(fn, start_nodes, avoid) if n < cfg.nblocks}

    def dominates(self, fn, a, b):
        return self.E.an(fn).cfg.dominates(a, b)

    def ret_edge(self, fn, block):
        """the CFG edge node of the normal return of the call terminating `block`"""
        cfg = self.E.an(fn).cfg
        for e in cfg.out_edges[block]:
            if e.label[0] == "call_ret":
                return e.node
        return None

    def ok_edges_of_call(self, fn, block):
        """edge nodes on which the Result returned by the call in `block` is known to be Ok
        (the Continue edge of `?`, or the Ok arm of a match on it)"""
        an = self.E.an(fn)
        info = an.term[block]
        V = info["value"]
        out = []
        for node in an.edge_cond:
            for f in self.edge_facts(fn, node):
                if f[0] == "variant" and f[2] == 0 and (f[1] == V or (f[1][0] == "try" and f[1][1] == V)):
                    out.append(node)
        return out

    def return_kinds(self, fn):
        """[(node, kind, value)] for every way the function returns: kind ok/err/unknown/plain"""
        from .guard import _ret_payload, _is_result, _is_option
        an = self.E.an(fn)
        cfg = an.cfg
        wraps = _is_result(fn) or _is_option(fn)
        loops = cfg.natural_loops()
        work = []
        for b, info in an.term.items():
            if info["kind"] == "return":
                st = an.state_before_term(b)
                work.append((b, st, an.read(st, ("local", 0)), 0))
        out = []
        seen = set()
        while work:
            node, st, v, d = work.pop()
            if (node, v) in seen:
                continue
            seen.add((node, v))
            if v[0] == "phi" and v[1] not in loops and d < 80:
                exp = False
                for e in cfg.in_edges[v[1]]:
                    st2 = an.out_state.get(e.src)
                    if st2 is not None:
                        work.append((e.node, st2, an.read(st2, v[2]), d + 1))
                        exp = True
                if exp:
                    continue
            kind, payload = _ret_payload(v) if wraps else ("plain", v)
            out.append((node, kind, v))
        return out

    # ------------------------------------------------------------------ receiver fields
    def field_name(self, adt_path, idx):
        adt = self.F.adts.get(adt_path)
        if adt is None:
            return None
        try:
            return adt["variants"][0]["fields"][idx]["n"]
        except (IndexError, KeyError):
            return None

    def receiver_field(self, fn, v):
        """for a receiver value like &self.deleted_ids or &self.indexes.deleted_ids: the chain of
        field names from the root object, and the root value"""
        an = self.E.an(fn)
        if v[0] != "ref":
            return None, None
        L = v[1]
        chain = []
        while L[0] == "field":
            chain.append(L[2])
            L = L[1]
        chain.reverse()
        root = None
        tk = None
        if L[0] == "deref":
            root = L[1]
            tk = an.vtype.get(root)
            while tk is not None and tk["k"] in ("ref", "ptr"):
                tk = tk["to"]
        elif L[0] == "local":
            root = ("local", L[1])
            tk = an.local_tk[L[1]]
        names = []
        cur = tk
        for idx in chain:
            if cur is None or cur["k"] != "adt":
                names.append("#%s" % idx)
                cur = None
                continue
            adt = self.F.adts.get(cur["path"])
            if adt is None:
                names.append("#%s" % idx)
                cur = None
                continue
            fld = adt["variants"][0]["fields"][idx]
            names.append(fld["n"])
            cur = fld["ty"]["t"]
        return names, root

    # ------------------------------------------------------------------ obligations
    def ob(self, rule, fn, kind, desc, sp, verdict, why, block=0):
        o = Ob(rule, fn.path, block, kind, desc, sp)
        o.verdict = verdict
        o.why = why
        o.key = "%s:%s:%s:%s" % (rule, self.F.nice_of(fn.path).split("::", 1)[-1], kind, desc)
        return o

    def add(self, *a, **k):
        o = self.ob(*a, **k)
        # unique keys
        n = sum(1 for x in self.ctx.obs if x.key == o.key or x.key.startswith(o.key + "#"))
        if n:
            o.key = "%s#%d" % (o.key, n + 1)
        self.ctx.add(o)
        return o

    def show(self, v, fn):
        return self.E.stable(v, fn)


def contains_value(v, pred):
    hit = []

    def f(x):
        if pred(x):
            hit.append(x)
    walk(v, f)
    return bool(hit)


def find_values(v, pred):
    hit = []

    def f(x):
        if pred(x):
            hit.append(x)
    walk(v, f)
    return hit


def unbyref(v):
    return v[1] if v and v[0] == "byref" else v


def relation(f):
    """normalise a branch fact on a comparison call to (rel, a, b), rel in  <  <=  ==  !=
    (a rel b holds on that edge); None if the fact is not such a comparison"""
    if f[0] not in ("true", "false") or not isinstance(f[1], tuple) or f[1][0] != "call" or len(f[1][2]) != 2:
        return None
    name = f[1][1].rsplit("::", 1)[-1]
    a, b = unbyref(f[1][2][0]), unbyref(f[1][2][1])
    t = f[0] == "true"
    table = {
        ("lt", True): ("<", a, b), ("lt", False): ("<=", b, a),
        ("le", True): ("<=", a, b), ("le", False): ("<", b, a),
        ("gt", True): ("<", b, a), ("gt", False): ("<=", a, b),
        ("ge", True): ("<=", b, a), ("ge", False): ("<", a, b),
        ("eq", True): ("==", a, b), ("eq", False): ("!=", a, b),
        ("ne", True): ("!=", a, b), ("ne", False): ("==", a, b),
    }
    return table.get((name, t))


def deep_values(an, v, depth=3):
    """v together with the pointee values of references passed to the calls that produced it
    (e.g. as_bytes(&s) -> also the value of s at that call)"""
    out = [v]
    if depth <= 0:
        return out
    for c in find_values(v, lambda x: x[0] == "call" and len(x) > 3 and x[3] is not None):
        site = c[3]
        if site[0] != an.fn.path:
            continue
        info = an.term.get(site[1])
        if info is None or info["kind"] != "call":
            continue
        for a, pre in zip(info["args"], info["pre"]):
            if pre is not None and a[0] in ("ref", "unsize", "ptrcast"):
                out += deep_values(an, pre, depth - 1)
    return out
