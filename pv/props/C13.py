"""C13 - killing the process at any instant leaves a consistent, reopenable store."""
from ..srules import S
from . import txn, storage

EXPLANATION = (
    "Crash points are not enumerated. Decided instead is the ordering across the two storage engines that makes "
    "every kill point safe: in the dependency's append the writer callback precedes a SeqCst fence which precedes "
    "the single end-marker store (and the stored marker is old end + bytes written); in store_event and rebuild "
    "the append precedes indexing, indexing uses the returned offset, and the commit comes last; removal is one "
    "transaction; vanish is a sequence of single-transaction removals; EventStore::new accepts an existing file "
    "only after checking the end marker against HEADER_SIZE (or freshly initialising), never truncates and never "
    "blindly re-initialises. The post-crash state equality itself, msync/page-cache semantics and LMDB's crash "
    "consistency are not decided.")
EXPLANATION += " Also decided: EventStore::new remembers the file's real length, and nothing in pocket-db writes to the file through a file handle."
ASSUMPTIONS = ["a killed process's dirty shared mappings reach the file (process kill, not power loss)",
               "LMDB commits are atomic (copy-on-write meta page)"]


def run(ctx):
    s = S(ctx)
    storage.append_order_in_dependency(ctx, s)
    storage.append_index_commit_order(ctx, s, "pocket_db::Store::store_event")
    storage.append_index_commit_order(ctx, s, "pocket_db::Store::rebuild", loop=True)
    txn.single_write_txn_first(ctx, s, "pocket_db::Store::store_event")
    txn.error_paths_do_not_commit(ctx, s, "pocket_db::Store::store_event")
    txn.effects_use_callers_txn(ctx, s, "pocket_db::Store::store_event")
    # removal: one transaction
    txn.single_write_txn_first(ctx, s, "pocket_db::Store::remove_event")
    txn.effects_use_callers_txn(ctx, s, "pocket_db::Store::remove_event")
    txn.error_paths_do_not_commit(ctx, s, "pocket_db::Store::remove_event")
    storage.vanish_effects(ctx, s)
    storage.reopen_validates_marker(ctx, s)
    storage.read_bound_by_marker(ctx, s)
    storage.no_direct_file_writes(ctx, s)
    storage.recorded_length_is_file_length(ctx, s)
