"""Rules on Store::store_event / handle_deletion_event about replacement, deletion markers and
ephemeral events (shared by C09, C11, C18)."""
from ..srules import S, find_values, contains_value, unbyref, relation
from ..guard import PROVED, VIOLATION, UNDECIDED
from ..sym import strip_sites
from . import txn

STORE = "pocket_db::Store::store_event"
HANDLER = "pocket_db::Store::handle_deletion_event"
APPENDER = "pocket_db::EventStore::store_event"


def event_param(fn):
    for i in range(1, fn.argc + 1):
        if fn.locals[i]["ty"]["s"].endswith("Event"):
            return ("param", i)
    return None


def acc(name, ev):
    """predicate: value is Event::<name>(ev)"""
    return lambda v: v[0] == "call" and v[1].endswith("::" + name) and v[1].startswith("pocket_types::event::") and v[2] and v[2][0] == ev


def class_edges(ctx, s, fn, ev, pred_name, truth=True):
    """edge nodes establishing Kind::<pred_name>(kind(ev)) == truth"""
    want = "true" if truth else "false"
    out = []
    an = ctx.E.an(fn)
    for node in an.edge_cond:
        for f in s.edge_facts(fn, node):
            if f[0] == want and f[1][0] == "call" and f[1][1].endswith("::" + pred_name):
                a = unbyref(f[1][2][0])
                if acc("kind", ev)(a) or (a[0] == "proj"):
                    out.append((node, a))
    return out


def effects_in_store(ctx, s, fn):
    """(block, info, what) for the calls of store_event that change something"""
    names = {"pocket_db::Store::remove_replaceable", "pocket_db::Store::remove_parameterized_replaceable",
             APPENDER, "pocket_db::Lmdb::index", HANDLER, "pocket_db::Store::remove_by_id", "pocket_db::Store::remove_by_offset",
             "pocket_db::Lmdb::mark_deleted", "pocket_db::Lmdb::mark_naddr_deleted"}
    return s.calls(fn, names=names)


# ----------------------------------------------------------------------------- C11.1
def markers_consulted_first(ctx, s):
    fn = ctx.fn(STORE)
    an = ctx.E.an(fn)
    ev = event_param(fn)
    effs = effects_in_store(ctx, s, fn)
    ctx.floor("C11.store_event-effect-sites", len(effs), 5)
    # (a) deleted-id marker: every effect is reached only through the "not deleted" outcome of is_deleted(id(event))
    isd = s.calls(fn, names={"pocket_db::Lmdb::is_deleted"})
    ctx.floor("C11.is_deleted-calls", len(isd), 1)
    good = []
    bad_arg = False
    for b, info in isd:
        if not acc("id", ev)(info["args"][2]):
            bad_arg = True
        V = info["value"]
        for node in an.edge_cond:
            for f in s.edge_facts(fn, node):
                if f[0] == "false" and contains_value(f[1], lambda x: x == V):
                    good.append(node)
    for b, info in effs:
        ok = s.must_pass(fn, b, good) and not bad_arg
        nm = s.nice(info["callee"]).split("::")[-1]
        s.add("S-ORDER", fn, "deleted-id-checked-first", nm, info["sp"], PROVED if ok else VIOLATION,
              "reached only after is_deleted(event.id()) came out false" if ok else
              "%s can run for an event whose id carries a deletion marker" % nm, b)
    # (b) address markers: per class, when_is_naddr_deleted(addr(event)) with reject iff created_at <= time
    wn = s.calls(fn, names={"pocket_db::Lmdb::when_is_naddr_deleted"})
    ctx.floor("C11.when_is_naddr_deleted-calls", len(wn), 2)
    classes_seen = set()
    for b, info in wn:
        facts = ctx.E.facts(fn, b)
        cls = None
        for f in facts:
            if f[0] == "true" and f[1][0] == "call" and f[1][1].rsplit("::", 1)[-1] in ("is_replaceable", "is_parameterized_replaceable"):
                if acc("kind", ev)(unbyref(f[1][2][0])):
                    cls = f[1][1].rsplit("::", 1)[-1]
        if cls is None:
            s.add("S-DOM", fn, "naddr-marker-class", "when_is_naddr_deleted", info["sp"], VIOLATION,
                  "the address marker lookup is not under the class predicate of the event's own kind", b)
            continue
        classes_seen.add(cls)
        # address provenance: kind and author of the event (and its d value for the parameterized class)
        addr = info["pre"][2] if info["pre"][2] is not None else info["args"][2]
        okp = contains_value(addr, acc("kind", ev)) and contains_value(addr, acc("pubkey", ev))
        if cls == "is_parameterized_replaceable":
            okp = okp and contains_value(addr, lambda x: x[0] == "call" and x[1].endswith("::get_value"))
        # relation: reject iff created_at(event) <= time
        T = info["value"]
        rej = []      # edges establishing created_at <= time
        acc_edges = []
        wrong = []
        for node in an.edge_cond:
            for f in s.edge_facts(fn, node):
                r = relation(f)
                if r is None:
                    continue
                rel, a, b2 = r
                a_c, b_c = acc("created_at", ev)(a), acc("created_at", ev)(b2)
                a_t, b_t = contains_value(a, lambda x: x == T), contains_value(b2, lambda x: x == T)
                if a_c and b_t:
                    (rej if rel == "<=" else wrong if rel == "<" else acc_edges).append(node) if rel in ("<=", "<") else None
                elif a_t and b_c:
                    # time rel created_at
                    (acc_edges if rel == "<" else wrong if rel == "<=" else acc_edges).append(node) if rel in ("<=", "<") else None
        # the rejecting edge must reach only error returns and no effect
        eff_blocks = {b_ for b_, _ in effs}
        ok_rel = bool(rej) and not wrong
        leak = False
        for node in rej:
            reach = s.reachable_blocks(fn, [node])
            if reach & eff_blocks:
                leak = True
        okall = okp and ok_rel and not leak
        s.add("S-REL", fn, "deleted-address-checked-first", cls, info["sp"], PROVED if okall else VIOLATION,
              "address built from the event's own kind/author%s; rejected iff created_at <= deletion time; the rejecting edge reaches no effect" % (
                  "/d" if cls.startswith("is_param") else "") if okall else
              "deletion-time test for the %s class is not 'reject iff created_at <= time' on the event's own address "
              "(provenance ok=%s, relation ok=%s, rejecting edge leaks=%s)" % (cls, okp, ok_rel, leak), b)
        # every effect is after this lookup on the class path: effects dominated by the class edge must pass the accept edge
    for cls in ("is_replaceable", "is_parameterized_replaceable"):
        if cls not in classes_seen:
            s.add("S-DOM", fn, "naddr-marker-class", cls, fn.sp, VIOLATION,
                  "no deletion-time lookup under %s: events of that class are never refused as deleted" % cls)


# ----------------------------------------------------------------------------- C11.4
def covered_events_removed(ctx, s):
    fn = ctx.fn(HANDLER)
    an = ctx.E.an(fn)
    ev = event_param(fn)
    mk = s.calls(fn, names={"pocket_db::Lmdb::mark_naddr_deleted"})
    ctx.floor("C11.handler.mark_naddr_deleted", len(mk), 1)
    for b, info in mk:
        when = info["args"][3]
        okw = acc("created_at", ev)(when)
        s.add("S-REL", fn, "marker-time-is-request-time", "mark_naddr_deleted", info["sp"], PROVED if okw else VIOLATION,
              "the marker time is the request's created_at" if okw else "the marker is not written with the request's created_at", b)
    for callee, cls in (("pocket_db::Store::remove_replaceable", "is_replaceable"),
                        ("pocket_db::Store::remove_parameterized_replaceable", "is_parameterized_replaceable")):
        cs = s.calls(fn, names={callee})
        if not cs:
            s.add("S-ORDER", fn, "covered-events-removed", cls, fn.sp, VIOLATION,
                  "an accepted address deletion never removes the stored events of the %s class" % cls)
            continue
        for b, info in cs:
            until = info["args"][-1]
            oku = acc("created_at", ev)(until)
            facts = ctx.E.facts(fn, b)
            okc = any(f[0] == "true" and f[1][0] == "call" and f[1][1].endswith("::" + cls) for f in facts)
            # ... or after finding that a marker at least as new is already stored (the write is then skipped)
            newer_stored = s.edges_where(fn, lambda f: f[0] == "le" and any(
                contains_value(a, lambda y: y[0] == "call" and y[1].endswith("::when_is_naddr_deleted")) for a, k_ in f[1][1]))
            # the same test written on the Time values themselves (`existing >= request.created_at()`)

            def _stored_not_older(f):
                if f[0] != "true" or f[1][0] != "call":
                    return False
                nm = f[1][1].rsplit("::", 1)[-1]
                if nm not in ("ge", "gt", "le", "lt") or "PartialOrd" not in f[1][1] or len(f[1][2]) != 2:
                    return False
                a0, a1 = f[1][2]
                if nm in ("le", "lt"):
                    a0, a1 = a1, a0
                return (contains_value(a0, lambda y: y[0] == "call" and y[1].endswith("::when_is_naddr_deleted")) and
                        contains_value(a1, acc("created_at", ev)))
            newer_stored = newer_stored + s.edges_where(fn, _stored_not_older)
            after_mark = any(s.must_pass(fn, b, (s.ok_edges_of_call(fn, mb) or [mb]) + newer_stored) for mb, _ in mk)
            ok = oku and okc and after_mark
            s.add("S-ORDER", fn, "covered-events-removed", cls, info["sp"], PROVED if ok else VIOLATION,
                  "after the marker is written, events of the address up to the request's created_at are removed" if ok else
                  "removal for the %s class is not (after the marker, under the class predicate, until = request created_at)" % cls, b)
    # every path from the marker write to the next tag (or to Ok) passes a removal, or the edges on which the address's kind
    # was found to be of neither removable class: recording the deletion and skipping the removal (because "it was done the
    # first time") leaves events that the newer request covers retrievable
    loops = an.cfg.natural_loops()
    oks = [n for n, k_, v in s.return_kinds(fn) if k_ == "ok"]
    rm_ok = []
    for callee in ("pocket_db::Store::remove_replaceable", "pocket_db::Store::remove_parameterized_replaceable"):
        for b, info in s.calls(fn, names={callee}):
            rm_ok += s.ok_edges_of_call(fn, b) or [b]
    not_cls = {}
    ALL_CLS = ("is_replaceable", "is_parameterized_replaceable", "is_ephemeral")
    for cls in ("is_replaceable", "is_parameterized_replaceable"):
        # the kind is known not to be of this class: its predicate answered false, or the predicate of another class answered
        # true (the classes are pairwise disjoint - decided by the kind-class rule)
        not_cls[cls] = s.edges_where(fn, lambda f, cls=cls: isinstance(f[1], tuple) and f[1] and f[1][0] == "call" and (
            (f[0] == "false" and f[1][1].endswith("::" + cls)) or
            (f[0] == "true" and any(f[1][1].endswith("::" + o) for o in ALL_CLS if o != cls))))
    for mb, minfo in mk:
        starts = s.ok_edges_of_call(fn, mb) or [mb]
        inner = [H for H, body in loops.items() if mb in body]
        H = min(inner, key=lambda h: len(loops[h])) if inner else None
        targets = set(oks) | ({H} if H is not None else set())
        skipped = None
        for cls in ("is_replaceable", "is_parameterized_replaceable"):
            reach = s.reach(fn, starts, avoid=rm_ok + not_cls[cls])
            if any(t in reach for t in targets):
                skipped = cls
        if not rm_ok:
            continue
        s.add("S-MUSTPASS", fn, "removal-follows-marker", "mark_naddr_deleted", minfo["sp"], PROVED if skipped is None else VIOLATION,
              "once the address marker is written, the next tag (or Ok) is reached only through a removal or through finding the "
              "kind in neither removable class" if skipped is None else
              "after the address marker is written the handler can go on to the next tag (or succeed) without removing the "
              "address's stored events and without having found its kind non-removable (%s never decided on that path): events "
              "the accepted request covers stay retrievable" % skipped, mb)
    # e targets: a present target is removed before the id marker is written
    rb = s.calls(fn, names={"pocket_db::Store::remove_by_id"})
    md = s.calls(fn, names={"pocket_db::Lmdb::mark_deleted"})
    ctx.floor("C11.handler.mark_deleted", len(md), 1)
    for b, info in md:
        good = []
        for rbb, rinfo in rb:
            good += s.ok_edges_of_call(fn, rbb)
        # or the target is absent
        for node in an.edge_cond:
            for f in s.edge_facts(fn, node):
                if f[0] == "variant" and f[2] == 0 and f[1][0] == "proj" and \
                        contains_value(f[1], lambda x: x[0] == "call" and (x[1].endswith("get_event_by_id") or x[1].endswith("get_offset_by_id"))):
                    good.append(node)
        ok = s.must_pass(fn, b, good)
        s.add("S-ORDER", fn, "target-removed-before-marker", "mark_deleted", info["sp"], PROVED if ok else VIOLATION,
              "the id marker is written only after a present target was removed (or when no target is stored)" if ok else
              "the id marker can be written while the named event stays retrievable", b)


# ----------------------------------------------------------------------------- C09.2
def replacement_shape(ctx, s):
    fn = ctx.fn(STORE)
    an = ctx.E.an(fn)
    ev = event_param(fn)
    app = s.calls(fn, names={APPENDER})
    ab = app[0][0]
    for cls, rm_name, find_name in (("is_replaceable", "pocket_db::Store::remove_replaceable", "pocket_db::Store::find_replaceable_event_inner"),
                                    ("is_parameterized_replaceable", "pocket_db::Store::remove_parameterized_replaceable",
                                     "pocket_db::Store::find_parameterized_replaceable_event_inner")):
        rms = s.calls(fn, names={rm_name})
        fds = s.calls(fn, names={find_name})
        if not rms or not fds:
            s.add("S-ORDER", fn, "displace-then-refuse", cls, fn.sp, VIOLATION,
                  "store_event lacks the pre-removal or the 'anything left' check for the %s class" % cls)
            continue
        (rb, rinfo), (fb, finfo) = rms[0], fds[0]
        # class predicate on the event's own kind dominates both
        okcls = all(any(f[0] == "true" and f[1][0] == "call" and f[1][1].endswith("::" + cls) and acc("kind", ev)(unbyref(f[1][2][0]))
                        for f in ctx.E.facts(fn, b)) for b in (rb, fb))
        # the removal is bounded by the event's own created_at and addresses the event's own author/kind
        rargs = list(rinfo["args"]) + [p for p in rinfo["pre"] if p is not None]
        okaddr = any(contains_value(a, acc("pubkey", ev)) for a in rargs) and any(contains_value(a, acc("kind", ev)) for a in rargs)
        okuntil = acc("created_at", ev)(rinfo["args"][-1])
        fargs = list(finfo["args"]) + [p for p in finfo["pre"] if p is not None]
        okf = any(contains_value(a, acc("pubkey", ev)) for a in fargs) and any(contains_value(a, acc("kind", ev)) for a in fargs)
        if cls.startswith("is_param"):
            okaddr = okaddr and any(contains_value(a, lambda x: x[0] == "call" and x[1].endswith("::get_value")) for a in rargs)
            okf = okf and any(contains_value(a, lambda x: x[0] == "call" and x[1].endswith("::get_value")) for a in fargs)
        # order: removal (Ok) before find, find before append
        order = s.must_pass(fn, fb, s.ok_edges_of_call(fn, rb)) and an.cfg.dominates(fb, ab) is not None
        # Some edge of the find reaches only Err(Replaced) and no effect
        FV = finfo["value"]
        some_edges = []
        none_edges = []
        for node in an.edge_cond:
            for f in s.edge_facts(fn, node):
                if f[0] in ("true", "false") and f[1][0] == "call" and f[1][1].endswith("::is_some") and contains_value(f[1], lambda x: x == FV):
                    (some_edges if f[0] == "true" else none_edges).append(node)
                if f[0] == "variant" and f[1][0] == "proj" and contains_value(f[1], lambda x: x == FV):
                    (some_edges if f[2] == 1 else none_edges).append(node)
        effs = {b for b, _ in effects_in_store(ctx, s, fn)}
        leak = any(s.reachable_blocks(fn, [n]) & effs for n in some_edges)
        # on the class path the append is reached only through the None edge
        class_nodes = [n for n, a in class_edges(ctx, s, fn, ev, cls, True) if an.cfg.dominates(n, rb)]
        gated = True
        if class_nodes:
            cfg = an.cfg
            reach = s.reach(fn, class_nodes, avoid=none_edges)
            # d-less parameterized events skip the block entirely: allowed (no address)
            gated = not ({ab} & reach) or cls.startswith("is_param")
            if cls.startswith("is_param"):
                # through the Some(d) edge the append must pass the None edge
                d_edges = []
                for node in an.edge_cond:
                    for f in s.edge_facts(fn, node):
                        if f[0] == "variant" and f[2] == 1 and contains_value(f[1], lambda x: x[0] == "call" and x[1].endswith("::get_value")):
                            d_edges.append(node)
                d_after = [n for n in d_edges if any(cfg.dominates(c, n) for c in class_nodes) and cfg.dominates(n, rb)]
                if d_after:
                    reach = s.reach(fn, d_after, avoid=none_edges)
                    gated = ab not in reach
        ok = okcls and okaddr and okuntil and okf and order and some_edges and not leak and gated
        s.add("S-ORDER", fn, "displace-then-refuse", cls, rinfo["sp"], PROVED if ok else VIOLATION,
              "under the class predicate: remove same address up to created_at, then 'anything left => Replaced', then append" if ok else
              "replacement shape broken for %s: class=%s address=%s until=%s find-address=%s order=%s some-edge=%s leak=%s gated=%s" % (
                  cls, okcls, okaddr, okuntil, okf, order, bool(some_edges), leak, gated), rb)
    # the removal helpers refuse other kinds
    for name, cls in (("pocket_db::Store::remove_replaceable", "is_replaceable"),
                      ("pocket_db::Store::remove_parameterized_replaceable", "is_parameterized_replaceable"),
                      ("pocket_db::Store::find_replaceable_event_inner", "is_replaceable"),
                      ("pocket_db::Store::find_parameterized_replaceable_event_inner", "is_parameterized_replaceable")):
        g = ctx.fn(name)
        gan = ctx.E.an(g)
        acts = s.calls(g, pred=lambda n, c, b, i: n in ("pocket_db::Store::remove_by_offset",) or c.endswith("_iter") or n.endswith("_iter"))
        okg = bool(acts)
        for b, info in acts:
            facts = ctx.E.facts(g, b)
            if not any(f[0] == "true" and f[1][0] == "call" and f[1][1].endswith("::" + cls) for f in facts):
                okg = False
        verdict = PROVED if okg else VIOLATION
        if not okg and acts:
            # the kind test made by every caller instead (moved out of the helper): each call site lies behind it
            callers = s.callers(name)
            allg = bool(callers)
            for cn in callers:
                cf = ctx.fn(cn)
                for cb, ci in s.calls(cf, names={name}):
                    if not any(f[0] == "true" and isinstance(f[1], tuple) and f[1][0] == "call" and f[1][1].endswith("::" + cls)
                               for f in ctx.E.facts(cf, cb)):
                        allg = False
            if allg:
                verdict = PROVED
        s.add("S-DOM", g, "wrong-kind-guard", cls, g.sp, verdict,
              "every scan/removal is dominated by the %s test, here or in every caller (other kinds are never displaced)" % cls if verdict == PROVED else
              "%s acts without the %s test" % (name.split("::")[-1], cls))


# ----------------------------------------------------------------------------- C18.3
def ephemeral_not_indexed(ctx, s):
    fn = ctx.fn(STORE)
    ev = event_param(fn)
    idx = s.calls(fn, names={"pocket_db::Lmdb::index"})
    ctx.floor("C18.index-calls-in-store_event", len(idx), 1)
    for b, info in idx:
        ok = any(f[0] == "false" and f[1][0] == "call" and f[1][1].endswith("::is_ephemeral") and acc("kind", ev)(unbyref(f[1][2][0]))
                 for f in ctx.E.facts(fn, b))
        oke = info["args"][2] == ev
        verdict = PROVED if (ok and oke) else VIOLATION
        if not ok and oke:
            fs_ = ctx.E.facts(fn, b)
            positive = any(f[0] == "true" and isinstance(f[1], tuple) and f[1][0] == "call" and f[1][1].endswith("::is_ephemeral") for f in fs_)
            tested = any((i_["callee"] or "").endswith("::is_ephemeral") for b_, i_ in ctx.E.an(fn).calls())
            if tested and not positive:
                # the ephemeral test is made, and the decision reaches index() through a value computed from it (a class
                # enum, a policy flag): not read off the dominating conditions
                verdict = UNDECIDED
        s.add("S-DOM", fn, "ephemeral-not-indexed", "index", info["sp"], verdict,
              "index() runs only when is_ephemeral(kind(event)) is false" if verdict == PROVED else
              ("ephemeral events can be indexed (they would become retrievable)" if verdict == VIOLATION else
               "the ephemeral test is made but reaches index() through a computed value: not decided"), b)
    # storing an ephemeral event still succeeds: the append is not under the ephemeral test
    app = s.calls(fn, names={APPENDER})
    for b, info in app:
        cond = any(f[0] in ("true", "false") and f[1][0] == "call" and f[1][1].endswith("::is_ephemeral") for f in ctx.E.facts(fn, b))
        s.add("S-DOM", fn, "ephemeral-appended", "store_event", info["sp"], PROVED if not cond else VIOLATION,
              "the append does not depend on the ephemeral test" if not cond else "ephemeral events are not appended", b)


# ----------------------------------------------------------------------------- kind classes (S-TABLE)
def _eval_kind_pred(ctx, s, fn, k):
    """value of a Kind class predicate for kind number k: the function's branch conditions are evaluated with self.0 = k
    (comparisons, ranges from literals / promoted constants / named constants, matches! arms); None if some branch depends
    on anything else"""
    from .parsers import eval_with_byte
    an = ctx.E.an(fn)
    cfg = an.cfg
    is_k = lambda v: (v[0] == "init" and v[1][0] == "field" and v[1][1] == ("deref", ("param", 1))) or \
        (v[0] == "ref" and v[1][0] == "field" and v[1][1] == ("deref", ("param", 1))) or \
        (v[0] == "byref" and is_k(v[1])) or (v[0] == "cast" and is_k(v[-1]))

    def rng(v):
        """(lo, hi_inclusive) of a range value"""
        if v[0] == "promoted":
            v = an.promoted_pointee(v) or v
        if v[0] in ("ref", "byref"):
            return rng(v[1]) if isinstance(v[1], tuple) else None
        if v[0] == "init" and v[1][0] == "deref":
            return rng(v[1][1])
        if v[0] == "agg" and isinstance(v[1], str) and v[1].endswith(":Range") and len(v[2]) == 2 and all(x[0] == "const" for x in v[2]):
            return (v[2][0][1], v[2][1][1] - 1)
        if v[0] == "agg" and "RangeInclusive" in str(v[1]) and len(v[2]) >= 2 and v[2][0][0] == "const" and v[2][1][0] == "const":
            return (v[2][0][1], v[2][1][1])
        if v[0] == "call" and "range" in v[1] and v[1].endswith("::new") and len(v[2]) == 2 and all(x[0] == "const" for x in v[2]):
            return (v[2][0][1], v[2][1][1])         # RangeInclusive::new
        return None

    def ev(v):
        if not isinstance(v, tuple) or not v:
            return None
        if is_k(v):
            return k
        t = v[0]
        if t == "const":
            return v[1]
        if t == "not":
            x = ev(v[1])
            return None if x is None else (not x)
        if t == "cast":
            return ev(v[-1])
        if t == "bin":
            x, y = ev(v[2]), ev(v[3])
            if x is None or y is None:
                return None
            return {"Eq": x == y, "Ne": x != y, "Lt": x < y, "Le": x <= y, "Gt": x > y, "Ge": x >= y,
                    "BitOr": int(x) | int(y), "BitAnd": int(x) & int(y)}.get(v[1])
        if t == "call" and v[1].rsplit("::", 1)[-1] == "contains" and len(v[2]) == 2 and is_k(v[2][1]):
            r = rng(v[2][0])
            return None if r is None else (r[0] <= k <= r[1])
        return None
    # walk the CFG taking only decided branches; the value returned
    node = cfg.entry
    for _ in range(200):
        info = an.term.get(node)
        if info is None:
            return None
        if info["kind"] == "return":
            st = an.state_before_term(node)
            v = an.read(st, ("local", 0))
            if v[0] == "phi":
                v = s.value_on_path(fn, path, v)
            r = ev(v)
            return None if r is None else bool(r)
        if info["kind"] == "switch":
            D = info["discr"]
            if contains_value(D, lambda y: y[0] == "phi"):
                D = s.value_on_path(fn, path, D)
            val = ev(D)
            if val is None:
                return None
            val = int(val)
            nxt = None
            for e in cfg.out_edges[node]:
                if e.label[0] == "switch" and e.label[1] == val:
                    nxt = e
            if nxt is None:
                for e in cfg.out_edges[node]:
                    if e.label[0] == "otherwise" and val not in e.label[1]:
                        nxt = e
            if nxt is None:
                return None
            path.append(nxt.node)
            node = nxt.dst
            continue
        outs = cfg.out_edges[node]
        if len(outs) != 1:
            return None
        path.append(outs[0].node)
        node = outs[0].dst
    return None


def kind_classes(ctx, s):
    """the three class predicates vs NIP-01, decided by evaluating each predicate's branch conditions for every one of the
    65536 kind numbers (whatever form the ranges are written in); pairwise disjoint"""
    ORACLE = {"is_replaceable": set(range(10000, 20000)) | {0, 3},
              "is_ephemeral": set(range(20000, 30000)),
              "is_parameterized_replaceable": set(range(30000, 40000))}
    got = {}
    for name, want in ORACLE.items():
        fn = ctx.fn("pocket_types::Kind::" + name)
        ctx.functions.add(fn.path)
        vals = set()
        unknown = 0
        global path
        for k in range(65536):
            path = []
            r = _eval_kind_pred(ctx, s, fn, k)
            if r is None:
                unknown += 1
                if unknown > 8:
                    break
            elif r:
                vals.add(k)
        got[name] = vals
        if unknown:
            s.add("S-TABLE", fn, "kind-class", name, fn.sp, UNDECIDED, "the predicate's conditions could not be evaluated for every kind number")
        elif vals == want:
            s.add("S-TABLE", fn, "kind-class", name, fn.sp, PROVED, "accepts exactly the %d kinds NIP-01 assigns to this class" % len(want))
        else:
            diff = sorted(vals ^ want)
            s.add("S-TABLE", fn, "kind-class", name, fn.sp, VIOLATION,
                  "accepts a different kind set than NIP-01: symmetric difference e.g. %s (%d kinds)" % (diff[:4], len(diff)))
    names = sorted(got)
    for i in range(len(names)):
        for j in range(i + 1, len(names)):
            inter = got[names[i]] & got[names[j]]
            s.add("S-TABLE", ctx.fn("pocket_types::Kind::" + names[i]), "classes-disjoint", "%s/%s" % (names[i], names[j]),
                  ctx.fn("pocket_types::Kind::" + names[i]).sp, PROVED if not inter else VIOLATION,
                  "disjoint" if not inter else "overlap on kinds %s" % sorted(inter)[:4])


def all_tags_examined(ctx, s):
    """the deletion handler returns Ok only after its walk over the request's tags ended"""
    fn = ctx.fn(HANDLER)
    an = ctx.E.an(fn)
    ends = []
    for node in an.edge_cond:
        for f in s.edge_facts(fn, node):
            if f[0] == "variant" and f[2] == 0 and f[1][0] == "call" and f[1][1].endswith("::next") and "TagsIter" in f[1][1] or \
                    (f[0] == "variant" and f[2] == 0 and f[1][0] == "call" and f[1][1].endswith("::next") and
                     "tags" in f[1][1] and "{impl#2}" in f[1][1]):
                ends.append(node)
    # identify the outer iterator by type: the next() whose payload is itself an iterator (TagsStringIter)
    if not ends:
        for b, info in an.calls():
            if (info["base"] or "").endswith("Iterator::next") and "TagsIter" in " ".join(info["aty"]) and "TagsStringIter" not in " ".join(info["aty"]):
                V = info["value"]
                for node in an.edge_cond:
                    for f in s.edge_facts(fn, node):
                        if f[0] == "variant" and f[2] == 0 and f[1] == V:
                            ends.append(node)
    oks = [n for n, k, v in s.return_kinds(fn) if k == "ok"]
    # a request found to carry no tags at all (is_empty / count / len of its tags tested) has no walk to finish
    empties = s.edges_where(fn, lambda f: (f[0] == "true" and isinstance(f[1], tuple) and f[1][0] == "call" and
                                           f[1][1].rsplit("::", 1)[-1] == "is_empty" and
                                           contains_value(f[1], lambda y: y[0] == "call" and y[1].endswith("::tags"))) or
                                (f[0] == "eqc" and f[2] == 0 and isinstance(f[1], tuple) and
                                 contains_value(f[1], lambda y: y[0] == "call" and y[1].rsplit("::", 1)[-1] in ("count", "len")) and
                                 contains_value(f[1], lambda y: y[0] == "call" and y[1].endswith("::tags"))))
    reach = s.reach(fn, [an.cfg.entry], avoid=ends + empties)
    ok = bool(ends) and bool(oks) and not any(n in reach for n in oks)
    s.add("S-MUSTPASS", fn, "ok-only-after-all-tags", "handle_deletion_event", fn.sp, PROVED if ok else VIOLATION,
          "Ok is returned only after the walk over all tags of the request ended" if ok else
          "the handler can return Ok before every tag of an accepted request was processed (later targets stay undeleted)")


def removal_scan_window(ctx, s):
    """S-REL: the two removal helpers scan their address from the beginning of time up to and including the `until` they are
    given - the deletion handler passes the request's created_at and records the marker at the same (inclusive) time, the
    replacement path passes the newcomer's created_at.  A helper that shifts the bound (until - 1, until + 1) leaves an
    event written in that very second marked deleted but retrievable (or keeps / drops the holder on a tie)."""
    for name in ("pocket_db::Store::remove_replaceable", "pocket_db::Store::remove_parameterized_replaceable"):
        fn = ctx.fn(name)
        an = ctx.E.an(fn)
        ctx.functions.add(fn.path)
        up = None
        for i in range(1, fn.argc + 1):
            if fn.local_name(i) == "until":
                up = ("param", i)
        its = [(b, i) for b, i in an.calls() if s.nice(i["callee"] or "").startswith("pocket_db::Lmdb::") and
               s.nice(i["callee"]).endswith("_iter")]
        short = name.rsplit("::", 1)[-1]
        if up is None or not its:
            s.add("S-REL", fn, "removal-scan-window", short, fn.sp, UNDECIDED,
                  "the helper's `until` parameter or its index scan was not found: not decided")
            continue
        for b, info in its:
            direct = any(a == up for a in info["args"])
            derived = [a for a in info["args"] if a != up and contains_value(a, lambda y: y == up)]
            from_min = any(contains_value(a, lambda y: y[0] == "call" and y[1].rsplit("::", 1)[-1] == "min" and "time" in y[1]) for a in info["args"])
            verdict = PROVED if (direct and from_min) else (VIOLATION if (derived or not from_min) else UNDECIDED)
            s.add("S-REL", fn, "removal-scan-window", short, info["sp"], verdict,
                  "the scan runs from Time::min() up to the `until` it was given, unchanged" if verdict == PROVED else
                  ("the scan does not run from Time::min() to the helper's `until` as given (a shifted or recomputed bound): an event "
                   "at the boundary second is treated differently from how the caller - which records markers and compares "
                   "created_at inclusively - assumes" if verdict == VIOLATION else
                   "how the scan's upper bound derives from `until` was not recognised: not decided"), b)


def lookup_skips_only_other_addresses(ctx, s):
    """S-MUSTPASS: the two address lookups answer "what is stored at this address".  store_event relies on them for "is
    anything left at the address => Replaced", so a stored event may be passed over only because it is not at the address
    (its kind or d value differs from the one asked for).  Any other reason to move on to the next index entry - expired,
    redacted, too old - hides a holder from the replacement logic while it stays indexed."""
    for name in ("pocket_db::Store::find_replaceable_event_inner", "pocket_db::Store::find_parameterized_replaceable_event_inner"):
        fn = ctx.fn(name)
        an = ctx.E.an(fn)
        cfg = an.cfg
        ctx.functions.add(fn.path)
        loops = cfg.natural_loops()
        short = name.rsplit("::", 1)[-1]
        fetch = [(b, i) for b, i in an.calls() if (i["callee"] or "").endswith("::get_event_by_offset")]
        if not loops:
            s.add("S-MUSTPASS", fn, "lookup-skips-only-other-addresses", short, fn.sp, PROVED,
                  "the lookup takes the first index entry and does not move on")
            continue
        is_param = lambda y: y[0] == "param" and y[1] >= 2
        is_ev = lambda y: y[0] == "call" and (y[1].startswith("pocket_types::event::") or y[1].startswith("pocket_types::tags::"))

        def other_address(f):
            t = f[1] if len(f) > 1 else None
            if not (isinstance(t, tuple) and t):
                return False
            cmpname = t[1].rsplit("::", 1)[-1] if t[0] == "call" else ""
            neg = (f[0] in ("ne", "nec")) or (f[0] == "false" and cmpname != "ne") or (f[0] == "true" and cmpname == "ne")
            vals = [t] + [x for x in f[2:] if isinstance(x, tuple)]
            return neg and any(contains_value(v, is_ev) for v in vals) and any(contains_value(v, is_param) for v in vals)
        good = [n for n in range(cfg.nblocks, cfg.nblocks + len(cfg.edges)) if any(other_address(f) for f in s.edge_new_facts(fn, n))]
        bad = None
        unclear = False

        def foreign(f):
            """a condition on the fetched event that has nothing to do with the address asked for"""
            t = f[1] if len(f) > 1 else None
            if not (isinstance(t, tuple) and t) or f[0] == "le":
                return False
            vals = [t] + [x for x in f[2:] if isinstance(x, tuple)]
            if f[0] in ("variant", "notvariant") and t[0] == "try":
                return False            # an error propagated with `?`
            if not any(contains_value(v, is_ev) for v in vals) or any(contains_value(v, is_param) for v in vals):
                return False
            # the event's kind and its d tag are the address's own parts: a condition on them (no d tag at all, ...) is
            # not foreign to the address
            addr_part = lambda y: y[0] == "call" and (y[1].endswith("::kind") or (
                y[1].rsplit("::", 1)[-1] in ("get_value", "get_string") and
                contains_value(y, lambda z: z[0] == "bytes" and z[1] in (b"d", b"d\x00"))))
            others = [v for v in vals if contains_value(v, lambda y: is_ev(y) and not addr_part(y) and
                                                        y[1].rsplit("::", 1)[-1] not in ("tags", "iter", "next", "deref", "as_slice"))]
            plain_addr = any(contains_value(v, addr_part) for v in vals) and not \
                any(contains_value(v, lambda y: y[0] == "call" and y[1].rsplit("::", 1)[-1] in ("get_value", "get_string") and not addr_part(y)) for v in vals)
            return not plain_addr
        for b, info in fetch:
            inner = [H for H, body in loops.items() if b in body]
            if not inner:
                continue
            H = min(inner, key=lambda h: len(loops[h]))
            starts = s.ok_edges_of_call(fn, b) or [b]
            reach = s.reach(fn, starts, avoid=good)
            if H in reach:
                # a way back to the loop head on which no comparison with the address was recognised: a violation when it
                # runs over a condition on the event that is foreign to the address, otherwise not decided (the comparison
                # may have been made in a helper and carried here in its result)
                fe = [n for n in reach if n >= cfg.nblocks and any(foreign(f) for f in s.edge_new_facts(fn, n))]
                if any(H in s.reach(fn, [n], avoid=good) for n in fe):
                    bad = (b, info)
                else:
                    unclear = True
        verdict = VIOLATION if bad is not None else (UNDECIDED if unclear else PROVED)
        s.add("S-MUSTPASS", fn, "lookup-skips-only-other-addresses", short, fn.sp, verdict,
              "an index entry is passed over only when the event fetched for it is not at the address asked for" if verdict == PROVED else
              "an index entry can be passed over on a path where no comparison with the address asked for was recognised: not decided" if verdict == UNDECIDED else
              "the lookup can pass over a stored event for a reason other than its address (kind / d value) being different: a "
              "holder it skips is invisible to the replacement check in store_event but stays indexed, so an older version is "
              "accepted next to it", bad[0] if bad else 0)
