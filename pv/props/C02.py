"""C02 - event binary <-> JSON round trip is lossless and the binary form is canonical."""
import re
from ..srules import S, find_values, contains_value
from ..guard import PROVED, VIOLATION, UNDECIDED
from . import layout, parsers, escaping

EXPLANATION = (
    "Decides canonicity conditions visible in the code shape: every byte of the fixed header (Event 0..144, Filter "
    "0..32, Tags 0..4), padding included, is written by every constructor on every success path - either by a write "
    "that every path to Ok passes, or by a write dominating every site that sets a flag the success test requires; "
    "the accessors read exactly the field ranges the constructors write; equality and hashing of Event, Tags and "
    "Filter are the derived byte-wise ones over a single [u8] field; the JSON writer emits exactly the seven member "
    "names the parser dispatches on and passes content and tag strings through json_escape. Round-trip equality and "
    "the variable-length region (written through moving cursors) are not decided.")
EXPLANATION += " Also decided: json_unescape writes only table constants, verbatim input bytes or encode_utf8 output."
EXPLANATION += ' Also decided: the surrogate test dominates encode_utf8; input copied by the escaper in bulk is judged by evaluating the guarding scan for all 256 byte values; header bytes count as written through the member flags only at returns behind the completeness test.'
ASSUMPTIONS = []


def run(ctx):
    s = S(ctx)
    header_coverage(ctx, s)
    rest(ctx, s)


def header_coverage(ctx, s):
    """every byte of the fixed headers is written on every success path of every constructor; accessors read the ranges the
    constructors write (shared with C19: a header byte left as the caller's buffer had it is a malformed value)"""
    # ---------------------------------------------------------------- Event
    fp = ctx.fn("pocket_types::Event::from_parts")
    pj = ctx.fn(parsers.EVENT_PARSER)
    out_fp = None
    for i in range(1, fp.argc + 1):
        if fp.locals[i]["ty"]["s"] == "&mut [u8]":
            out_fp = ("param", i)
    w_fp = layout.const_writes(ctx, s, fp, out_fp)
    miss, n = layout.covered(ctx, s, fp, w_fp, 144)
    report(ctx, s, fp, "event-header", 144, miss, n)
    w_pj = layout.const_writes(ctx, s, pj, ("param", 2))
    k, init, sets, other = parsers.flag_sets(ctx, s, pj, "complete")
    req = {}
    for b, i, cs, facts in sets:
        for c in cs:
            req.setdefault(c, []).append(b)
    miss, n = layout.covered(ctx, s, pj, w_pj, 144, req, k)
    report(ctx, s, pj, "event-header", 144, miss, n)
    # field maps agree
    fields = {"kind": (4, 6), "created_at": (8, 16), "id": (16, 48), "pubkey": (48, 80), "sig": (80, 144)}
    wr = {(lo, hi) for lo, hi, n_ in w_fp}
    wj = {(lo, hi) for lo, hi, n_ in w_pj}
    for name, rng in fields.items():
        rf = ctx.fn("pocket_types::Event::" + name)
        rr = layout.reader_ranges(ctx, s, rf)
        # the field's range is read, and no other fixed range read by the accessor cuts across it
        cuts = [r for r in rr if r != rng and r[0] < rng[1] and rng[0] < r[1] and not (r[0] <= rng[0] and rng[1] <= r[1])]
        ok = rng in rr and not cuts and rng in wr and rng in wj
        s.add("S-LAYOUT", rf, "field-range", name, rf.sp, PROVED if ok else VIOLATION,
              "read from %s, written at the same range by from_parts and by the JSON parser" % (rng,) if ok else
              "accessor reads %s; from_parts writes %s; parser writes %s" % (sorted(rr), rng in wr, rng in wj))
    dl = ctx.fn("pocket_types::Event::delineate")
    okl = (0, 4) in layout.reader_ranges(ctx, s, dl) and (0, 4) in wr and any(lo == 0 and hi == 4 for lo, hi in wj)
    s.add("S-LAYOUT", dl, "field-range", "length", dl.sp, PROVED if okl else VIOLATION,
          "the length field is bytes 0..4 for reader and writers" if okl else "length field ranges disagree")
    # ---------------------------------------------------------------- Filter
    ffp = ctx.fn("pocket_types::Filter::from_parts")
    out_f = None
    for i in range(1, ffp.argc + 1):
        if ffp.locals[i]["ty"]["s"] == "&mut [u8]":
            out_f = ("param", i)
    w = layout.const_writes(ctx, s, ffp, out_f)
    miss, n = layout.covered(ctx, s, ffp, w, 32)
    report(ctx, s, ffp, "filter-header", 32, miss, n)
    fpj = ctx.fn(parsers.FILTER_PARSER)
    w = layout.const_writes(ctx, s, fpj, ("param", 2))
    miss, n = layout.covered(ctx, s, fpj, w, 32)
    report(ctx, s, fpj, "filter-header", 32, miss, n)
    # ---------------------------------------------------------------- Tags
    tfp = ctx.fn("pocket_types::Tags::from_parts")
    out_t = None
    for i in range(1, tfp.argc + 1):
        if tfp.locals[i]["ty"]["s"] == "&mut [u8]":
            out_t = ("param", i)
    w = layout.const_writes(ctx, s, tfp, out_t)
    miss, n = layout.covered(ctx, s, tfp, w, 4)
    report(ctx, s, tfp, "tags-header", 4, miss, n)
    rta = ctx.fn(parsers.JP + "read_tags_array")
    w = layout.const_writes(ctx, s, rta, ("param", 3))
    miss, n = layout.covered(ctx, s, rta, w, 4)
    report(ctx, s, rta, "tags-header", 4, miss, n)
    layout.reserved_slot_written(ctx, s, parsers.JP + "read_tag", 4, 3)
    ctx.functions.update({fp.path, pj.path, ffp.path, fpj.path, tfp.path, rta.path})


def rest(ctx, s):
    # ---------------------------------------------------------------- derived byte-wise equality
    for ty in ("Event", "Tags", "Filter"):
        need = {"PartialEq", "Eq", "Hash"}
        got = set()
        for imp in ctx.F.impls:
            t = imp["self"]["t"]
            if t["k"] == "adt" and t["path"].endswith("::" + ty) and t["path"].startswith("pocket_types::") and imp.get("derived"):
                got.add(imp.get("trait", "").split("::")[-1])
        adt = None
        for p, a in ctx.F.adts.items():
            if p.startswith("pocket_types::") and p.endswith("::" + ty):
                adt = a
        single = adt is not None and len(adt["variants"][0]["fields"]) == 1 and adt["variants"][0]["fields"][0]["ty"]["s"] == "[u8]"
        ok = need <= got and single
        anchor = ctx.fn("pocket_types::%s::as_bytes" % ty)
        s.add("S-COVER", anchor, "bytewise-eq-hash", ty, anchor.sp, PROVED if ok else VIOLATION,
              "PartialEq, Eq and Hash are derived over the single [u8] field" if ok else
              "%s equality/hash is not the derived byte-wise one (derived: %s, single [u8] field: %s)" % (ty, sorted(got), single))
    # ---------------------------------------------------------------- writer names and escaping
    aj = ctx.fn("pocket_types::Event::as_json")
    an = ctx.E.an(aj)
    names = set()
    for b, info in an.calls():
        c = info["callee"] or ""
        # literal text reaches the output through extend()/push or through a format template (write!/format!)
        if c.endswith("::extend") or c.endswith("::extend_from_slice") or c == "core::fmt::{impl#4}::new" or c.endswith("Arguments::new"):
            for a in info["args"]:
                for bs in find_values(a, lambda x: x[0] == "bytes"):
                    for m in re.findall(rb'"([a-z_]+)":', bs[1]):
                        names.add(m + b'"')
    okn = names == parsers.EVENT_NAMES
    s.add("S-COVER", aj, "writer-member-names", "as_json", aj.sp, PROVED if okn else VIOLATION,
          "the writer emits exactly the seven member names the parser dispatches on" if okn else
          "writer names %s differ from the parser's" % sorted(n_.decode() for n_ in names))
    escaping.unescape_writes(ctx, s)
    escaping.surrogates_refused(ctx, s)
    escaping.raw_input_copies(ctx, s, [parsers.EVENT_PARSER, parsers.FILTER_PARSER, parsers.JP + "read_content", parsers.JP + "read_tags_array"])
    escaping.utf8_width_table(ctx, s)
    escaping.escape_table(ctx, s)
    escaping.writer_escapes(ctx, s, "pocket_types::Event::as_json")
    escaping.writer_escapes(ctx, s, "pocket_types::Tags::as_json")
    ctx.functions.add(aj.path)


def report(ctx, s, fn, what, header, missing, n_ok):
    ctx.paths += n_ok
    if n_ok == 0:
        s.add("S-LAYOUT", fn, what, "0..%d" % header, fn.sp, UNDECIDED, "no Ok return found")
    elif missing:
        s.add("S-LAYOUT", fn, what, "0..%d" % header, fn.sp, VIOLATION,
              "header bytes %s are not written on every success path: they keep whatever the caller's buffer held, "
              "and equality/hash are byte-wise" % ", ".join("%d..%d" % m for m in missing))
    else:
        s.add("S-LAYOUT", fn, what, "0..%d" % header, fn.sp, PROVED,
              "every header byte is written on every success path (%d success return(s))" % n_ok)
