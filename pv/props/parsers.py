"""Rules about the two hand-written member dispatchers (event and filter JSON parsers):
flag completeness / duplicate detection (S-COVER a, S-ONEHOT), value-skipper FIRST set (S-COVER b),
member-name sets (S-COVER c), cursor type-state at the fall-through arm (S-QUOTE)."""
from ..srules import S, find_values, contains_value, unbyref
from ..guard import PROVED, VIOLATION, UNDECIDED
from ..sym import walk

JP = "pocket_types::json::json_parse::"
EVENT_PARSER = "pocket_types::event::parse_json_event"
FILTER_PARSER = "pocket_types::filter::parse_json_filter"
EVENT_NAMES = {b'id"', b'pubkey"', b'created_at"', b'kind"', b'tags"', b'content"', b'sig"'}
FILTER_NAMES = {b'ids"', b'authors"', b'kinds"', b'since"', b'until"', b'limit"'}
JSON_FIRST = set(b'"[{tfn-0123456789')


def const_bytes(an, v):
    """byte-string constants inside v, looking through promoted `&CONST` references"""
    out = [x[1] for x in find_values(v, lambda x: x[0] == "bytes")]
    for p in find_values(v, lambda x: x[0] == "promoted"):
        pv = an.promoted_pointee(p)
        if pv is not None:
            out += [x[1] for x in find_values(pv, lambda x: x[0] == "bytes")]
    return out


def or_constants(v, phi_local):
    """constants OR-ed onto the flags variable in value v ( ((phi | a) | b) ... ) or None"""
    cs = []
    x = v
    while x[0] == "bin" and x[1] == "BitOr":
        a, b = x[2], x[3]
        if b[0] == "const":
            cs.append(b[1])
            x = a
        elif a[0] == "const":
            cs.append(a[1])
            x = b
        else:
            return None
    L = phi_local if isinstance(phi_local, tuple) else ("local", phi_local)
    if (x[0] == "phi" and x[2] == L) or x == ("init", L):
        return cs
    return None


def flag_sets(ctx, s, fn, var):
    """(flags location, initial value, [(block, stmt, [consts], facts)] for every `flags |= const`, other assignments).
    The flags live in the local named `var` of the function itself, or - when the parser state was moved into a struct
    or renamed - in the location that is OR-ed with constant one-bit masks most often."""
    an = ctx.E.an(fn)
    loc = [i for i, l in enumerate(fn.locals) if l.get("n") == var and "inl" not in l]
    from ..main import AnalysisError
    if len(loc) == 1:
        K = ("local", loc[0])
    else:
        cnt = {}
        for (b, i), L in an.stmt_loc.items():
            v = an.stmt_val[(b, i)]
            if L[0] in ("local", "field") and v[0] == "bin" and v[1] == "BitOr" and or_constants(v, L) is not None:
                cnt[L] = cnt.get(L, 0) + 1
        if not cnt:
            raise AnalysisError("no member-flags variable (a location OR-ed with constant masks) found in %s" % fn.nice)
        K = max(sorted(cnt, key=repr), key=lambda L: cnt[L])
    sets = []
    init = None
    other = []
    for (b, i), L in sorted(an.stmt_loc.items(), key=lambda kv: (kv[0][0], str(kv[0][1]))):
        if L != K:
            continue
        v = an.stmt_val[(b, i)]
        if v[0] == "const":
            init = v[1]
            continue
        cs = or_constants(v, K)
        if cs is None:
            # `flags |= done` where `done` was chosen per arm from constants: one set per arm, under that arm's facts
            exp = _or_of_joined_constants(an, v, K)
            if exp is None:
                other.append((b, i, v))
            else:
                for enode, c in exp:
                    if c == 0:
                        continue
                    bits = [1 << j for j in range(c.bit_length()) if c >> j & 1]
                    eb = an.cfg.edges[enode - an.cfg.nblocks].src
                    sets.append((eb, None, bits, ctx.E.facts(fn, enode)))
        else:
            sets.append((b, i, cs, ctx.E.facts(fn, b)))
    if init is None and K[0] == "field":
        # the initial value is a field of the aggregate the state struct was built from
        for v in an.stmt_val.values():
            if v is not None and v[0] == "agg" and K[2] < len(v[2]) and v[2][K[2]][0] == "const" and \
                    an.stmt_loc.get(next(k_ for k_, vv in an.stmt_val.items() if vv is v)) == K[1]:
                init = v[2][K[2]][1]
    return K, init, sets, other


def _or_of_joined_constants(an, v, K):
    """for v = flags | x with x a join of constants (possibly through nested joins): [(edge node, constant)], else None"""
    if not (v[0] == "bin" and v[1] == "BitOr"):
        return None
    a, b = v[2], v[3]
    isk = lambda x: (x[0] == "phi" and x[2] == K) or x == ("init", K)
    x = b if isk(a) else (a if isk(b) else None)
    if x is None or x[0] != "phi":
        return None
    out = []

    def rec(p, depth):
        if depth > 12:
            return False
        for e in an.cfg.in_edges[p[1]]:
            st = an.out_state.get(e.src)
            if st is None:
                continue
            w = an.read(st, p[2])
            if w[0] == "const":
                out.append((e.node, w[1]))
            elif w[0] == "phi" and w != p:
                if not rec(w, depth + 1):
                    return False
            elif w[0] == "bin" and w[1] == "BitOr" and w[2][0] == "const" and w[3][0] == "const":
                out.append((e.node, w[2][1] | w[3][1]))
            else:
                return False
        return True
    return out if rec(x, 0) and out else None


def dup_tested(facts, k, c):
    """a dominating fact  (flags & c) != c  or  (flags & c) == 0  (the duplicate test came out 'not yet seen')"""
    for f in facts:
        if f[0] in ("eqc", "eq"):
            v = f[1]
            other = f[2]
            oc = other[1] if isinstance(other, tuple) and other[0] == "const" else other
            if v[0] == "bin" and v[1] == "BitAnd" and oc == 0:
                a, b = v[2], v[3]
                m = b if b[0] == "const" else a
                fl = a if b[0] == "const" else b
                if m[0] == "const" and m[1] == c and fl[0] == "phi" and fl[2] == (k if isinstance(k, tuple) else ("local", k)):
                    return True
        if f[0] in ("nec", "ne"):
            v = f[1]
            other = f[2]
            oc = other[1] if isinstance(other, tuple) and other[0] == "const" else other
            if v[0] == "bin" and v[1] == "BitAnd" and oc == c:
                a, b = v[2], v[3]
                m = b if b[0] == "const" else a
                fl = a if b[0] == "const" else b
                if m[0] == "const" and m[1] == c and fl[0] == "phi" and fl[2] == (k if isinstance(k, tuple) else ("local", k)):
                    return True
    return False


def member_flags(ctx, s, parser, var, names_expected, final_mask_check=True):
    """S-COVER(a) + S-ONEHOT + S-COVER(c) on a member dispatcher"""
    fn = ctx.fn(parser)
    an = ctx.E.an(fn)
    ctx.functions.add(fn.path)
    k, init, sets, other = flag_sets(ctx, s, fn, var)
    short = parser.split("::")[-1]
    consts = []
    for b, i, cs, facts in sets:
        consts += cs
    distinct = sorted(set(consts))
    ctx.floor("S-COVER.%s.flag-sets" % short, len(sets), len(names_expected) if names_expected else 1)
    # one-hot, distinct
    onehot = all(c > 0 and (c & (c - 1)) == 0 for c in distinct)
    s.add("S-ONEHOT", fn, "flags-one-bit-each", var, fn.sp, PROVED if (onehot and init == 0 and not other) else VIOLATION,
          "%s starts at 0 and is only ever OR-ed with the %d distinct one-bit constants %s" % (var, len(distinct), distinct)
          if (onehot and init == 0 and not other) else
          "%s is not a set of one-bit flags (constants %s, initial %s, %d other assignments): presence of one member can be "
          "mistaken for another" % (var, distinct, init, len(other)))
    # each member name has its own flag; each flag is dup-tested where it is set for its own arm
    name_of = {}
    for b, i, cs, facts in sets:
        nm = None
        for f in facts:
            if f[0] == "true" and f[1][0] == "call" and f[1][1].endswith("starts_with"):
                bs = const_bytes(an, f[1])
                if bs:
                    nm = bs[0]
            # filter parser: &input[a..b] == b"ids\""  (slice equality)
            if f[0] == "true" and f[1][0] == "call" and f[1][1].rsplit("::", 1)[-1] == "eq":
                bs = const_bytes(an, f[1])
                if bs and nm is None:
                    nm = bs[0]
        tested = [c for c in cs if dup_tested(facts, k, c)]
        sp = fn.blocks[b]["stmts"][i]["sp"] if i is not None else fn.blocks[b]["term"]["sp"]
        desc = (nm or b"?").decode("latin1").rstrip('"')
        if nm is not None:
            for c in tested or cs[-1:]:
                name_of.setdefault(nm, set()).add(c)
        ok = bool(tested)
        # a duplicate test against a flag that was looked up or computed (not a literal mask) cannot be matched to this
        # arm's bit syntactically: not decided, rather than "missing"
        computed = False
        for f in facts:
            v = f[1]
            if isinstance(v, tuple) and v and v[0] == "bin" and v[1] == "BitAnd":
                a_, b_ = v[2], v[3]
                fl, m = (a_, b_) if (a_[0] == "phi" and a_[2] == (k if isinstance(k, tuple) else ("local", k))) else ((b_, a_) if (b_[0] == "phi" and b_[2] == (k if isinstance(k, tuple) else ("local", k))) else (None, None))
                if fl is not None and m[0] != "const":
                    computed = True
        verdict = PROVED if ok else (UNDECIDED if computed else VIOLATION)
        s.add("S-COVER", fn, "duplicate-test", "%s:%s" % (desc, "|".join(map(str, sorted(cs)))), sp, verdict,
              "the flag is set only after (flags & bit) != bit held for this arm's own bit" if ok else
              ("the duplicate test uses a flag value that is looked up or computed from the member: that it is this arm's bit is not decided"
               if computed else
               "a member flag is set without its duplicate test: a repeated member silently overwrites the earlier one"), b)
    if names_expected is not None:
        got = set(name_of)
        okn = got == names_expected
        # names that are dispatched on but are not NIP-01 members are wrong; names that could not be tied to a flag site
        # (table-driven or pattern-matched classification) leave the clause undecided
        extra = got - names_expected
        verdict = PROVED if okn else (VIOLATION if extra else UNDECIDED)
        s.add("S-COVER", fn, "member-names", short, fn.sp, verdict,
              "dispatches on exactly %s" % sorted(n.decode().rstrip('"') for n in names_expected) if okn else
              ("member names handled: %s; expected %s" % (sorted(n.decode("latin1") for n in got), sorted(n.decode() for n in names_expected))
               if extra else
               "only %s could be tied to a flag site (the classification of member names is not a chain of literal comparisons): not decided"
               % sorted(n.decode("latin1") for n in got)))
        # distinct flags for distinct names
        fl = [tuple(sorted(v)) for v in name_of.values()]
        okd = len(set(fl)) == len(fl)
        s.add("S-COVER", fn, "flag-per-member", short, fn.sp, PROVED if okd else VIOLATION,
              "each member name has its own flag bit" if okd else "two member names share a flag bit")
    # the completeness mask equals the union of the flags
    if final_mask_check:
        mask = 0
        for c in distinct:
            mask |= c
        oks = [n for n, kk, v in s.return_kinds(fn) if kk == "ok"]
        okm = bool(oks)
        for n in oks:
            fs = ctx.E.facts(fn, n)
            if not any(f[0] == "eqc" and f[2] == mask and contains_value(f[1], lambda x: x[0] == "phi" and x[2] == (k if isinstance(k, tuple) else ("local", k))) for f in fs):
                okm = False
        s.add("S-COVER", fn, "completeness-mask", "0x%x" % mask, fn.sp, PROVED if okm else VIOLATION,
              "success requires %s == 0x%x, the union of all member flags" % (var, mask) if okm else
              "the success test does not require exactly the union 0x%x of the member flags: a member can be missing (or an event never accepted)" % mask)
    return k, sets, name_of


def reader_before_flag(ctx, s, parser, var, table):
    """each flag is set only after the arm's reader succeeded (name -> reader function)"""
    fn = ctx.fn(parser)
    an = ctx.E.an(fn)
    k, init, sets, other = flag_sets(ctx, s, fn, var)
    for b, i, cs, facts in sets:
        nm = None
        for f in facts:
            if f[0] == "true" and f[1][0] == "call" and (f[1][1].endswith("starts_with") or f[1][1].rsplit("::", 1)[-1] == "eq"):
                bs = const_bytes(an, f[1])
                if bs and nm is None:
                    nm = bs[0]
        if nm is None or nm not in table:
            continue
        readers = table[nm]
        good = []
        for rb, rinfo in s.calls(fn, names=set(readers)):
            good += s.ok_edges_of_call(fn, rb)
        # restrict to reader calls inside this arm: dominated by the same starts_with edge
        ok = bool(good) and any(an.cfg.dominates(g, b) for g in good)
        verdict = PROVED if ok else VIOLATION
        if not ok and good:
            # an arm that reaches the flag both through the reader and past it (a shortcut for a literal value written
            # directly): a violation only if the path past the reader writes nothing into the output
            R = s.reach(fn, [an.cfg.entry], avoid=good)
            if b not in R:
                verdict = PROVED
            else:
                outp = None
                for pi in range(1, fn.argc + 1):
                    if fn.local_name(pi) == "output":
                        outp = ("param", pi)
                arm = None
                for d in an.cfg.dominators(b):
                    if d >= an.cfg.nblocks and any(f[0] == "true" and isinstance(f[1], tuple) and f[1][0] == "call" and
                                                    const_bytes(an, f[1]) and const_bytes(an, f[1])[0] == nm
                                                    for f in s.edge_new_facts(fn, d)):
                        arm = d
                writes = False
                for wb, winfo in an.calls():
                    if wb not in R or arm is None or not an.cfg.dominates(arm, wb):
                        continue
                    last = (winfo["base"] or winfo["callee"] or "").rsplit("::", 1)[-1]
                    if last in ("copy_from_slice", "clone_from_slice", "put", "fill") and outp is not None and \
                            contains_value(winfo["args"][0], lambda y: y == outp):
                        writes = True
                if writes:
                    verdict = UNDECIDED
        sp = fn.blocks[b]["stmts"][i]["sp"] if i is not None else fn.blocks[b]["term"]["sp"]
        s.add("S-DOM", fn, "reader-before-flag", nm.decode().rstrip('"'), sp, verdict,
              "the member counts as seen only after %s succeeded" % "/".join(r.split("::")[-1] for r in readers) if verdict == PROVED else
              ("the %s flag can be set without its value having been read" % nm.decode().rstrip('"') if verdict == VIOLATION else
               "the %s flag is also set on a path that writes the value directly instead of calling its reader: not decided"
               % nm.decode().rstrip('"')), b)


def first_action_is_quote(ctx, s, h):
    """does helper h, on every path, touch the cursor first through verify_char(input, '"', cursor)?"""
    an = ctx.E.an(h)
    cfg = an.cfg
    cur = None
    for i in range(1, h.argc + 1):
        if h.locals[i]["ty"]["s"] == "&mut usize":
            cur = ("param", i)
    if cur is None:
        return False
    quote_calls = []
    touch = []
    for b, info in an.calls():
        if any(a == cur for a in info["args"]):
            touch.append(b)
            if s.nice(info["callee"] or "") == JP + "verify_char" and info["args"][1] == ("const", 34, "u8"):
                quote_calls.append(b)
    # statements writing through the cursor
    wr = [b for (b, i), L in an.stmt_loc.items() if L == ("deref", cur)]
    if not quote_calls:
        return False
    first = [b for b in touch + wr if not any(cfg.dominates(o, b) and o != b for o in touch + wr)]
    return bool(first) and all(b in quote_calls for b in first)


def quote_state(ctx, s, parser):
    """S-QUOTE: after the opening quote of a member name has been consumed, a helper that itself
    starts by consuming an opening quote must not be called on the same cursor"""
    fn = ctx.fn(parser)
    an = ctx.E.an(fn)
    n = 0
    bad = 0
    for b, info in an.calls():
        callee = info["callee"] or ""
        h = ctx.F.fns.get(callee)
        if h is None or not callee.startswith("pocket_types::json::json_parse::"):
            continue
        # cursor argument and its value before the call
        for ai, (a, aty) in enumerate(zip(info["args"], info["aty"])):
            if aty != "&mut usize":
                continue
            pre = info["pre"][ai]
            if pre is None or pre[0] != "clob":
                continue
            site = pre[1]
            if site[0] != fn.path:
                continue
            prev = an.term.get(site[1])
            if prev is None or prev["kind"] != "call":
                continue
            if s.nice(prev["callee"] or "") == JP + "verify_char" and prev["args"][1] == ("const", 34, "u8"):
                n += 1
                again = s.nice(callee) == JP + "verify_char" and info["args"][1] == ("const", 34, "u8")
                if again or first_action_is_quote(ctx, s, h):
                    bad += 1
                    s.add("S-QUOTE", fn, "quote-consumed-twice", s.nice(callee).split("::")[-1], info["sp"], VIOLATION,
                          "the opening quote was already consumed, but %s starts by consuming an opening quote itself: "
                          "the member can never be parsed" % s.nice(callee).split("::")[-1], b)
    ctx.instances["S-QUOTE.%s.calls-after-open-quote" % parser.split("::")[-1]] = n
    if not bad:
        s.add("S-QUOTE", fn, "quote-state", parser.split("::")[-1], fn.sp, PROVED,
              "%d helper call(s) directly after an opening quote: none expects another opening quote" % n)
    # the fall-through arm skips name, colon and value
    return n


def _is_input_byte(v):
    """v is the byte of the input at the cursor (by value, or a reference to it)"""
    while v[0] in ("cast",):
        v = v[-1]
    if v[0] in ("byref", "ref"):
        v = v[1]
    if v[0] == "elem" and v[1][0] == "param":
        return True
    if v[0] == "index" and v[1][0] == "deref" and v[1][1][0] == "param":
        return True
    return False


def eval_with_byte(v, c):
    """value of a branch condition when the input byte at the cursor is c: int/bool, or None when it depends on
    anything else"""
    if not isinstance(v, tuple) or not v:
        return None
    if _is_input_byte(v):
        return c
    t = v[0]
    if t == "const":
        return v[1]
    if t == "cast":
        return eval_with_byte(v[-1], c)
    if t == "not":
        x = eval_with_byte(v[1], c)
        return None if x is None else (not x)
    if t == "bin":
        x, y = eval_with_byte(v[2], c), eval_with_byte(v[3], c)
        if x is None or y is None:
            return None
        op = v[1]
        try:
            return {"Eq": x == y, "Ne": x != y, "Lt": x < y, "Le": x <= y, "Gt": x > y, "Ge": x >= y,
                    "BitAnd": int(x) & int(y), "BitOr": int(x) | int(y), "BitXor": int(x) ^ int(y),
                    "Add": int(x) + int(y), "Sub": int(x) - int(y)}.get(op)
        except Exception:
            return None
    if t == "call":
        name = v[1].rsplit("::", 1)[-1]
        args = v[2]
        if name == "contains" and len(args) == 2 and _is_input_byte(args[1]):
            bs = find_values(args[0], lambda x: x[0] == "bytes")
            if bs:
                return c in bs[0][1]
            rng = find_values(args[0], lambda x: (x[0] == "call" and "range" in x[1] and x[1].endswith("::new") and len(x[2]) == 2) or
                              (x[0] == "agg" and "Range" in str(x[1]) and len(x[2]) >= 2))
            if rng:
                lo, hi = eval_with_byte(rng[0][2][0], c), eval_with_byte(rng[0][2][1], c)
                if lo is not None and hi is not None:
                    incl = "RangeInclusive" in str(rng[0][1]) or "{impl#7}" in str(rng[0][1])
                    return lo <= c <= hi if incl else lo <= c < hi
            return None
        if len(args) == 1 and _is_input_byte(args[0]):
            table = {"is_ascii_digit": 48 <= c <= 57, "is_ascii_alphabetic": (65 <= c <= 90) or (97 <= c <= 122),
                     "is_ascii_uppercase": 65 <= c <= 90, "is_ascii_lowercase": 97 <= c <= 122,
                     "is_ascii_hexdigit": (48 <= c <= 57) or (65 <= c <= 70) or (97 <= c <= 102),
                     "is_ascii_whitespace": c in (9, 10, 12, 13, 32), "is_ascii_alphanumeric": (48 <= c <= 57) or (65 <= c <= 90) or (97 <= c <= 122)}
            if name in table:
                return table[name]
        if name in ("eq", "ne", "lt", "le", "gt", "ge") and len(args) == 2:
            x, y = eval_with_byte(args[0], c), eval_with_byte(args[1], c)
            if x is None or y is None:
                return None
            return {"eq": x == y, "ne": x != y, "lt": x < y, "le": x <= y, "gt": x > y, "ge": x >= y}[name]
    return None


def first_byte_dispatch(ctx, s, fn, c):
    """names of the crate's functions that can be the first one called when the input byte at the cursor is c
    (branches that depend on anything else are all followed)"""
    an = ctx.E.an(fn)
    cfg = an.cfg
    reached = set()
    seen = set()
    stack = [cfg.entry]
    while stack:
        x = stack.pop()
        if x in seen:
            continue
        seen.add(x)
        if x >= cfg.nblocks:
            stack.append(cfg.edges[x - cfg.nblocks].dst)
            continue
        info = an.term.get(x)
        if info is None:
            continue
        if info["kind"] == "call":
            callee = info["callee"] or ""
            if callee in ctx.F.fns:
                reached.add(s.nice(callee).rsplit("::", 1)[-1])
                continue
            if callee.rsplit("::", 1)[-1] in ("starts_with", "eq", "ne"):
                # a literal skipper written in place (or inlined): the comparison with the literal's text
                lits = [y[1] for a in info["args"] + [p for p in info["pre"] if p is not None]
                        for y in find_values(a, lambda y: y[0] == "bytes")]
                if lits:
                    reached.add("lit:" + lits[0].decode("latin1"))
                    continue
        if info["kind"] == "switch":
            val = eval_with_byte(info["discr"], c)
            if val is not None:
                val = int(val)
                took = False
                for e in cfg.out_edges[x]:
                    if e.label[0] == "switch" and e.label[1] == val:
                        stack.append(e.node)
                        took = True
                if not took:
                    for e in cfg.out_edges[x]:
                        if e.label[0] == "otherwise" and val not in e.label[1]:
                            stack.append(e.node)
                continue
        for e in cfg.out_edges[x]:
            stack.append(e.node)
    return reached


SKIPPER_OF = {ord('"'): "burn_string", ord("["): "burn_array", ord("{"): "burn_object", ord("t"): "burn_true",
              ord("f"): "burn_false", ord("n"): "burn_null", ord("-"): "burn_number"}
SKIPPER_OF.update({c: "burn_number" for c in b"0123456789"})


def skipper_first_set(ctx, s):
    """S-COVER(b): burn_value dispatches on exactly FIRST(JSON value), each first byte to the skipper of its kind.
    Decided by evaluating the dispatcher's branch conditions for each of the 256 byte values (whatever their syntactic
    form: match arms, range patterns, contains(), comparisons)."""
    cands = [f for f in ctx.F.fns.values() if f.path.startswith(JP + "burn_value")]
    from ..main import AnalysisError
    fn = None
    for f in cands:
        r = first_byte_dispatch(ctx, s, f, ord("["))
        if any(x.startswith("burn_") and x != "burn_value_at" for x in r) and (fn is None or len(f.blocks) > len(fn.blocks)):
            fn = f
    if fn is None:
        raise AnalysisError("value skipper dispatch not found")
    ctx.functions.add(fn.path)
    got = {}
    LITERAL = {ord("t"): "lit:true", ord("f"): "lit:false", ord("n"): "lit:null"}
    for c in range(256):
        r = {x for x in first_byte_dispatch(ctx, s, fn, c) if x.startswith("burn_") or x.startswith("lit:")}
        if r:
            got[c] = r
    best = set(got)
    wrong = sorted(chr(c) for c in best & JSON_FIRST
                   if not (len(got[c]) == 1 and (next(iter(got[c])).startswith(SKIPPER_OF[c]) or next(iter(got[c])) == LITERAL.get(c))))
    ok = best == JSON_FIRST and not wrong
    miss = sorted(chr(c) for c in JSON_FIRST - best)
    extra = sorted(chr(c) for c in best - JSON_FIRST)
    s.add("S-COVER", fn, "value-first-set", "burn_value", fn.sp, PROVED if ok else VIOLATION,
          "dispatches on exactly the 17 first bytes of a JSON value, each to the skipper of its kind" if ok else
          "the value skipper misses %s / accepts extra %s / sends %s to the wrong skipper: unknown members with such values are "
          "rejected/misparsed" % (miss, extra, wrong))


def fallthrough_skips_member(ctx, s, parser):
    """the unknown-member arm consumes name, colon and value: every value-feasible path to the burn_value call runs
    through a successful burn_string (rest of the name) and then a successful eat_colon_with_whitespace"""
    fn = ctx.fn(parser)
    an = ctx.E.an(fn)
    bv = [(b, i) for b, i in an.calls() if s.nice(i["callee"] or "") == JP + "burn_value"]
    bs_ok = [n for b, i in an.calls() if s.nice(i["callee"] or "") == JP + "burn_string" for n in s.ok_edges_of_call(fn, b)]
    co_ok = [n for b, i in an.calls() if s.nice(i["callee"] or "") == JP + "eat_colon_with_whitespace" for n in s.ok_edges_of_call(fn, b)]
    ok = False
    for b, info in bv:
        name_first = bool(bs_ok) and s.must_pass(fn, b, bs_ok)
        colon = bool(co_ok) and s.must_pass(fn, b, co_ok)
        # after the name, the value is reached only through the colon
        after = b not in s.reach(fn, bs_ok, avoid=co_ok) if bs_ok else False
        if name_first and colon and after:
            ok = True
    s.add("S-ORDER", fn, "unknown-member-skipped", parser.split("::")[-1], fn.sp, PROVED if ok else VIOLATION,
          "unknown members are skipped: rest of the name, colon, then the value" if ok else
          "no arm skips an unknown member (name, colon, value)")


def literal_skippers_advance(ctx, s):
    """S-REL: where a skipper has matched one of the JSON literals true / false / null at the cursor, it moves the cursor
    past exactly that literal: the advance equals the literal's length (a shorter advance leaves its tail in the input
    and every document containing that literal in a skipped position is rejected)"""
    from ..prove import lin_add
    n = 0
    for p_, fn in sorted(ctx.F.fns.items()):
        if not p_.startswith(JP) or fn.kind == "Closure":
            continue
        an = ctx.E.an(fn)
        P = ctx.E.prover(fn)
        cursors = [i for i in range(1, fn.argc + 1) if fn.locals[i]["ty"]["s"].replace(" ", "") == "&mutusize"]
        if not cursors:
            continue
        for node in an.edge_cond:
            for f in s.edge_new_facts(fn, node):
                if f[0] != "true" or f[1][0] != "call" or f[1][1].rsplit("::", 1)[-1] not in ("eq", "starts_with"):
                    continue
                lits = [l for l in const_bytes(an, f[1]) if l in (b"true", b"false", b"null")]
                if not lits:
                    continue
                L = lits[0]
                # cursor stores dominated by this edge
                for (b, i), loc in sorted(an.stmt_loc.items(), key=lambda kv: (kv[0][0], str(kv[0][1]))):
                    if loc[0] != "deref" or loc[1][0] != "param" or loc[1][1] not in cursors:
                        continue
                    if not an.cfg.dominates(node, b):
                        continue
                    v = an.stmt_val[(b, i)]
                    d = lin_add(P.lin(v), P.lin(("init", loc)), -1)
                    if d[1]:
                        continue
                    n += 1
                    ok = d[0] == len(L)
                    s.add("S-REL", fn, "literal-advance", L.decode(), fn.blocks[b]["stmts"][i]["sp"], PROVED if ok else VIOLATION,
                          "after matching `%s` the cursor moves %d bytes" % (L.decode(), len(L)) if ok else
                          "after matching `%s` (%d bytes) the cursor moves %d bytes: the rest of the literal is left in the input and "
                          "the document is then rejected" % (L.decode(), len(L), d[0]), b)
    ctx.instances["S-REL.literal-advances"] = n


def object_left_at_close_brace(ctx, s, parser):
    """S-MUSTPASS: the parser succeeds only after it has itself seen the object's closing brace - every path to Ok runs over
    an edge on which `}` was just recognised (next_object_field answered true, or a byte of the input compared equal to
    `}`).  A path that hands the rest of the object to a skipper instead never matches the remaining member names against
    the dispatcher: a repeated member after that point is silently ignored, so acceptance and the value reported depend on
    member order."""
    fn = ctx.fn(parser)
    an = ctx.E.an(fn)
    ctx.functions.add(fn.path)
    cfg = an.cfg

    def brace_fact(f):
        t = f[1] if len(f) > 1 else None
        if not (isinstance(t, tuple) and t):
            return False
        if f[0] == "true" and contains_value(t, lambda y: y[0] == "call" and s.nice(y[1]) == JP + "next_object_field"):
            return True
        if f[0] in ("eq", "eqc"):
            kv = f[2] if len(f) > 2 else None
            kv = kv[1] if isinstance(kv, tuple) and kv and kv[0] == "const" else kv
            if kv == 0x7D and contains_value(t, lambda y: (y[0] == "call" and s.nice(y[1]) == JP + "peek") or y[0] == "elem"):
                return True
        return False
    good = []
    for node in range(cfg.nblocks, cfg.nblocks + len(cfg.edges)):
        if any(brace_fact(f) for f in s.edge_new_facts(fn, node)):
            good.append(node)
    oks = [n for n, k, v in s.return_kinds(fn) if k == "ok"]
    short = parser.split("::")[-1]
    ctx.instances["S-MUSTPASS.%s.close-brace edges" % short] = len(good)
    if not good or not oks:
        s.add("S-MUSTPASS", fn, "object-left-at-close-brace", short, fn.sp, UNDECIDED,
              "where the parser recognises the closing brace was not found: not decided")
        return
    reach = s.reach(fn, [cfg.entry], avoid=good)
    bad = [n for n in oks if n in reach]
    s.add("S-MUSTPASS", fn, "object-left-at-close-brace", short, fn.sp, PROVED if not bad else VIOLATION,
          "every path to Ok passes the parser's own recognition of the closing brace (%d sites)" % len(good) if not bad else
          "the parser can succeed without having seen the closing brace itself (the rest of the object is skipped, not "
          "dispatched): a repeated member after that point is not refused, so the result depends on member order")
