"""C05 - queries return exactly the matching events, newest first, newest-k under limit."""
from ..srules import S, find_values, contains_value, unbyref, relation
from ..guard import PROVED, VIOLATION, UNDECIDED
from ..prove import lin_add, lin_const, lin_atoms
from .common import g_obligations
from .recheck import lossy_rechecks

EXPLANATION = (
    "Decides structural necessary conditions of query correctness in Store::find_events: every insertion into the "
    "result set is preceded on every path by the true outcome of the full match predicate on that same event and of "
    "the screen on that same event, the screen being evaluated only after the predicate matched; the screen closure "
    "sets `redacted` only under the Redacted outcome and returns true only for Match; the answer is the ordered set "
    "reversed and cut with take(limit), Event ordering being (created_at, id); every exit that depends on the limit "
    "lies in a loop driven by a reverse-time LMDB range, and `since` is only ever raised to an accepted event's time; "
    "every value of a tag constraint reaches a scan (the value iterator is drained by a loop); padded/truncated tag "
    "keys are re-verified; the scrape refusal is reached only when no ids/authors/tags are named and is the exact "
    "negation of (allow || limit <= allowance || window < max_seconds); no partial operation in the closure of "
    "find_events can panic on filter/event contents the engine understands. Exactness and plan-independence of the "
    "answer over all histories are not decided.")
EXPLANATION += " Also decided: every index range scan of a query is bounded by filter.until() itself and by filter.since() or the raised lower bound."
EXPLANATION += " Also decided: the offset of every event a plan inserts is an index iterator's entry or the id index's entry for a filter id - a plan fed by a single-answer lookup of the store is reported."
EXPLANATION += " Also decided: the scrape gate's window is the directed saturating difference min(until, now) - since; the query's screen wrapper turns an event down only for the caller's Mismatch / Redacted."
ASSUMPTIONS = ["an LMDB range over a key with a reversed-time component yields newest first"]

FIND = "pocket_db::Store::find_events"


def run(ctx):
    s = S(ctx)
    # the range scans the queries / address look-ups run on are bounded (until, 00..) .. (since, ff..) with the table's own key builder
    from . import tables as _tables
    _puts = _tables.table_ops(ctx, s, ctx.fn("pocket_db::Lmdb::index"), ("put",))
    _tables.scan_builders(ctx, s, _puts)
    fn = ctx.fn(FIND)
    an = ctx.E.an(fn)
    cfg = an.cfg
    filt = None
    for i in range(1, fn.argc + 1):
        if fn.locals[i]["ty"]["s"].endswith("Filter"):
            filt = ("param", i)
    # ---------------------------------------------------------------- 1. match and screen before insert
    ins = s.calls(fn, pred=lambda n, c, b, i: c.endswith("::insert") and "btree" in c)
    ctx.floor("C05.insert-sites", len(ins), 7)
    closure_paths = {f.path for f in ctx.F.closures_of(fn.path)}
    from ..srules import leaf_values as _lv
    for b, info in ins:
        ev = info["args"][1]
        # the event inserted may reach the insert as the payload of a small result value (a helper's "Accepted(event)"):
        # what was matched and screened is then the value that flowed into that payload
        evs = [ev] + [x for x in (_lv(an, ev) or []) if x != ev]
        good_m, good_s = [], []
        for node in an.edge_cond:
            for f in s.edge_facts(fn, node):
                if f[0] == "true":
                    for c in find_values(f[1], lambda x: x[0] == "call" and x[1].endswith("::event_matches")):
                        if c[2][0] == filt and c[2][1] in evs:
                            good_m.append(node)
                    c = f[1]
                    if c[0] == "call" and c[1] in closure_paths and contains_value(c[2], lambda x: x in evs):
                        good_s.append(node)
        okm = s.must_pass(fn, b, good_m)
        oks = s.must_pass(fn, b, good_s)
        ctx.paths += 1
        s.add("S-DOM", fn, "match-before-insert", "line-plan@%s" % _plan(an, b), info["sp"], PROVED if okm else VIOLATION,
              "insert is reached only through filter.event_matches(that event) == true" if okm else
              "an event can be inserted into the result without having passed the full match predicate", b)
        s.add("S-DOM", fn, "screen-before-insert", "line-plan@%s" % _plan(an, b), info["sp"], PROVED if oks else VIOLATION,
              "insert is reached only through screen(that event) == true" if oks else
              "an event can be inserted into the result without having passed the screening function", b)
    # ---------------------------------------------------------------- 1b. where a plan's candidates come from
    # Every plan enumerates its candidates from an index: the offset of each event it inserts is the entry of an index
    # iterator, or the id index's entry for one of the filter's ids.  A plan that takes its candidate from a single-answer
    # lookup of the store (the current event at an address, ...) sees at most one event and only what that lookup's own,
    # narrower, matching admits: other events that match the filter are missed, and the answer depends on the plan.
    from ..srules import leaf_values
    for b, info in ins:
        ev = info["args"][1]
        leaves = leaf_values(an, ev) or [ev]
        verdict, why = PROVED, "the event inserted is fetched at an offset taken from an index iterator or from the id index"
        for l in leaves:
            fetch = find_values(l, lambda x: x[0] == "call" and x[1].endswith("::get_event_by_offset"))
            if fetch:
                offv = fetch[0][2][1]
                from_index = contains_value(offv, lambda x: x[0] == "call" and (x[1].endswith("::next") or x[1].endswith("::get_offset_by_id")))
                if not from_index:
                    deep = any(contains_value(l2, lambda x: x[0] == "call" and (x[1].endswith("::next") or x[1].endswith("::get_offset_by_id")))
                               for l2 in leaf_values(an, offv))
                    if not deep and verdict == PROVED:
                        verdict, why = UNDECIDED, "where the offset of the inserted event comes from was not recognised: not decided"
                continue
            other = find_values(l, lambda x: x[0] == "call" and x[1].startswith("pocket_db::") and
                                not x[1].endswith("::get_event_by_offset"))
            if other:
                verdict = VIOLATION
                why = ("a plan takes its candidate from %s, a lookup that yields at most one event chosen by its own matching, "
                       "instead of enumerating an index: events that match the filter but not that lookup are missed, and the "
                       "answer depends on which plan serves the filter" % s.nice(other[0][1]))
                break
            if verdict == PROVED:
                verdict, why = UNDECIDED, "where the inserted event comes from was not recognised: not decided"
        s.add("S-WHO", fn, "plan-candidates-from-index", "line-plan@%s" % _plan(an, b), info["sp"], verdict, why, b)
    # the screen is called only for matching events (so `redacted` means a *matching* event was redacted)
    scr = [(b, i) for b, i in an.calls() if (i["callee"] or "") in closure_paths]
    ctx.floor("C05.screen-call-sites", len(scr), 7)
    for b, info in scr:
        tup = info["args"][1]
        ev = tup[2][0] if tup[0] == "agg" and tup[2] else None
        good = []
        for node in an.edge_cond:
            for f in s.edge_facts(fn, node):
                if f[0] == "true":
                    for c in find_values(f[1], lambda x: x[0] == "call" and x[1].endswith("::event_matches")):
                        if c[2][0] == filt and c[2][1] == ev:
                            good.append(node)
        ok = s.must_pass(fn, b, good)
        s.add("S-ORDER", fn, "screen-after-match", "plan@%s" % _plan(an, b), info["sp"], PROVED if ok else VIOLATION,
              "the screen runs only on events that matched the filter" if ok else
              "the screen (and with it the redacted flag) can run on events that do not match the filter", b)
    screen_closure(ctx, s, fn)
    result_order(ctx, s, fn, filt)
    limit_exits(ctx, s, fn, filt)
    drain(ctx, s, fn)
    lossy_rechecks(ctx, s)
    scrape_gate(ctx, s, fn, filt)
    # ---------------------------------------------------------------- 7. never panics
    scope = ctx.G.reachable([fn.path], within=lambda p: p.startswith("pocket_db::"))
    ctx.functions.update(scope)
    # filter bounds and the clock are unconstrained inputs of a query ("incl. inverted and future windows")
    def free(a):
        def is_free(x):
            if x[0] == "byref":
                return is_free(x[1])
            if x[0] == "call":
                n = x[1].rsplit("::", 1)[-1]
                if n in ("since", "until", "limit") and x[2] and x[2][0] == filt:
                    return True
                if n == "now" and "time" in x[1]:
                    return True
                if n in ("min", "max", "as_u64", "deref", "as_ref", "from_u64") and x[2]:
                    return all(is_free(y) for y in x[2])
            if x[0] == "init" and x[1][0] == "deref":
                return is_free(x[1][1])
            if x[0] == "proj":
                return is_free(x[1])
            if x[0] == "len":
                # the length of a tag string (name or value) of the filter: any length, including 0
                y = x[1]
                while y[0] == "proj":
                    y = y[1]
                return y[0] == "call" and y[1].startswith("pocket_types::tags::") and y[1].rsplit("::", 1)[-1] in ("next", "get_string", "get_value")
            return False
        return is_free(a)

    tscope = set(scope)
    for name in ("pocket_types::<Time as Sub>::sub", "pocket_types::<Time as Add>::add"):
        for f in ctx.F.by_nice.get(name, []):
            if ctx.G.callers.get(f.path, set()) & scope:
                tscope.add(f.path)
    obs = g_obligations(ctx, tscope, ("index", "slice", "arith", "shift", "div", "panic"), free_inputs=free)
    ctx.floor("C05.partial-operation-sites", len(obs), 3)
    for o in obs:
        ctx.add(o)


def _plan(an, b):
    return an.fn.blocks[b]["term"]["sp"]["l"] // 60


def screen_closure(ctx, s, fn):
    cls = ctx.F.closures_of(fn.path)
    cl = [c for c in cls if c.output is None or True]
    scr = None
    for c in cl:
        if any("ScreenResult" in l["ty"]["s"] for l in c.locals):
            scr = c
    if scr is None:
        from ..main import AnalysisError
        raise AnalysisError("screen closure not found in find_events")
    ctx.functions.add(scr.path)
    an = ctx.E.an(scr)
    adt = ctx.F.adts.get("pocket_db::ScreenResult")
    names = [v["n"] for v in adt["variants"]] if adt else []
    if "Redacted" not in names or "Match" not in names:
        from ..main import AnalysisError
        raise AnalysisError("ScreenResult variants not found")
    red, mat = names.index("Redacted"), names.index("Match")
    # stores through the captured &mut bool
    stores = [(k, v) for k, v in an.stmt_val.items() if an.stmt_loc.get(k, ("x",))[0] == "deref"]
    ctx.floor("C05.screen.flag-stores", len(stores), 1)
    for (b, i), v in stores:
        facts = ctx.E.facts(scr, b)
        ok = any(f[0] == "eqc" and f[1][0] == "discr" and f[2] == red for f in facts) or \
            any(f[0] == "variant" and f[2] == red for f in facts)
        s.add("S-DOM", scr, "redacted-only-if-redacted", "flag-store", scr.blocks[b]["stmts"][i]["sp"] if isinstance(i, int) else scr.sp,
              PROVED if ok else VIOLATION,
              "the redacted flag is written only under the Redacted outcome of the user's screen" if ok else
              "the redacted flag can be set although the screen did not answer Redacted", b)
    # returns true only under Match
    okret = True
    n_true = 0
    for b, info in an.term.items():
        pass
    for (b, i), v in an.stmt_val.items():
        L = an.stmt_loc.get((b, i))
        if L == ("local", 0) and v == ("const", 1, "bool"):
            n_true += 1
            facts = ctx.E.facts(scr, b)
            if not any(f[0] == "variant" and f[2] == mat for f in facts):
                okret = False
    # ... and turns an event down only because the caller's screen said so (Mismatch or Redacted): a further condition of its
    # own makes every query - and everything built on queries, like vanish - silently skip events that match
    okrej, n_false = True, 0
    for (b, i), v in an.stmt_val.items():
        L = an.stmt_loc.get((b, i))
        if L == ("local", 0) and v == ("const", 0, "bool"):
            n_false += 1
            facts = ctx.E.facts(scr, b)
            if not any(f[0] == "variant" and f[2] != mat and isinstance(f[2], int) and 0 <= f[2] < len(names) and
                       not (isinstance(f[1], tuple) and f[1][0] == "try") for f in facts):
                okrej = False
    if n_false:
        s.add("S-DOM", scr, "reject-only-on-callers-verdict", "return-false", scr.sp, PROVED if okrej else VIOLATION,
              "the screen turns an event down only for ScreenResult::Mismatch or Redacted" if okrej else
              "the screen closure turns events down for a reason of its own (not the caller's Mismatch / Redacted): matching, "
              "retrievable events are missing from every answer, and from what vanish enumerates")
    s.add("S-DOM", scr, "accept-only-match", "return-true", scr.sp, PROVED if (okret and n_true) else VIOLATION,
          "the screen lets an event through only for ScreenResult::Match" if (okret and n_true) else
          "the screen closure accepts events for an outcome other than Match")


def result_order(ctx, s, fn, filt):
    an = ctx.E.an(fn)
    oks = [v for n, k, v in s.return_kinds(fn) if k == "ok"]
    good = False
    for v in oks:
        # collect(copied(take(rev(iter(output)), limit as usize)))
        takes = find_values(v, lambda x: x[0] == "call" and x[1].rsplit("::", 1)[-1] == "take")
        for t in takes:
            has_rev = contains_value(t[2][0], lambda x: x[0] == "call" and x[1].rsplit("::", 1)[-1] == "rev" and
                                     contains_value(x, lambda y: y[0] == "call" and "btree" in y[1] and
                                                    y[1].rsplit("::", 1)[-1] in ("iter", "into_iter")))
            lim = contains_value(t[2][1], lambda x: x[0] == "call" and x[1].endswith("::limit") and x[2] and x[2][0] == filt)
            if has_rev and lim:
                good = True
    s.add("S-MUSTPASS", fn, "newest-first-cut", "rev().take(limit)", fn.sp, PROVED if good else VIOLATION,
          "the answer is the time-ordered set iterated in reverse and cut with take(filter.limit())" if good else
          "the returned vector is not (ordered set).rev().take(limit): order or limit selection is wrong")
    # Ord for Event: created_at first, then id
    cmpf = ctx.fn("pocket_types::<Event as Ord>::cmp")
    ca = ctx.E.an(cmpf)
    vals = [v for n, k, v in s.return_kinds(cmpf)]
    ok = False
    for v in vals:
        for t in find_values(v, lambda x: x[0] == "call" and x[1].rsplit("::", 1)[-1] == "then"):
            a, b2 = unbyref(t[2][0]), unbyref(t[2][1])
            fa = contains_value(a, lambda x: x[0] == "call" and x[1].endswith("::created_at")) and not contains_value(a, lambda x: x[0] == "call" and x[1].endswith("::id"))
            fb = contains_value(b2, lambda x: x[0] == "call" and x[1].endswith("::id"))
            # self first, other second in both comparisons (ascending)
            asc = True
            for c in find_values(t, lambda x: x[0] == "call" and x[1].rsplit("::", 1)[-1] == "cmp" and len(x[2]) == 2):
                l, r = unbyref(c[2][0]), unbyref(c[2][1])
                if not (contains_value(l, lambda x: x == ("param", 1)) and contains_value(r, lambda x: x == ("param", 2))):
                    asc = False
            ok = fa and fb and asc
    s.add("S-REL", cmpf, "event-order", "(created_at, id)", cmpf.sp, PROVED if ok else VIOLATION,
          "events are ordered by created_at, ties by id, ascending" if ok else
          "Ord for Event is not (created_at, then id) ascending: 'newest first' would be wrong")
    ctx.functions.add(cmpf.path)


def _over_index_range(ctx, s, fn, next_info):
    """the iterator advanced by this next() is (moved from) the result of one of Lmdb's *_iter range constructors - also
    when the loop was written over a generic iterator parameter of a helper that was inlined here"""
    from ..srules import leaf_values
    an = ctx.E.an(fn)
    vals = [next_info["args"][0]] + [p for p in next_info["pre"][:1] if p is not None]
    for v in vals:
        for l in leaf_values(an, v) or [v]:
            if contains_value(l, lambda x: x[0] == "call" and s.nice(x[1]).startswith("pocket_db::Lmdb::") and s.nice(x[1]).endswith("_iter")):
                return True
    return False


def limit_exits(ctx, s, fn, filt):
    """count-based exits only inside loops driven by a reverse-time LMDB range; `since` only raised"""
    an = ctx.E.an(fn)
    cfg = an.cfg
    loops = cfg.natural_loops()
    is_limit = lambda x: x[0] == "call" and x[1].endswith("::limit") and x[2] and x[2][0] == filt
    n = 0
    for node in sorted(an.edge_cond):
        ec = an.edge_cond[node]
        if ec[0] != "switch":
            continue
        D = ec[1]
        if not contains_value(D, is_limit):
            continue
        e = cfg.edges[node - cfg.nblocks]
        # innermost loop containing the comparison block
        inner = None
        for H, body in loops.items():
            if e.src in body and (inner is None or len(body) < len(loops[inner])):
                inner = H
        if inner is None:
            continue        # the final take(limit) is not in a loop
        body = loops[inner]
        # only the edge that leaves the loop matters
        if e.dst in body:
            continue
        n += 1
        drv = None
        for b in body:
            info = an.term.get(b)
            if info and info["kind"] == "call" and (info["base"] or "").endswith("Iterator::next"):
                # the loop's own driver: the next() whose None edge leaves the loop; take the one in the header region
                if drv is None or cfg.dominates(b, drv[0]):
                    drv = (b, info)
        ranged = drv is not None and ((drv[1]["callee"] or "").startswith("heed::iterator::range::") or _over_index_range(ctx, s, fn, drv[1]))
        sp = fn.blocks[e.src]["term"]["sp"]
        # what is counted: a per-range counter (reset before this loop) or, for a single-range plan, the result set
        nested = any(H2 != inner and body < b2 for H2, b2 in loops.items())
        cnt_ok = True
        why_cnt = ""
        sides = [D[2], D[3]] if D[0] == "bin" else []
        for side in sides:
            if contains_value(side, is_limit):
                continue
            if contains_value(side, lambda x: x[0] == "call" and x[1].rsplit("::", 1)[-1] == "len" and "btree" in x[1]):
                if nested:
                    cnt_ok = False
                    why_cnt = "the exit counts the whole result set although several ranges are scanned: events found in other ranges cut this one short"
            for ph in find_values(side, lambda x: x[0] == "phi"):
                if ph[1] == inner:
                    # value on entry to the loop must be the constant 0 (reset per range)
                    for ie in cfg.in_edges[inner]:
                        if ie.src not in body:
                            st0 = an.out_state.get(ie.src)
                            v0 = an.read(st0, ph[2]) if st0 is not None else None
                            if v0 is not None and not (v0[0] == "const" and v0[1] == 0):
                                cnt_ok = False
                                why_cnt = "the counter compared with the limit is not reset to 0 for each scanned range"
                elif ph[1] in loops and ph[1] != inner and nested:
                    cnt_ok = False
                    why_cnt = "the counter compared with the limit is carried across ranges"
        if ranged and not cnt_ok:
            s.add("S-ORDER", fn, "limit-exit-counts-this-range", "loop@%d" % (sp["l"] // 60), sp, VIOLATION, why_cnt, e.src)
        elif ranged:
            s.add("S-ORDER", fn, "limit-exit-counts-this-range", "loop@%d" % (sp["l"] // 60), sp, PROVED,
                  "the count compared with the limit is local to this range (or the plan scans a single range)", e.src)
        s.add("S-ORDER", fn, "limit-exit-only-on-time-ordered-scan", "loop@%d" % (sp["l"] // 60), sp,
              PROVED if ranged else VIOLATION,
              "the count-based exit leaves a loop over a reverse-time LMDB range (the entries skipped are all older)" if ranged else
              "a count-based exit leaves a loop that is not in time order: the result is the first listed, not the newest", e.src)
    ctx.instances["C05.limit-exits"] = n
    other_exits(ctx, s, fn, filt)
    scan_window(ctx, s, fn, filt)
    # assignments to the moving `since`
    since_locals = [i for i, l in enumerate(fn.locals) if l.get("n") == "since" and "inl" not in l]
    cnt = 0
    for (b, i), v in sorted(an.stmt_val.items(), key=lambda kv: (kv[0][0], str(kv[0][1]))):
        L = an.stmt_loc.get((b, i))
        if L is None or L[0] != "local" or L[1] not in since_locals:
            continue
        if v[0] == "call" and v[1].endswith("::since"):
            continue    # initialisation from the filter
        cnt += 1
        facts = ctx.E.facts(fn, b)
        ok = False
        for f in facts:
            r = relation(f)
            if r and r[0] == "<" and r[2] == v and (r[1][0] in ("phi", "call")):
                ok = True
        isct = v[0] == "call" and v[1].endswith("::created_at")
        if v[0] == "call" and v[1].rsplit("::", 1)[-1] == "max" and len(v[2]) == 2:
            # since = max(since, created_at): raised by construction
            a0, a1 = unbyref(v[2][0]), unbyref(v[2][1])
            cur = lambda x: x[0] == "phi" and x[2][0] == "local" and x[2][1] in since_locals
            ct = lambda x: x[0] == "call" and x[1].endswith("::created_at")
            if (cur(a0) and ct(a1)) or (cur(a1) and ct(a0)):
                ok = isct = True
        s.add("S-REL", fn, "since-only-raised", "since=created_at", fn.blocks[b]["stmts"][i]["sp"] if isinstance(i, int) else fn.sp,
              PROVED if (ok and isct) else VIOLATION,
              "since is replaced only by an accepted event's created_at that is greater than the current since" if (ok and isct) else
              "since can be lowered or set to something other than an accepted event's time: older matching events are cut off wrongly", b)
    ctx.instances["C05.since-updates"] = cnt


def scan_window(ctx, s, fn, filt):
    """S-REL: every index range scan of a query is bounded by the filter's own window: its `until` argument is
    filter.until() itself, its `since` argument is filter.since() or the moving lower bound that starts there and is only
    raised.  (A bound narrowed for any other reason hides stored events that match the filter.)"""
    an = ctx.E.an(fn)
    since_locals = [i for i, l in enumerate(fn.locals) if l.get("n") == "since" and "inl" not in l]
    n = 0
    for b, info in an.calls():
        c = info["callee"] or ""
        cf = ctx.F.fns.get(c)
        if cf is None or not cf.nice.startswith("pocket_db::Lmdb::") or not cf.nice.endswith("_iter"):
            continue
        names = [cf.local_name(i) for i in range(1, cf.argc + 1)]
        if "since" not in names or "until" not in names:
            continue
        n += 1
        a_since, a_until = info["args"][names.index("since")], info["args"][names.index("until")]
        is_f = lambda v, acc_: v[0] == "call" and v[1].endswith("::" + acc_) and v[2] and v[2][0] == filt
        ok_u = is_f(a_until, "until")
        ok_s = is_f(a_since, "since") or (a_since[0] == "phi" and a_since[2][0] == "local" and a_since[2][1] in since_locals)
        if not ok_s and a_since[0] == "phi":
            # a moving lower bound kept in some other variable: everything that flows into it is the filter's since or the
            # time of an event (it is only ever raised: judged by since-only-raised where the variable is the query's own)
            from ..srules import leaf_values
            lv = leaf_values(an, a_since)
            ok_s = bool(lv) and all(is_f(x, "since") or contains_value(x, lambda y: y[0] == "call" and y[1].endswith("::created_at"))
                                    for x in lv)
        short = cf.nice.split("::")[-1]
        s.add("S-REL", fn, "scan-window", "%s@%s" % (short, _plan(an, b)), info["sp"], PROVED if (ok_u and ok_s) else VIOLATION,
              "the scan runs from filter.until() down to filter.since() (or the raised lower bound)" if (ok_u and ok_s) else
              "the scan over %s is not bounded by the filter's own window (until=%s, since=%s): stored events that match the filter "
              "but lie outside the narrowed bound are never returned" % (short, s.show(a_until, fn)[:40], s.show(a_since, fn)[:40]), b)
    ctx.instances["C05.range-scans"] = n


def other_exits(ctx, s, fn, filt):
    """an exit from a range scan that is neither exhaustion, an error, the time cut-off nor the limit is allowed only
    for a (non-parameterized) replaceable kind, where the store keeps a single event per scanned address"""
    an = ctx.E.an(fn)
    cfg = an.cfg
    loops = cfg.natural_loops()
    is_limit = lambda x: x[0] == "call" and x[1].endswith("::limit") and x[2] and x[2][0] == filt
    oks = [n for n, k, v in s.return_kinds(fn) if k == "ok"]
    n = 0
    for H, body in sorted(loops.items()):
        drv = None
        for b in body:
            info = an.term.get(b)
            if info and info["kind"] == "call" and (info["base"] or "").endswith("Iterator::next") and \
                    ((info["callee"] or "").startswith("heed::iterator::range::") or _over_index_range(ctx, s, fn, info)):
                if drv is None or cfg.dominates(b, drv[0]):
                    drv = (b, info)
        if drv is None:
            continue
        # only the innermost loop of this driver
        if any(H2 != H and drv[0] in b2 and b2 < body for H2, b2 in loops.items()):
            continue
        for e in cfg.edges:
            if e.src not in body or e.dst in body:
                continue
            # error exits: no Ok return reachable
            reach = s.reach(fn, [e.node])
            if not any(o in reach for o in oks):
                continue
            facts = s.edge_facts(fn, e.node)
            ec = an.edge_cond.get(e.node)
            if any(f[0] == "variant" and f[2] == 0 and f[1] == drv[1]["value"] for f in facts):
                continue        # iterator exhausted
            if ec is not None and ec[0] == "switch" and contains_value(ec[1], is_limit):
                continue        # limit exit (judged above)
            # the same two reasons when the decision was computed first and tested afterwards (a helper returning
            # "stop now", a flag): what became true inside this iteration on every way into this exit
            since_header = {repr(f) for f in ctx.E.facts(fn, H)}
            inner = [f for f in ctx.E.facts(fn, e.node) if repr(f) not in since_header]
            lim = False
            for f in inner:
                if f[0] == "le":
                    pos = [a for a, k in f[1][1] if k > 0 and contains_value(a, is_limit)]
                    neg = [a for a, k in f[1][1] if k < 0]
                    if pos and neg:
                        lim = True      # limit <= count
            if lim:
                continue
            if any((relation(f) or ("",))[0] == "<" and contains_value(relation(f)[1], lambda x: x[0] == "call" and x[1].endswith("::created_at"))
                   for f in list(facts) + inner):
                continue        # older than `since`: everything further is older still (also when the comparison was made
                                # first and its outcome carried here in a small result value)
            n += 1
            good = []
            for node in an.edge_cond:
                for f in s.edge_facts(fn, node):
                    if f[0] == "true" and f[1][0] == "call" and f[1][1].endswith("::is_replaceable"):
                        good.append(node)
            # within the loop body: every path from the driver to this exit passes an is_replaceable-true edge
            sub = s.reach(fn, [drv[0]], avoid=good)
            ok = e.node not in sub and bool(good)
            if not ok and any(cfg.dominates(g_, H) for g_ in good):
                ok = True       # the whole loop runs only for a replaceable kind (the test was made before entering it)
            sp = fn.blocks[e.src]["term"]["sp"]
            s.add("S-DOM", fn, "early-exit-only-for-replaceable-kind", "loop@%d" % (sp["l"] // 60), sp, PROVED if ok else VIOLATION,
                  "the scan of an (author, kind) range stops after one accepted event only when Kind::is_replaceable holds" if ok else
                  "a range scan can stop early for a reason other than exhaustion, the time cut-off, the limit or a (non-parameterized) "
                  "replaceable kind: matching events in the rest of the range are never returned", e.src)
    ctx.instances["C05.other-scan-exits"] = n


def drain(ctx, s, fn):
    """S-DRAIN: the tag value handed to a scan comes from next() in a loop over that same value iterator"""
    an = ctx.E.an(fn)
    cfg = an.cfg
    loops = cfg.natural_loops()
    scans = s.calls(fn, names={"pocket_db::Lmdb::tc_iter", "pocket_db::Lmdb::atc_iter", "pocket_db::Lmdb::ktc_iter"})
    ctx.floor("C05.tag-driven-scans", len(scans), 3)
    for b, info in scans:
        # the tag value argument: a byte slice taken from TagsStringIter::next
        tv = None
        for a, t in zip(info["args"], info["aty"]):
            if t == "&[u8]":
                tv = a
        nxt = find_values(tv, lambda x: x[0] == "call" and x[1].endswith("::next") and x[1].startswith("pocket_types::tags::")) if tv else []
        ok = False
        why = "the scanned tag value does not come from the constraint's value iterator"
        for nv in nxt:
            site = nv[3]
            if site is None:
                continue
            nb = site[1]
            ninfo = an.term[nb]
            recv = ninfo["args"][0]
            if recv[0] != "ref" or recv[1][0] != "local":
                continue
            k = recv[1][1]
            defs = {bb for (bb, i), L in an.stmt_loc.items() if L == ("local", k)}
            for H, body in loops.items():
                if nb in body and not (defs & body):
                    ok = True
            why = "only a fixed number of values is read from the constraint's value iterator: later values are never scanned"
        nm = s.nice(info["callee"]).split("::")[-1]
        s.add("S-DRAIN", fn, "all-values-scanned", nm, info["sp"], PROVED if ok else VIOLATION,
              "the value passed to the scan is produced by next() inside a loop that drains the value iterator" if ok else why, b)


def scrape_gate(ctx, s, fn, filt):
    an = ctx.E.an(fn)
    P = ctx.E.prover(fn)
    # where the refusal is decided: the blocks that build InnerError::Scraper (wherever the error then travels -
    # straight to the return, or out of a helper through `?`)
    errs = []
    seen_b = set()
    for (b_, i_), v in sorted(an.stmt_val.items(), key=lambda kv: (kv[0][0], str(kv[0][1]))):
        if v is not None and b_ not in seen_b and contains_value(v, lambda x: x[0] == "agg" and isinstance(x[1], str) and x[1].endswith(":Scraper")):
            seen_b.add(b_)
            errs.append((b_, v))
    ctx.floor("C05.scraper-error-returns", len(errs), 1)
    params = {fn.local_name(i): ("param", i) for i in range(1, fn.argc + 1)}
    for node, v in errs:
        facts = ctx.E.facts(fn, node)
        # no ids / authors / tags named
        def zero(acc_name):
            for f in facts:
                if f[0] == "le" and f[1][0] == 0 and len(f[1][1]) == 1 and f[1][1][0][1] == 1:
                    a = f[1][1][0][0]
                    if a[0] == "call" and a[1].endswith("::" + acc_name) and a[2] and a[2][0] == filt:
                        return True
            return False
        tags_empty = any(f[0] == "true" and f[1][0] == "call" and f[1][1].endswith("::is_empty") and
                         contains_value(f[1], lambda x: x[0] == "call" and x[1].endswith("::tags") and x[2] and x[2][0] == filt)
                         for f in facts)
        named = zero("num_ids") and zero("num_authors") and tags_empty
        s.add("S-DOM", fn, "scrape-refusal-only-without-ids-authors-tags", "Err(Scraper)", fn.sp, PROVED if named else VIOLATION,
              "refusal is reached only when the filter names no ids, no authors and no tags" if named else
              "a filter naming ids, authors or tags can be refused as scraping")
        # exact negation of the allowance
        allow_false = any(f[0] == "false" and f[1] == params.get("allow_scraping") for f in facts) or \
            any(f[0] == "eqc" and f[1] == params.get("allow_scraping") and f[2] == 0 for f in facts)
        lim = None
        win = None
        for f in facts:
            if f[0] != "le":
                continue
            d = dict(f[1][1])
            if params.get("allow_scrape_if_limited_to") in d or any(contains_value(a, lambda x: x == params.get("allow_scrape_if_limited_to")) for a in d):
                # allowance + 1 <= limit
                la = [a for a in d if contains_value(a, lambda x: x[0] == "call" and x[1].endswith("::limit"))]
                pa = [a for a in d if contains_value(a, lambda x: x == params.get("allow_scrape_if_limited_to"))]
                if la and pa and d[la[0]] == -1 and d[pa[0]] == 1 and f[1][0] == 1:
                    lim = True
            if params.get("allow_scrape_if_max_seconds") in d:
                oth = [a for a in d if a != params["allow_scrape_if_max_seconds"]]
                if len(oth) == 1 and d[params["allow_scrape_if_max_seconds"]] == 1 and d[oth[0]] == -1 and f[1][0] == 0:
                    w = oth[0]
                    if contains_value(w, lambda x: x[0] == "call" and x[1].endswith("::since")) and \
                            contains_value(w, lambda x: x[0] == "call" and x[1].endswith("::until")):
                        win = True
                        # the window is a directed length: zero when `since` lies beyond min(until, now)
                        is_since = lambda x: x[0] == "call" and x[1].endswith("::since")
                        is_until = lambda x: x[0] == "call" and x[1].endswith("::until")
                        both = find_values(w, lambda x: x[0] in ("call", "bin") and contains_value(x, is_since) and contains_value(x, is_until))
                        inner = min(both, key=lambda x: len(repr(x))) if both else None
                        if inner is not None and inner[0] == "call":
                            nm_ = inner[1].rsplit("::", 1)[-1]
                            if nm_ == "abs_diff":
                                win_dir = False
                            elif nm_ == "saturating_sub" and len(inner[2]) == 2:
                                win_dir = contains_value(inner[2][0], is_until) and contains_value(inner[2][1], is_since) and \
                                    not contains_value(inner[2][0], is_since)
                            else:
                                win_dir = None
                        else:
                            win_dir = None
        ok = allow_false and lim and win
        if ok:
            wd = locals().get("win_dir")
            s.add("S-REL", fn, "scrape-window-directed", "Err(Scraper)", fn.sp,
                  PROVED if wd else (VIOLATION if wd is False else UNDECIDED),
                  "the window length is min(until, now) - since, saturating at zero" if wd else
                  ("the window length is an undirected distance (or since - until): an empty or inverted window counts as long as "
                   "its mirror image, so a query the time allowance covers is refused as scraping" if wd is False else
                   "how the window length is computed from since and until was not recognised: not decided"))
        s.add("S-REL", fn, "scrape-refusal-relation", "Err(Scraper)", fn.sp, PROVED if ok else VIOLATION,
              "refused iff !allow_scraping && limit > allowance && window >= max_seconds" if ok else
              "the refusal condition is not the negation of (allow || limit <= allowance || window < max_seconds): "
              "allow=%s limit=%s window=%s" % (allow_false, lim, win))
