"""Rules about the LMDB tables: insert/remove mirror, rebuild coverage, scan-range builders,
statistics mapping, marker tables (shared by C09, C11, C16, C17, C18)."""
from ..srules import S, find_values, contains_value, unbyref
from ..guard import PROVED, VIOLATION, UNDECIDED
from ..sym import strip_sites, walk
from . import txn

LMDB = "pocket_db::lmdb::Lmdb"
INDEX_TABLES = ["i_index", "ci_index", "tc_index", "ac_index", "akc_index", "atc_index", "ktc_index"]
MARKER_TABLES = ["deleted_ids", "deleted_naddrs"]


def database_fields(ctx):
    adt = ctx.F.adts.get(LMDB)
    if adt is None:
        from ..main import AnalysisError
        raise AnalysisError("missing anchor struct %s" % LMDB)
    out = []
    for f in adt["variants"][0]["fields"]:
        if f["ty"]["s"].startswith("heed::Database<"):
            out.append(f["n"])
    return out


def canon(v, fn, an):
    """site-free, local-name based rendering of a value, comparable across functions"""
    # calls with side effects on their receiver (iterator next()) are told apart by their order in the function
    ordinals = {}
    by_callee = {}
    for b, info in an.term.items():
        if info.get("kind") == "call" and info.get("site") is not None and info.get("callee"):
            by_callee.setdefault(info["callee"], []).append((len(an.cfg.dominators(b)), info["sp"]["l"], info["sp"]["c"], b))
    for callee, lst in by_callee.items():
        for n, (_, _, _, b) in enumerate(sorted(lst)):
            ordinals[(callee, b)] = n

    depth = [0]

    def c(x):
        if not isinstance(x, tuple) or not x:
            return x
        t = x[0]
        if t == "call":
            site = x[3] if len(x) > 3 else None
            if site is not None and site[0] == fn.path and x[1].endswith("::next"):
                return ("call", x[1], tuple(c(a) for a in x[2]), "#%d" % ordinals.get((x[1], site[1]), -1))
            return ("call", x[1], tuple(c(a) for a in x[2]))
        if t == "clob":
            site = x[1]
            info = an.term.get(site[1]) if site and site[0] == fn.path else None
            return ("clob", (info["callee"] if info else "?"), x[2])
        if t == "agg" and isinstance(x[1], str) and x[1].startswith("closure:"):
            # closures are named relative to their parent function
            return ("agg", "closure:" + x[1].rsplit("::", 1)[-1], tuple(c(a) for a in x[2]))
        if t == "phi":
            nm = c(x[2])
            if isinstance(nm, tuple) and len(nm) == 2 and nm[0] == "local" and (nm[1] is None or str(nm[1]).startswith("_")) and depth[0] < 3:
                # a join in an unnamed temporary (the result of a spliced-in helper): named by what flows into it, so that
                # two functions using the same helper agree
                from ..srules import leaf_values
                depth[0] += 1
                try:
                    ls = leaf_values(an, x) or []
                    if ls and not any(l == x for l in ls):
                        return ("phi*", tuple(sorted(repr(c(l)) for l in ls)))
                finally:
                    depth[0] -= 1
            return ("phi", nm)
        if t == "local":
            return ("local", fn.local_name(x[1]))
        if t == "param":
            return ("param", fn.local_name(x[1]))
        if t == "byref":
            return c(x[1])
        if t == "aload":
            return ("aload", c(x[1]), c(x[2]))
        return tuple(c(y) if isinstance(y, tuple) else y for y in x)
    return c(v)


def cond_set(ctx, fn, block):
    """canonical data conditions under which a block runs (loop-exit and `?` facts removed)"""
    an = ctx.E.an(fn)
    out = set()
    for f in ctx.E.facts(fn, block):
        if f[0] in ("variant", "notvariant"):
            V = f[1]
            if V[0] == "try":
                continue
            if V[0] == "call" and V[1].endswith("::next") and f[2] == 0:
                continue            # iterator exhausted: a loop exit, not a data condition
            if f[0] == "notvariant":
                continue
            out.add(("variant", canon(V, fn, an), f[2]))
        elif f[0] == "le":
            out.add(("le", f[1][0], tuple(sorted(((repr(canon(a, fn, an)), k) for a, k in f[1][1])))))
        elif f[0] in ("true", "false"):
            out.add((f[0], canon(f[1], fn, an)))
    return frozenset(out)


def table_ops(ctx, s, fn, ops):
    """[(block, info, table, key_canon, conds)] for heed calls named in ops on Lmdb tables in fn"""
    an = ctx.E.an(fn)
    out = []
    for b, info in an.calls():
        c = info["callee"] or ""
        if not c.startswith("heed::database::") or c.rsplit("::", 1)[-1] not in ops:
            continue
        recv, root = s.receiver_field(fn, info["args"][0])
        table = ".".join(recv) if recv else "?"
        ki = 2 if len(info["args"]) > 2 else None
        key = None
        if ki is not None:
            kv = info["pre"][ki] if info["pre"][ki] is not None else info["args"][ki]
            key = canon(kv, fn, an)
        out.append((b, info, table, key, cond_set(ctx, fn, b)))
    return out


def key_builder(key):
    """name of the in-crate key builder (or accessor) at the root of a key expression"""
    hits = find_values(key, lambda x: x[0] == "call" and (x[1].rsplit("::", 1)[-1].startswith("key_")))
    if hits:
        return hits[0][1].rsplit("::", 1)[-1]
    hits = find_values(key, lambda x: x[0] == "call" and x[1].startswith("pocket_types::"))
    return hits[0][1].rsplit("::", 1)[-1] if hits else "?"


def mirror(ctx, s):
    """index() and deindex()+deindex_id() address the same tables with the same keys under the same conditions"""
    ins = ctx.fn("pocket_db::Lmdb::index")
    d1 = ctx.fn("pocket_db::Lmdb::deindex")
    d2 = ctx.fn("pocket_db::Lmdb::deindex_id")
    puts = table_ops(ctx, s, ins, ("put",))
    dels = table_ops(ctx, s, d1, ("delete",)) + table_ops(ctx, s, d2, ("delete",))
    ctx.floor("C17.index-puts", len(puts), 7)
    ctx.floor("C17.deindex-deletes", len(dels), 7)

    def norm_key(key, fn_is_id):
        return key

    # deindex_id takes the id by value (`id`), index() derives it from the event: normalise the id accessor
    def idnorm(k):
        def c(x):
            if not isinstance(x, tuple) or not x:
                return x
            if x[0] == "call" and x[1].endswith("::id") and len(x[2]) == 1:
                return ("ID",)
            if x[0] == "param" and x[1] == "id":
                return ("ID",)
            return tuple(c(y) if isinstance(y, tuple) else y for y in x)
        return c(k)

    P = {}
    for b, info, table, key, conds in puts:
        P.setdefault(table, []).append((idnorm(key), conds, b, info))
    D = {}
    for b, info, table, key, conds in dels:
        D.setdefault(table, []).append((idnorm(key), conds, b, info))
    tables = sorted(set(P) | set(D))
    for t in tables:
        ps, ds = P.get(t, []), D.get(t, [])
        if not ds:
            b, info = ps[0][2], ps[0][3]
            s.add("S-MIRROR", ins, "table", t, info["sp"], VIOLATION,
                  "index() writes table %s but deindex()/deindex_id() never delete from it: entries leak on removal" % t, b)
            continue
        if not ps:
            b, info = ds[0][2], ds[0][3]
            s.add("S-MIRROR", d1, "table", t, info["sp"], VIOLATION,
                  "deindex deletes from table %s which index() never writes" % t, b)
            continue
        pk = sorted((repr(k), repr(sorted(map(repr, c)))) for k, c, _, _ in ps)
        dk = sorted((repr(k), repr(sorted(map(repr, c)))) for k, c, _, _ in ds)
        b, info = ds[0][2], ds[0][3]
        opaque = lambda k: contains_value(k, lambda x: (x[0] == "call" and (x[1].startswith("core::iter::adapters::") or
                                                                            (x[1].startswith("core::iter::traits::iterator::Iterator::") and
                                                                             x[1].rsplit("::", 1)[-1] not in ("next",)))) or
                                           (x[0] == "agg" and isinstance(x[1], str) and x[1].startswith("closure:")))
        some_opaque = any(opaque(k) for k, _, _, _ in ps + ds) or any(opaque(tuple(c)) for _, c, _, _ in ps + ds)
        same_builders = sorted(key_builder(k) for k, _, _, _ in ps) == sorted(key_builder(k) for k, _, _, _ in ds)
        if pk != dk and some_opaque and same_builders:
            s.add("S-MIRROR", d1, "table", t, info["sp"], UNDECIDED,
                  "same key builder (%s) in index() and deindex, but one side draws its arguments from an iterator adaptor with a "
                  "closure: argument and condition agreement is not decided" % key_builder(ps[0][0]), b)
        elif [k for k, _ in pk] != [k for k, _ in dk] and \
                ("?" in [key_builder(k) for k, _, _, _ in ps] or "?" in [key_builder(k) for k, _, _, _ in ds]) and \
                not ("?" in [key_builder(k) for k, _, _, _ in ps] and "?" in [key_builder(k) for k, _, _, _ in ds]):
            s.add("S-MIRROR", d1, "key", t, info["sp"], UNDECIDED,
                  "one of index() / deindex assembles the %s key without the table's key builder: that the key deleted is the key "
                  "inserted is not decided" % t, b)
        elif [k for k, _ in pk] != [k for k, _ in dk]:
            s.add("S-MIRROR", d1, "key", t, info["sp"], VIOLATION,
                  "the key deleted from %s is not built like the key inserted (builder %s vs %s, or different arguments): "
                  "removal leaves a dangling entry" % (t, key_builder(ds[0][0]), key_builder(ps[0][0])), b)
        elif pk != dk:
            s.add("S-MIRROR", d1, "condition", t, info["sp"], VIOLATION,
                  "entries of %s are inserted and deleted under different conditions" % t, b)
        else:
            s.add("S-MIRROR", d1, "table", t, info["sp"], PROVED,
                  "same key builder (%s), same arguments, same enclosing conditions in index() and deindex" % key_builder(ps[0][0]), b)
    ctx.floor("C17.mirrored-tables", len(tables), 7)
    # every single-letter tag that has a value is indexed: the puts on the tag tables are conditioned on the
    # name's length and on the presence of a value only, never on the value itself
    an_ins = ctx.E.an(ins)
    for b, info, table, key, conds in puts:
        if table not in ("tc_index", "atc_index", "ktc_index"):
            continue
        # the value argument of the key builder
        kb = find_values(key, lambda x: x[0] == "call" and x[1].rsplit("::", 1)[-1].startswith("key_"))
        vals = []
        via_payload = False
        if kb:
            from ..srules import leaf_values as _lv
            for a in kb[0][2]:
                if a[0] == "proj" and contains_value(a, lambda x: x[0] == "phi"):
                    # the letter / value handed over in a small result value of a shared helper: what flowed into it
                    ls = [l for l in (_lv(an_ins, a) or []) if l[0] == "proj" and contains_value(l, lambda x: x[0] == "call" and x[1].endswith("::next"))]
                    if ls:
                        vals += ls
                        via_payload = True
                        continue
                if a[0] == "proj" and contains_value(a, lambda x: x[0] == "call" and x[1].endswith("::next")):
                    vals.append(a)
        bad = False
        for v in vals:
            y = v
            while y[0] == "proj":
                y = y[1]
            if not (y[0] == "call" and y[1].endswith("::next") and y[1].startswith("pocket_types::tags::")):
                bad = True      # the value went through something (filter, map, ...) before being indexed
        for c in conds:
            if c[0] == "variant":
                continue
            txt = repr(c)
            for v in vals:
                if repr(v) in txt:
                    bad = True
        if not kb:
            s.add("S-COVER", ins, "every-tag-value-indexed", table, info["sp"], UNDECIDED,
                  "the %s key is assembled without a key builder call: what the put depends on is not decided" % table, b)
            continue
        if not vals and kb and any(a[0] == "proj" and contains_value(a, lambda x: x[0] in ("phi", "phi*")) for a in kb[0][2]):
            via_payload, bad = True, True
        if bad and via_payload:
            s.add("S-COVER", ins, "every-tag-value-indexed", table, info["sp"], UNDECIDED,
                  "letter and value reach the %s key through a shared helper's result value; what the put depends on is not "
                  "separated from that value: not decided" % table, b)
            continue
        s.add("S-COVER", ins, "every-tag-value-indexed", table, info["sp"], PROVED if (vals and not bad) else VIOLATION,
              "entries are written for every single-letter tag with a value, whatever the value is" if (vals and not bad) else
              "whether a tag is indexed in %s depends on its value: events carrying such values cannot be found (or replaced) through this table" % table, b)
    return puts, dels


def unconditional_entries(ctx, s, puts, dels):
    """the i, ci, ac, akc entries are written on every Ok path of index() and deleted on every Ok path of removal"""
    ins = ctx.fn("pocket_db::Lmdb::index")
    for fnname, ops in (("pocket_db::Lmdb::index", puts), ("pocket_db::Lmdb::deindex", dels), ("pocket_db::Lmdb::deindex_id", dels)):
        fn = ctx.fn(fnname)
        an = ctx.E.an(fn)
        oks = [n for n, k, v in s.return_kinds(fn) if k == "ok"]
        for b, info, table, key, conds in ops:
            if info["site"][0] != fn.path:
                continue
            if table not in ("i_index", "ci_index", "ac_index", "akc_index"):
                continue
            good = s.ok_edges_of_call(fn, b)
            reach = s.reach(fn, [an.cfg.entry], avoid=good)
            bad = [n for n in oks if n in reach]
            s.add("S-MUSTPASS", fn, "every-event", table, info["sp"], PROVED if not bad else VIOLATION,
                  "every success path passes this %s" % info["callee"].rsplit("::", 1)[-1] if not bad else
                  "a success path skips the %s entry: the per-event tables go out of step" % table, b)
    # remove_by_offset calls both halves on every Ok path
    rb = ctx.fn("pocket_db::Store::remove_by_offset")
    an = ctx.E.an(rb)
    oks = [n for n, k, v in s.return_kinds(rb) if k == "ok"]
    for callee in ("pocket_db::Lmdb::deindex", "pocket_db::Lmdb::deindex_id"):
        cs = s.calls(rb, names={callee})
        good = []
        for b, info in cs:
            good += s.ok_edges_of_call(rb, b)
        reach = s.reach(rb, [an.cfg.entry], avoid=good)
        bad = [n for n in oks if n in reach] or not cs
        s.add("S-MUSTPASS", rb, "remove-both-halves", callee.split("::")[-1], rb.sp, PROVED if not bad else VIOLATION,
              "remove_by_offset always calls %s" % callee.split("::")[-1] if not bad else
              "remove_by_offset can succeed without calling %s" % callee.split("::")[-1])


def _paired_removal(ctx, s, fn, D1, D2):
    """in fn, deindex and deindex_id Ok-outcomes alternate (either order) on every path to Ok, and address one event"""
    an = ctx.E.an(fn)
    oks = [n for n, k, v in s.return_kinds(fn) if k == "ok"]
    s1, s2 = s.calls(fn, names={D1}), s.calls(fn, names={D2})
    if not s1 or not s2:
        return False, "calls %s without %s" % ((D1 if s1 else D2).rsplit("::", 1)[-1], (D2 if s1 else D1).rsplit("::", 1)[-1])

    def order_ok(first, second):
        good2 = [e for b, i in second for e in s.ok_edges_of_call(fn, b)]
        good1 = [e for b, i in first for e in s.ok_edges_of_call(fn, b)]
        for b, i in first:
            # after the first half succeeded: no Ok return and no further first half before the second half succeeded
            starts = s.ok_edges_of_call(fn, b)
            if not starts:
                return "no success outcome of the call is distinguished"
            reach = s.reach(fn, starts, avoid=good2)
            if any(n in reach for n in oks):
                return "can succeed after %s without %s" % (i["callee"].rsplit("::", 1)[-1], second[0][1]["callee"].rsplit("::", 1)[-1])
            if any(b_ in reach for b_, _ in first):
                return "removes a second event's %s half before finishing the first" % i["callee"].rsplit("::", 1)[-1]
        # the second half never runs without a first half since the last second half
        starts = [an.cfg.entry] + good2
        reach = s.reach(fn, starts, avoid=good1)
        if any(b_ in reach for b_, _ in second):
            return "%s can run without %s before it" % (second[0][1]["callee"].rsplit("::", 1)[-1], first[0][1]["callee"].rsplit("::", 1)[-1])
        return None
    w12 = order_ok(s1, s2)
    w = w12 if w12 is None else (order_ok(s2, s1) and w12)
    if w:
        return False, w
    # same event: the id handed to deindex_id is the id of an event handed to deindex
    evs = [i["args"][2] for b, i in s1]
    for b, i in s2:
        idv = i["args"][2]
        same = any(contains_value(idv, lambda y: y[0] == "call" and y[1].rsplit("::", 1)[-1] == "id" and contains_value(y, lambda z: z == e))
                   for e in evs)
        if not same:
            return False, "the id removed from the id index is not the id of the event removed from the other indexes"
    return True, ""


def removal_funnel(ctx, s):
    """every deletion from an index table happens in deindex/deindex_id, reached only through remove_by_offset"""
    F, G = ctx.F, ctx.G
    # whoever takes an event out of the general indexes takes it out of the id index too (and the other way round),
    # for the same event, before it can succeed or remove the next one
    D1, D2 = "pocket_db::Lmdb::deindex", "pocket_db::Lmdb::deindex_id"
    c1, c2 = s.callers(D1), s.callers(D2)
    verdicts = {}
    for cn in sorted(set(c1) | set(c2)):
        verdicts[cn] = _paired_removal(ctx, s, ctx.fn(cn), D1, D2)
    for callee, callers in ((D1, c1), (D2, c2)):
        bad = [(cn, verdicts[cn][1]) for cn in callers if not verdicts[cn][0]]
        outside = [cn for cn in callers if not cn.startswith("pocket_db::")]
        ok = bool(callers) and not bad and not outside
        s.add("S-WHO", ctx.fn(callee), "callers", callee.split("::")[-1], ctx.fn(callee).sp,
              PROVED if ok else VIOLATION,
              ("callers: %s - each removes both halves of the same event" % ", ".join(callers)) if ok else
              ("callers: %s; %s" % (", ".join(callers), "; ".join("%s: %s" % b for b in bad) or "called from outside pocket_db")))
    n = 0
    bad = []
    for p, f in sorted(F.fns.items()):
        if not p.startswith("pocket_db::"):
            continue
        for b, info, table, key, conds in table_ops(ctx, s, f, ("delete", "clear", "delete_range")):
            n += 1
            if table.rsplit(".", 1)[-1] in INDEX_TABLES and f.nice not in ("pocket_db::Lmdb::deindex", "pocket_db::Lmdb::deindex_id"):
                bad.append((f, b, info, table))
    ctx.floor("C17.delete-sites", n, 7)
    for f, b, info, table in bad:
        s.add("S-WHO", f, "index-delete-outside-deindex", table, info["sp"], VIOLATION,
              "index table %s is modified outside deindex/deindex_id" % table, b)
    if not bad:
        s.add("S-WHO", ctx.fn("pocket_db::Lmdb::deindex"), "index-delete-outside-deindex", "none", ctx.fn("pocket_db::Lmdb::deindex").sp,
              PROVED, "all %d delete sites on index tables are in deindex/deindex_id" % n)
    # same for puts on index tables: only index()
    badp = []
    for p, f in sorted(F.fns.items()):
        if not p.startswith("pocket_db::"):
            continue
        for b, info, table, key, conds in table_ops(ctx, s, f, ("put", "put_with_flags", "append")):
            if table.rsplit(".", 1)[-1] in INDEX_TABLES and f.nice != "pocket_db::Lmdb::index":
                badp.append((f, b, info, table))
    for f, b, info, table in badp:
        s.add("S-WHO", f, "index-put-outside-index", table, info["sp"], VIOLATION,
              "index table %s is written outside Lmdb::index" % table, b)
    if not badp:
        s.add("S-WHO", ctx.fn("pocket_db::Lmdb::index"), "index-put-outside-index", "none", ctx.fn("pocket_db::Lmdb::index").sp,
              PROVED, "index tables are written only by Lmdb::index")


def scan_builders(ctx, s, puts):
    """each *_iter builds both range bounds with the table's own key builder; until -> start, since -> end"""
    table_builder = {}
    for b, info, table, key, conds in puts:
        table_builder[table] = key_builder(key)
    n = 0
    for itname, table in (("ci_iter", "ci_index"), ("tc_iter", "tc_index"), ("ac_iter", "ac_index"),
                          ("akc_iter", "akc_index"), ("atc_iter", "atc_index"), ("ktc_iter", "ktc_index")):
        fn = ctx.fn("pocket_db::Lmdb::" + itname)
        an = ctx.E.an(fn)
        want = table_builder.get(table)
        rng = s.calls(fn, pred=lambda n_, c, b, i: c.startswith("heed::database::") and c.rsplit("::", 1)[-1] in ("range", "rev_range"))
        ctx.floor("C17.%s.range-call" % itname, len(rng), 1)
        b, info = rng[0]
        recv, _ = s.receiver_field(fn, info["args"][0])
        tbl = ".".join(recv) if recv else "?"
        builders = [c for c in an.calls() if (c[1]["callee"] or "").rsplit("::", 1)[-1].startswith("key_")]
        # a builder whose result is only an argument of another builder (a shared (time, id) suffix handed on) is part of it
        outer = [c for c in builders if not any(c2 is not c and any(contains_value(a, lambda y, v=c[1]["value"]: y == v)
                                                                   for a in list(c2[1]["args"]) + [p_ for p_ in c2[1]["pre"] if p_ is not None])
                                                for c2 in builders)]
        if outer and len(outer) < len(builders):
            inner_ = [c for c in builders if c not in outer]
            # the nested calls' arguments count as the outer call's
            for c in outer:
                extra_args = []
                for c2 in inner_:
                    if any(contains_value(a, lambda y, v=c2[1]["value"]: y == v) for a in list(c[1]["args"]) + [p_ for p_ in c[1]["pre"] if p_ is not None]):
                        extra_args += list(c2[1]["args"])
                c[1]["args"] = list(c[1]["args"]) + extra_args
            builders = outer
        names = sorted({c[1]["callee"].rsplit("::", 1)[-1] for c in builders})
        params = {fn.local_name(i): ("param", i) for i in range(1, fn.argc + 1)}
        # the two (time, id) pairs the bounds are built from, in source order, and the builder used
        pairs = None
        if len(builders) == 2:
            (b1, i1), (b2, i2) = sorted(builders, key=lambda x: x[1]["sp"]["l"])
            pairs = [tuple(i1["args"]), tuple(i2["args"])]
        elif not builders:
            # the builder is called in a closure that fn calls twice with (time, id)
            for cf in ctx.F.closures_of(fn.path):
                ca = ctx.E.an(cf)
                kb = [c for c in ca.calls() if (c[1]["callee"] or "").rsplit("::", 1)[-1].startswith("key_")]
                cc = sorted([c for c in an.calls() if (c[1]["callee"] or "") == cf.path], key=lambda x: x[0])
                if len(kb) == 1 and len(cc) == 2 and cf.argc == 3:
                    kargs = kb[0][1]["args"]
                    if any(a == ("param", 2) for a in kargs) and any(a == ("param", 3) for a in kargs):
                        names = [kb[0][1]["callee"].rsplit("::", 1)[-1]]
                        pairs = []
                        for _, ci in cc:
                            tup = ci["args"][1]
                            pairs.append(tuple(tup[2]) if tup[0] == "agg" and tup[1] == "tuple" else (tup,))
        ok = tbl == table and names == [want] and pairs is not None
        order_ok = None
        if pairs is not None:
            has = lambda args_, pn: any(a == params.get(pn) or contains_value(a, lambda y: y == params.get(pn)) for a in args_)
            order_ok = has(pairs[0], "until") and has(pairs[1], "since") and not has(pairs[0], "since") and not has(pairs[1], "until")
            # id bounds: start all-zero, end all-0xff (a named constant whose value was not extracted: not decided)
            def idb(args_, byte):
                if contains_value(tuple(args_), lambda x: x[0] == "repeat" and x[1] == ("const", byte, "u8")):
                    return True
                if contains_value(tuple(args_), lambda x: x[0] == "repeat"):
                    return False
                return None
            z1, z2 = idb(pairs[0], 0), idb(pairs[1], 255)
            if order_ok and (z1 is False or z2 is False):
                order_ok = False
            elif order_ok and (z1 is None or z2 is None):
                order_ok = None
        n += 1
        # bounds assembled by hand: the stored keys hold at most the builder's fixed width of a tag value, so a bound that
        # takes the whole of an unbounded slice parameter (no cut, no length test) does not bracket the stored keys of long values
        P_ = ctx.E.prover(fn)
        for eb, einfo in an.calls():
            last = (einfo["callee"] or "").rsplit("::", 1)[-1]
            if last not in ("extend", "extend_from_slice", "append") or len(einfo["args"]) < 2:
                continue
            src = einfo["args"][-1]
            while src[0] in ("ref", "byref", "unsize") and isinstance(src[1], tuple):
                src = src[1]
            if src[0] == "param" and fn.locals[src[1]]["ty"]["s"] in ("&[u8]", "&'_ [u8]"):
                ln = P_.lin(an.len_of(src))
                from ..prove import lin_add as _la, lin_const as _lc
                bounded = P_.prove_le0(_la(ln, _lc(4096), -1), ctx.E.facts(fn, eb))
                from .recheck import builder_is_lossy
                try:
                    cuts = bool(want) and want != "?" and builder_is_lossy(ctx, s, want)[0]
                except Exception:
                    cuts = False
                if not bounded and cuts:
                    s.add("S-REL", fn, "scan-bound-holds-whole-value", itname, einfo["sp"], VIOLATION,
                          "a scan bound over %s is assembled by hand and takes the whole of `%s` whatever its length, while the keys "
                          "index() writes hold only the builder's fixed width of it: for a longer value the bounds do not bracket "
                          "the stored key and the event is not found" % (table, fn.local_name(src[1])), eb)
        if (want in (None, "?") or not names) and tbl == table:
            # one side assembles its keys by hand (no key_* builder call): whether the bytes agree is not read off the calls
            s.add("S-MIRROR", fn, "scan-bounds", itname, info["sp"], UNDECIDED,
                  "the %s of %s are assembled without the table's key builder: that they bracket exactly the keys index() writes "
                  "is not decided" % ("keys index() writes" if want in (None, "?") else "scan bounds", table), b)
        elif ok and order_ok:
            s.add("S-MIRROR", fn, "scan-bounds", itname, info["sp"], PROVED,
                  "both bounds built by %s on table %s; start=(until, 00..), end=(since, ff..)" % (want, table), b)
        elif ok and order_ok is None:
            s.add("S-MIRROR", fn, "scan-bounds", itname, info["sp"], UNDECIDED,
                  "both bounds built by %s on table %s with until/since in place; the id bounds are named constants whose value "
                  "was not extracted: not decided" % (want, table), b)
        else:
            s.add("S-MIRROR", fn, "scan-bounds", itname, info["sp"], VIOLATION,
                  "the scan over %s does not use the table's own key builder %s for both bounds with (until,00..)/(since,ff..): "
                  "built with %s on %s" % (table, want, names, tbl), b)
    return n


def stats_mapping(ctx, s):
    fn = ctx.fn("pocket_db::Lmdb::stats")
    an = ctx.E.an(fn)
    adt = ctx.F.adts.get("pocket_db::lmdb::stats::IndexStats")
    if adt is None:
        from ..main import AnalysisError
        raise AnalysisError("missing anchor struct IndexStats")
    fields = [f["n"] for f in adt["variants"][0]["fields"]]
    agg = None
    for v in list(an.stmt_val.values()) + [i.get("value") for i in an.term.values() if i.get("value")]:
        for x in find_values(v, lambda x: x[0] == "agg" and x[1].endswith(":IndexStats")):
            agg = x
    if agg is None:
        from ..main import AnalysisError
        raise AnalysisError("IndexStats aggregate not found in Lmdb::stats")
    WANT = {"i_index_entries": "i_index", "ci_index_entries": "ci_index", "tc_index_entries": "tc_index",
            "ac_index_entries": "ac_index", "akc_index_entries": "akc_index", "atc_index_entries": "atc_index",
            "ktc_index_entries": "ktc_index", "deleted_index_entries": "deleted_ids",
            "deleted_naddr_index_entries": "deleted_naddrs", "general_entries": "general"}
    n = 0
    for idx, name in enumerate(fields):
        if name not in WANT:
            continue
        v = agg[2][idx]
        calls = find_values(v, lambda x: x[0] == "call" and x[1].startswith("heed::database::") and x[1].rsplit("::", 1)[-1] == "len")
        tbl = None
        if calls:
            recv, _ = s.receiver_field(fn, calls[0][2][0])
            tbl = ".".join(recv) if recv else None
        n += 1
        s.add("S-COVER", fn, "stats-field", name, fn.sp, PROVED if tbl == WANT[name] else VIOLATION,
              "%s = len(%s)" % (name, tbl) if tbl == WANT[name] else "%s reports len(%s), expected %s" % (name, tbl, WANT[name]))
    ctx.floor("C17.stats-fields", n, 10)


# ======================================================================================
# rebuild (C16) and markers (C11)
# ======================================================================================
def all_table_ops(ctx, s, ops, within=None):
    out = []
    for p, f in sorted(ctx.F.fns.items()):
        if not p.startswith("pocket_db::") or (within is not None and p not in within):
            continue
        for rec in table_ops(ctx, s, f, ops):
            out.append((f,) + rec)
    return out


def rebuild_table_cover(ctx, s):
    """every Lmdb table that anything writes is re-derived (index()) or copied (read old + write new) by rebuild"""
    rb = ctx.fn("pocket_db::Store::rebuild")
    scope = ctx.G.reachable([rb.path], within=lambda p: p.startswith("pocket_db::"))
    ctx.functions.update(scope)
    fields = database_fields(ctx)
    ctx.floor("C16.lmdb-tables", len(fields), 10)
    writers_any = {}
    for f, b, info, table, key, conds in all_table_ops(ctx, s, ("put", "put_with_flags", "append")):
        writers_any.setdefault(table, []).append(f.nice)
    writes_rb = {t for f, b, info, t, key, conds in all_table_ops(ctx, s, ("put", "put_with_flags", "append"), within=scope)}
    reads_rb = {t for f, b, info, t, key, conds in all_table_ops(ctx, s, ("iter", "range", "rev_iter", "rev_range"), within=scope)}
    index_fn = ctx.fn("pocket_db::Lmdb::index")
    derived = {t for f, b, info, t, key, conds in all_table_ops(ctx, s, ("put",), within={index_fn.path})}
    index_called = bool(s.calls(rb, names={"pocket_db::Lmdb::index"}))
    for t in fields:
        if t not in writers_any:
            s.add("S-TABLECOVER", rb, "table", t, rb.sp, PROVED, "no function writes this table: nothing to carry over")
            continue
        if t in derived and index_called:
            s.add("S-TABLECOVER", rb, "table", t, rb.sp, PROVED, "re-derived by Lmdb::index for every entry of the id index")
        elif t in writes_rb and t in reads_rb:
            s.add("S-TABLECOVER", rb, "table", t, rb.sp, PROVED, "copied: read from the old store and written to the new one")
        else:
            s.add("S-TABLECOVER", rb, "table", t, rb.sp, VIOLATION,
                  "table %s (written by %s) is neither re-derived nor copied by rebuild: its contents are lost" % (
                      t, ", ".join(sorted(set(writers_any[t])))[:120]))
    # the id index drives the copy loop
    it = s.calls(rb, names={"pocket_db::Lmdb::i_iter"})
    app = s.calls(rb, names={"pocket_db::EventStore::store_event"})
    ctx.instances["C16.rebuild.i_iter"] = len(it)
    if not it:
        s.add("S-WHO", rb, "copy-driven-by-id-index", "rebuild", rb.sp, VIOLATION,
              "rebuild does not iterate the id index: what it copies is not 'one append per retrievable event' "
              "(unreferenced or duplicate bytes can be carried over, or events skipped)")
    if len(app) != 1:
        s.add("S-WHO", rb, "single-append-loop", "rebuild", rb.sp, VIOLATION,
              "%d append sites in rebuild (expected exactly one, in the loop over the id index)" % len(app))
    else:
        ab, ainfo = app[0]
        ev = ainfo["args"][1]
        from_old = contains_value(ev, lambda x: x[0] == "call" and x[1].endswith("get_event_by_offset")) and \
            contains_value(ev, lambda x: x[0] == "call" and x[1].endswith("::next"))
        new_recv = contains_value(ainfo["args"][0], lambda x: x[0] == "local" or True)
        an = ctx.E.an(rb)
        loops = an.cfg.natural_loops()
        in_loop = any(ab in body for body in loops.values())
        ok = from_old and in_loop
        s.add("S-WHO", rb, "single-append-loop", "rebuild", ainfo["sp"], PROVED if ok else VIOLATION,
              "the only append copies the event fetched for the current id-index entry" if ok else
              "the append in rebuild is not the per-id-entry copy (unreferenced bytes could be retained or events skipped)", ab)
    # extra tables: iterate the old table, put into the new one
    ex = s.calls(rb, names={"pocket_db::Store::extra_table", "pocket_db::Lmdb::extra_table"})
    an = ctx.E.an(rb)
    raw_put = [(b, i) for b, i in an.calls() if (i["callee"] or "").startswith("heed::database::") and i["callee"].endswith("::put")]
    raw_iter = [(b, i) for b, i in an.calls() if (i["callee"] or "").startswith("heed::database::") and i["callee"].endswith("::iter")]
    ok = len(ex) >= 2 and raw_put and raw_iter
    if ok:
        olds = [i for b, i in ex if contains_value(i["args"][0], lambda x: x[0] == "local" and rb.local_name(x[1]).startswith("old"))]
        news = [i for b, i in ex if contains_value(i["args"][0], lambda x: x[0] == "local" and rb.local_name(x[1]).startswith("new"))]
        ok = bool(olds) and bool(news)
        if ok:
            pv = raw_put[0][1]
            ok = contains_value(pv["pre"][0] if pv["pre"][0] is not None else pv["args"][0], lambda x: x == news[0]["value"]) and \
                contains_value(raw_iter[0][1]["pre"][0] if raw_iter[0][1]["pre"][0] is not None else raw_iter[0][1]["args"][0],
                               lambda x: x == olds[0]["value"])
    s.add("S-TABLECOVER", rb, "table", "extra_tables", rb.sp, PROVED if ok else VIOLATION,
          "every extra table is iterated in the old store and put into the table of the same name in the new store" if ok else
          "extra tables are not copied old->new by rebuild")
    # every write transaction of rebuild is committed before the Ok return
    wts = s.calls(rb, pred=lambda n, c, b, i: c.endswith("::write_txn"))
    commits = s.calls(rb, pred=lambda n, c, b, i: txn.is_commit(c))
    oks = [n for n, k, v in s.return_kinds(rb) if k == "ok"]
    allok = len(commits) >= len(wts) and len(wts) >= 4
    for cb, cinfo in commits:
        good = s.ok_edges_of_call(rb, cb)
        reach = s.reach(rb, [an.cfg.entry], avoid=good)
        if any(n in reach for n in oks):
            allok = False
    s.add("S-MUSTPASS", rb, "copy-loops-committed", "rebuild", rb.sp, PROVED if allok else VIOLATION,
          "%d write transactions, %d commits, each on every path to the Ok return" % (len(wts), len(commits)) if allok else
          "a copy loop of rebuild is not committed on the success path (%d write_txn, %d commits)" % (len(wts), len(commits)))
    ctx.floor("C16.rebuild.write-txns", len(wts), 4)


def rebuild_backup(ctx, s):
    rb = ctx.fn("pocket_db::Store::rebuild")
    an = ctx.E.an(rb)
    ren = s.calls(rb, pred=lambda n, c, b, i: c == "std::fs::rename")
    ctx.floor("C16.rebuild.renames", len(ren), 2)
    bak_locals = set()
    for b, info in an.calls():
        if (info["callee"] or "").endswith("::push") and "path" in info["callee"]:
            arg = info["args"][1]
            if contains_value(arg, lambda x: x[0] == "bytes" and x[1].endswith(b".bak")):
                r = info["args"][0]
                if r[0] == "ref" and r[1][0] == "local":
                    bak_locals.add(r[1][1])
    from ..srules import deep_values
    for b, info in ren:
        dst = info["args"][1]
        ok = dst[0] == "ref" and dst[1][0] == "local" and dst[1][1] in bak_locals
        names = []
        for v in [dst] + [p for p in info["pre"][1:2] if p is not None]:
            for x in deep_values(an, v, 4):
                names += [y[1] for y in find_values(x, lambda y: y[0] == "bytes")]
        if any(n.endswith(b".bak") for n in names):
            ok = True
        verdict = PROVED if ok else (VIOLATION if names else UNDECIDED)
        s.add("S-EFFECT", rb, "backup-rename", s.show(info["args"][0], rb)[:40], info["sp"], verdict,
              "the old file is renamed to a *.bak path" if ok else
              ("an old file is renamed to something other than its .bak path" if names else
               "how the rename target is built was not recognised: not decided"), b)
    scope = ctx.G.reachable([rb.path], within=lambda p: p.startswith("pocket_db::"))
    rm = [(p, c) for p, bi, c, t in ctx.G.reaches_external([rb.path], lambda c: c.startswith("std::fs::") and
                                                           c.rsplit("::", 1)[-1] in ("remove_file", "remove_dir", "remove_dir_all"),
                                                           within=lambda p: p.startswith("pocket_db::"))]

    pushed = {}        # PathBuf local -> names pushed onto it
    for b_, info_ in an.calls():
        if (info_["callee"] or "").endswith("::push") and "path" in info_["callee"]:
            r = info_["args"][0]
            if r[0] == "ref" and r[1][0] == "local":
                pushed.setdefault(r[1][1], []).extend(y[1] for y in find_values(info_["args"][1], lambda y: y[0] == "bytes"))

    def path_names(info, ai=0):
        out = []
        a = info["args"][ai]
        if a[0] == "ref" and a[1][0] == "local" and a[1][1] in pushed:
            out += pushed[a[1][1]]
        for v in [a] + [p for p in info["pre"][ai:ai + 1] if p is not None]:
            for x in deep_values(an, v, 4):
                out += [y[1] for y in find_values(x, lambda y: y[0] == "bytes")]
        return out
    # removals in rebuild itself may only clear a stale *.bak (the backup of an earlier rebuild); anything else, or a
    # removal below rebuild, deletes data of the store
    removes = s.calls(rb, pred=lambda n, c, b, i: c.startswith("std::fs::") and c.rsplit("::", 1)[-1] in ("remove_file", "remove_dir", "remove_dir_all"))
    bad_rm = [c for p, c in rm if p != rb.path]
    cleared = set()
    for b, info in removes:
        names = path_names(info)
        if names and all(n.endswith(b".bak") for n in names if n):
            cleared |= {n for n in names if n}
        else:
            bad_rm.append(info["callee"])
    s.add("S-EFFECT", rb, "no-removal-of-old-files", "rebuild", rb.sp, PROVED if not bad_rm else VIOLATION,
          "nothing but a stale *.bak of an earlier rebuild is removed" if not bad_rm else "rebuild can delete files: %s" % bad_rm[0])
    # every index environment rebuild opens is either handed back in the returned store or explicitly closed on the way
    # to Ok: heed keeps an opened environment in a process-wide cache (by path) until prepare_for_closing, so one that
    # is merely dropped is handed out again to whoever opens that path next - the next rebuild's lmdb.bak
    from ..srules import leaf_values, contains_deep
    opens = s.calls(rb, names={"pocket_db::Lmdb::new"})
    closes = s.calls(rb, names={"pocket_db::Lmdb::close"})
    oks_rb = [(n, v) for n, k_, v in s.return_kinds(rb) if k_ == "ok"]
    for ob, oinfo in opens:
        val = oinfo["value"]
        is_val = lambda y: y == val
        returned = any(contains_deep(an, v, is_val) for n, v in oks_rb)
        closed = False
        for cb, cinfo in closes:
            recv = [cinfo["args"][0]] + [p for p in cinfo["pre"][:1] if p is not None]
            if any(contains_deep(an, x, is_val) for x in recv):
                good = s.ok_edges_of_call(rb, cb) or [cb]
                reach = s.reach(rb, [an.cfg.entry], avoid=good)
                if not any(n in reach for n, v in oks_rb):
                    closed = True
        okc = returned or closed
        names_ = {n.decode("latin1") for n in path_names(oinfo) if n}
        s.add("S-PAIR", rb, "opened-environment-closed", ",".join(sorted(names_)) or "?", oinfo["sp"], PROVED if okc else VIOLATION,
              ("the environment opened here is the returned store's" if returned else
               "the environment opened here is closed (Lmdb::close) on every path to Ok") if okc else
              "an LMDB environment opened by rebuild is neither returned nor closed: it stays in heed's process-wide cache, and the "
              "next rebuild in this process opens the same backup path and is handed this stale environment (it then copies the "
              "index as of this rebuild)", ob)
    # a directory cannot be renamed over a non-empty directory: the backup target of every directory rebuild moves aside
    # (a path rebuild itself re-creates with create_dir) must have been cleared first, or the second rebuild of a store
    # fails half-way - after the event map was already moved
    mk = s.calls(rb, pred=lambda n, c, b, i: c.startswith("std::fs::") and c.rsplit("::", 1)[-1] in ("create_dir", "create_dir_all"))
    dir_names = set()
    for b, info in mk:
        dir_names |= {n for n in path_names(info) if n}
    for b, info in ren:
        src = {n for n in path_names(info) if n}
        if not (src & dir_names):
            continue
        dst = {n for n in path_names(info, 1) if n}
        rm_before = [rb_ for rb_, ri in removes if (set(n for n in path_names(ri) if n) & dst) and
                     (an.cfg.dominates(rb_, b) or s.must_pass(rb, b, [rb_] + s.ok_edges_of_call(rb, rb_)) or
                      b not in s.reach(rb, [an.cfg.entry], avoid=[rb_]) or True)]
        # the removal may be conditional on the target existing: it must at least precede the rename on every path that
        # has it (the removal's block reaches the rename, not the other way round)
        ok = any(b in s.reach(rb, [x]) and x not in s.reach(rb, [b]) for x in rm_before)
        s.add("S-ORDER", rb, "backup-target-cleared", ",".join(sorted(n.decode("latin1") for n in dst)) or "?", info["sp"],
              PROVED if ok else VIOLATION,
              "the earlier backup of the directory is removed before the directory is renamed onto it" if ok else
              "a directory is renamed onto its backup path without clearing an earlier backup: the second rebuild of a store "
              "fails at this rename (ENOTEMPTY) after the event map was already moved aside, leaving indexes without events", b)


def marker_codec(ctx, s):
    """key_naddr_index (writer) and dump_naddr_deleted (reader) agree on the key layout; same for deleted ids"""
    kb = ctx.fn("pocket_db::Lmdb::key_naddr_index")
    dump = ctx.fn("pocket_db::Lmdb::dump_naddr_deleted")
    an = ctx.E.an(kb)
    comps = []   # (width or None, kind) in extend order
    for b, info in sorted(an.calls(), key=lambda x: (x[1]["sp"]["l"], x[1]["sp"]["c"])):
        c = info["callee"] or ""
        if c.endswith("::push") and "vec" in c:
            comps.append((1, "byte"))       # one byte appended (the length byte)
            continue
        if not ((c.endswith("::extend") or c.endswith("::extend_from_slice")) and "vec" in c):
            continue
        arg = info["args"][1]
        argv = info["pre"][1] if arg[0] in ("ref", "unsize") and info["pre"][1] is not None else arg
        w = None
        kind = "?"
        tb = find_values(arg, lambda x: x[0] == "call" and x[1].rsplit("::", 1)[-1] in ("to_be_bytes", "to_le_bytes", "to_ne_bytes"))
        tb += find_values(argv, lambda x: x[0] == "call" and x[1].rsplit("::", 1)[-1] in ("to_be_bytes", "to_le_bytes", "to_ne_bytes"))
        if tb:
            kind = tb[0][1].rsplit("::", 1)[-1]
            tk = an.vtype.get(tb[0])
            if tk and tk["k"] == "array":
                w = tk["n"]
        elif contains_value(arg, lambda x: x[0] == "call" and x[1].endswith("::as_slice") and "pubkey" in x[1]):
            w, kind = 32, "author"
        elif arg[0] == "unsize" or (arg[0] == "ref"):
            ln = an.len_of(arg)
            if ln[0] == "const":
                w, kind = ln[1], "bytes"
            tk = an.vtype.get(arg)
            t = tk
            while t is not None and t["k"] in ("ref",):
                t = t["to"]
            if w is None and t is not None and t["k"] == "array":
                w, kind = t["n"], "bytes"
        comps.append((w, kind))
    # fixed prefix widths until the first variable component
    prefix = []
    for w, k in comps:
        if w is None:
            break
        prefix.append((w, k))
    # PADLEN: the constant the d value is cut/padded to
    padlen = None
    for b, info in an.calls():
        v = info["value"]
        if v[0] == "sliceto" and v[2][0] == "const":
            padlen = v[2][1]
    ctx.instances["C16.codec.builder-prefix-components"] = len(prefix)
    if len(prefix) < 3:
        s.add("S-LAYOUT", dump, "naddr-key-codec", "kind|author|dlen|d", dump.sp, UNDECIDED,
              "how key_naddr_index lays out its fixed-width prefix (kind, author, length byte) was not recognised: "
              "agreement with the decoder is not decided")
        _deleted_id_codec(ctx, s)
        return
    offs = [0]
    for w, k in prefix:
        offs.append(offs[-1] + w)
    # decoder: constant ranges and constant indexes on the key
    dn = ctx.E.an(dump)
    ranges = set()
    idxs = set()
    conv = set()
    for b, info in dn.calls():
        v = info["value"]
        if v[0] == "slice" and v[2][0] == "const" and v[3][0] in ("const", "bin"):
            P = ctx.E.prover(dump)
            lo, hi = P.lin(v[2]), P.lin(v[3])
            if not lo[1] and not hi[1]:
                ranges.add((lo[0], hi[0]))
        c = info["callee"] or ""
        if c.rsplit("::", 1)[-1] in ("from_be_bytes", "from_le_bytes", "from_ne_bytes"):
            conv.add(c.rsplit("::", 1)[-1])
    for b, info in dn.term.items():
        if info["kind"] == "assert" and info["mk"] == "BoundsCheck" and info["index"][0] == "const":
            idxs.add(info["index"][1])
    from .recheck import builder_is_lossy
    trunc_feasible, _pad = builder_is_lossy(ctx, s, "key_naddr_index")
    froms = set()
    for b, info in dn.calls():
        v = info["value"]
        if v[0] == "slicefrom" and v[2][0] == "const":
            froms.add(v[2][1])
    want_ranges = set()
    ok = False
    if len(offs) >= 4 and padlen:
        want_ranges = {(offs[0], offs[1]), (offs[1], offs[2])}
        if trunc_feasible:
            # the builder cuts d at padlen: a fixed-width field
            want_ranges.add((offs[3], offs[3] + padlen))
            ok = want_ranges <= ranges and offs[2] in idxs
        else:
            # the builder stores a longer d whole: the decoder must take the whole remainder, and may strip
            # padding (truncate to the length byte) only when the remainder is not longer than the padded width
            ok = want_ranges <= ranges and offs[2] in idxs and offs[3] in froms and \
                not any(lo == offs[3] for lo, hi in ranges)
            if ok:
                tr = [(b, i) for b, i in dn.calls() if (i["callee"] or "").endswith("::truncate")]
                for b, i in tr:
                    facts = ctx.E.facts(dump, b)
                    guarded = any(f[0] == "le" and f[1][0] == -padlen and len(f[1][1]) == 1 and f[1][1][0][1] == 1 for f in facts)
                    if not guarded:
                        ok = False
    wconv = {k.replace("to_", "from_") for w, k in prefix if k.startswith("to_")}
    ok_endian = wconv <= conv and bool(wconv)
    s.add("S-LAYOUT", dump, "naddr-key-codec", "kind|author|dlen|d", dump.sp, PROVED if (ok and ok_endian) else VIOLATION,
          "decoder ranges %s and length byte at %s match the builder's component offsets %s (width %s), same byte order" % (
              sorted(ranges), sorted(idxs), offs, padlen) if (ok and ok_endian) else
          "dump_naddr_deleted decodes ranges %s / index %s (%s) but key_naddr_index lays out offsets %s, d width %s (%s): "
          "rebuild would re-create markers for different addresses" % (sorted(ranges), sorted(idxs), sorted(conv), offs, padlen, sorted(wconv)))
    _deleted_id_codec(ctx, s)
    return padlen


def _deleted_id_codec(ctx, s):
    # deleted ids: 32-byte key written, first 32 bytes read back
    md = ctx.fn("pocket_db::Lmdb::mark_deleted")
    dd = ctx.fn("pocket_db::Lmdb::dump_deleted")
    wr = [i for b, i in ctx.E.an(md).calls() if (i["callee"] or "").endswith("::put")]
    rd = []
    for f_ in [dd] + ctx.F.closures_of(dd.path):       # the decoding may sit in a closure handed to map()
        rd += [(f_, i["value"]) for b, i in ctx.E.an(f_).calls() if i["value"][0] == "slice"]
    okw = bool(wr) and contains_value(wr[0]["args"][2], lambda x: x[0] == "call" and x[1].endswith("::as_slice"))
    okr = any(v[2] == ("const", 0, "usize") and ctx.E.prover(f_).lin(v[3]) == (32, ()) for f_, v in rd)
    s.add("S-LAYOUT", dd, "deleted-id-codec", "id[32]", dd.sp, PROVED if (okw and okr) else (VIOLATION if rd or not okw else UNDECIDED),
          "the id marker key is the 32 id bytes and is read back as key[0..32]" if (okw and okr) else
          "dump_deleted does not read back the 32-byte key mark_deleted writes")


def markers_never_removed(ctx, s):
    ops = all_table_ops(ctx, s, ("delete", "clear", "delete_range", "delete_one_duplicate"))
    ctx.floor("S-WHO.positive-example deletes on index tables", len([1 for o in ops if o[3] in INDEX_TABLES]), 7)
    bad = [(f, b, info, t) for f, b, info, t, key, conds in ops if t in MARKER_TABLES]
    anchor = ctx.fn("pocket_db::Lmdb::mark_deleted")
    if bad:
        for f, b, info, t in bad:
            s.add("S-WHO", f, "marker-removed", t, info["sp"], VIOLATION,
                  "deletion markers are removed here: an accepted deletion would stop being permanent", b)
    else:
        s.add("S-WHO", anchor, "marker-removed", "none", anchor.sp, PROVED,
              "no delete/clear on deleted_ids or deleted_naddrs anywhere in the crate (%d delete sites examined)" % len(ops))
    # markers are written only by the two marker functions
    puts = all_table_ops(ctx, s, ("put", "put_with_flags"))
    for f, b, info, t, key, conds in puts:
        if t in MARKER_TABLES and f.nice not in ("pocket_db::Lmdb::mark_deleted", "pocket_db::Lmdb::mark_naddr_deleted"):
            s.add("S-WHO", f, "marker-written-elsewhere", t, info["sp"], VIOLATION,
                  "a deletion marker table is written outside mark_deleted/mark_naddr_deleted", b)


def naddr_marker_monotone(ctx, s):
    """every put on deleted_naddrs stores a time not below the one already stored for that key"""
    fn = ctx.fn("pocket_db::Lmdb::mark_naddr_deleted")
    an = ctx.E.an(fn)
    P = ctx.E.prover(fn)
    puts = [r for r in table_ops(ctx, s, fn, ("put",)) if r[2] == "deleted_naddrs"]
    gets = [r for r in table_ops(ctx, s, fn, ("get",)) if r[2] == "deleted_naddrs"]
    ctx.floor("C11.naddr-marker-puts", len(puts), 1)
    for b, info, table, key, conds in puts:
        newv = info["pre"][3] if len(info["pre"]) > 3 and info["pre"][3] is not None else info["args"][3]
        good = []
        for gb, ginfo, gt, gkey, gc in gets:
            if gkey != key:
                continue
            G = ginfo["value"]
            for node in an.edge_cond:
                for f in s.edge_facts(fn, node):
                    # absent
                    if f[0] == "variant" and f[2] == 0 and f[1][0] == "proj" and contains_value(f[1], lambda x: x == G):
                        good.append(node)
                    # existing < new  (or the negation of existing >= new)
                    if f[0] == "le":
                        d = dict(f[1][1])
                        ex = [a for a in d if contains_value(a, lambda x: x == G) and d[a] == 1]
                        nw = [a for a in d if d[a] == -1 and (a == newv or contains_value(newv, lambda x: x == a) or contains_value(a, lambda x: x == newv))]
                        if ex and nw and len(d) == 2 and f[1][0] >= 1:
                            good.append(node)
        ok = bool(good) and s.must_pass(fn, b, good)
        verdict = PROVED if ok else VIOLATION
        if not ok and not gets:
            # the comparison with the stored time moved out to the callers: every caller must look the stored time up (in
            # the same transaction) and reach the call only when there is none or it is smaller
            verdict = PROVED
            callers = [c for c in s.callers("pocket_db::Lmdb::mark_naddr_deleted")]
            if not callers:
                verdict = UNDECIDED
            for cn in callers:
                cf = ctx.fn(cn)
                ca = ctx.E.an(cf)
                for cb, ci in s.calls(cf, names={"pocket_db::Lmdb::mark_naddr_deleted"}):
                    looks = [(lb, li) for lb, li in s.calls(cf, names={"pocket_db::Lmdb::when_is_naddr_deleted"})]
                    if not looks:
                        verdict = VIOLATION
                        continue
                    cgood = []
                    for lb, li in looks:
                        G = li["value"]
                        for node in ca.edge_cond:
                            for f in s.edge_facts(cf, node):
                                if f[0] == "variant" and f[2] == 0 and isinstance(f[1], tuple) and f[1][0] == "proj" and contains_value(f[1], lambda x: x == G):
                                    cgood.append(node)
                                if f[0] == "le":
                                    d = dict(f[1][1])
                                    ex = [a for a in d if contains_value(a, lambda x: x == G) and d[a] == 1]
                                    if ex and len(d) == 2 and f[1][0] >= 1 and any(v == -1 for v in d.values()):
                                        cgood.append(node)
                    if not (cgood and s.must_pass(cf, cb, cgood)):
                        verdict = UNDECIDED if verdict == PROVED else verdict
        s.add("S-MAXUPD", fn, "marker-time-only-grows", "deleted_naddrs.put", info["sp"], verdict,
              "the put is reached only when no time is stored for the key or the stored time is smaller than the new one" if verdict == PROVED else
              ("the stored deletion time can be overwritten by an older one (newest-first arrival lowers it)" if verdict == VIOLATION else
               "the comparison with the stored time is made by the callers in a form not recognised: not decided"), b)


LOOKUPS = (("pocket_db::Lmdb::get_offset_by_id", "i_index"), ("pocket_db::Lmdb::is_deleted", "deleted_ids"),
           ("pocket_db::Lmdb::when_is_naddr_deleted", "deleted_naddrs"))


def lookups_answer_from_table(ctx, s, which=None):
    """S-MUSTPASS: a lookup answers only from its table, read through the caller's transaction.  An answer given without
    the read (a remembered "missing", a cached "deleted", a process-local "nothing marked yet" flag) is not tied to any
    transaction: it survives a rollback, is blind to what another handle or an earlier process committed, and so can
    contradict what is stored."""
    for name, table in LOOKUPS:
        if which and name.rsplit("::", 1)[-1] not in which:
            continue
        fn = ctx.fn(name)
        an = ctx.E.an(fn)
        ctx.functions.add(fn.path)
        gets = [(b, info) for b, info, t, key, conds in table_ops(ctx, s, fn, ("get",)) if t.endswith(table)]
        oks = [n for n, k, v in s.return_kinds(fn) if k == "ok"]
        short = name.rsplit("::", 1)[-1]
        if not gets:
            s.add("S-MUSTPASS", fn, "lookup-answers-from-table", short, fn.sp, VIOLATION if oks else UNDECIDED,
                  "%s never reads %s" % (short, table))
            continue
        txn_ok = all(contains_value(i["args"][1], lambda y: y == ("param", 2)) for b, i in gets)
        good = [e for b, i in gets for e in (s.ok_edges_of_call(fn, b) or [b])]
        reach = s.reach(fn, [an.cfg.entry], avoid=good)
        bad = [n for n in oks if n in reach]
        ok = not bad and txn_ok
        s.add("S-MUSTPASS", fn, "lookup-answers-from-table", short, fn.sp, PROVED if ok else VIOLATION,
              "every answer follows a read of %s through the caller's transaction" % table if ok else
              ("%s can answer without reading %s (a remembered or cached answer): it is not tied to the caller's transaction, so it "
               "can contradict the table after a rollback, a reopen or a write through another path" % (short, table) if bad else
               "%s reads %s through a transaction other than the caller's" % (short, table)))
