"""C17 - every access path agrees and index accounting never leaks."""
from ..srules import S
from . import tables, txn
from .recheck import lossy_rechecks

EXPLANATION = (
    "Decides that insertion and removal are mirror images over all seven index tables: for each table the "
    "multiset of (key builder, canonical argument expressions, enclosing data conditions) of the put calls in "
    "Lmdb::index equals that of the delete calls in deindex/deindex_id; the four per-event entries (id, time, "
    "author, author-kind) lie on every success path of index() and of removal, remove_by_offset always calls both "
    "halves, and index tables are modified nowhere else (all removal paths funnel through remove_by_offset); each "
    "range scan builds both bounds with the table's own key builder with (until,00..) as start and (since,ff..) as "
    "end; each statistics field reports the length of the table of the same name; scans over padded/truncated tag "
    "keys re-verify the full value before acting. Agreement of all filter shapes over all histories is not decided.")
EXPLANATION += ' Also decided: in every caller, Ok-outcomes of deindex and deindex_id alternate on every path to Ok and address the same event.'
EXPLANATION += ' Also decided: a scan bound assembled by hand over a table whose key builder cuts the value at a fixed width does not take the whole of an unbounded value.'
ASSUMPTIONS = []


def run(ctx):
    s = S(ctx)
    puts, dels = tables.mirror(ctx, s)
    tables.unconditional_entries(ctx, s, puts, dels)
    tables.removal_funnel(ctx, s)
    tables.scan_builders(ctx, s, puts)
    tables.stats_mapping(ctx, s)
    lossy_rechecks(ctx, s)
    from . import C05 as q
    fe = ctx.fn(q.FIND)
    filt = None
    for i in range(1, fe.argc + 1):
        if fe.locals[i]["ty"]["s"].endswith("Filter"):
            filt = ("param", i)
    q.other_exits(ctx, s, fe, filt)
    q.drain(ctx, s, fe)
