"""C01 - event JSON parsing is faithful to an independent JSON parser."""
from ..srules import S, find_values, contains_value
from ..guard import PROVED, VIOLATION, UNDECIDED
from .common import g_obligations
from . import parsers, escaping

EXPLANATION = (
    "Decides the clauses of the statement that are visible in the shape of the parser: integer members cannot wrap "
    "(no raw loop-carried arithmetic in read_u64/read_kind, kind narrowed only under value <= 65535); the member "
    "dispatcher keeps one one-bit flag per NIP-01 member name (exactly the seven names), sets a flag only after its "
    "duplicate test and after the member's reader succeeded, and succeeds only when all seven are set; content that "
    "precedes tags is deferred and its flag is set only after read_content ran; unknown members are skipped (rest of "
    "name, colon, value) without consuming the opening quote twice, and the value skipper dispatches on exactly "
    "FIRST(JSON value); the reported consumed length is the cursor left by the closing-brace test; what json_unescape writes is at every write a constant byte of the escape table, input bytes copied verbatim, or encode_utf8's encoding of a \\u code point (a computed value stored as one byte must be proved below 0x80). That accessor "
    "values equal an independent parser's on all texts is not decided.")
EXPLANATION += " Also decided: every path of parse_json_event to Ok passes the parser's own recognition of the closing brace (no hand-over of the rest of the object to a skipper); json_unescape hands a \\\\u value to encode_utf8 only after testing it against D800..DFFF; a piece of the JSON text reaches the packed form without json_unescape only under a scan (evaluated for all 256 byte values) that admits no backslash, quote or control character."
ASSUMPTIONS = []

READERS = {b'id"': [parsers.JP + "read_id"], b'pubkey"': [parsers.JP + "read_pubkey"], b'sig"': [parsers.JP + "read_sig"],
           b'kind"': [parsers.JP + "read_kind"], b'created_at"': [parsers.JP + "read_u64"],
           b'tags"': [parsers.JP + "read_tags_array"], b'content"': [parsers.JP + "read_content"]}


def run(ctx):
    s = S(ctx)
    fn = ctx.fn(parsers.EVENT_PARSER)
    # 1. integers never wrap
    scope = {ctx.fn(parsers.JP + "read_u64").path, ctx.fn(parsers.JP + "read_kind").path}
    ctx.functions.update(scope)
    obs = g_obligations(ctx, scope, ("arith", "cast", "index"))
    ctx.floor("C01.integer-reader-sites", len(obs), 2)
    for o in obs:
        ctx.add(o)
    # checked accumulation present (a reader that silently stopped accumulating would also have no raw arithmetic)
    for name in ("read_u64", "read_kind"):
        f = ctx.fn(parsers.JP + name)
        an = ctx.E.an(f)
        chk = [c for b, c in an.calls() if (c["callee"] or "").rsplit("::", 1)[-1] in ("checked_mul", "checked_add")]
        cl = []
        for cf in ctx.F.closures_of(f.path):
            ctx.functions.add(cf.path)
            cl += [c for b, c in ctx.E.an(cf).calls() if (c["callee"] or "").rsplit("::", 1)[-1] in ("checked_mul", "checked_add")]
        raw = [o for o in obs if o.fn == f.path and o.rule == "G-NOWRAP" and o.kind in ("mul", "add") and "value" in o.desc]
        ok = (len(chk) + len(cl) >= 2) or any(o.verdict == PROVED for o in raw)
        s.add("S-REL", f, "accumulates-base-10", name, f.sp, PROVED if ok else VIOLATION,
              "value*10+digit is computed with overflow detection" if ok else "the digit accumulation is missing or unchecked")
    # 2/3. dispatcher
    parsers.member_flags(ctx, s, parsers.EVENT_PARSER, "complete", parsers.EVENT_NAMES)
    parsers.reader_before_flag(ctx, s, parsers.EVENT_PARSER, "complete", READERS)
    n = parsers.quote_state(ctx, s, parsers.EVENT_PARSER)
    ctx.floor("C01.calls-after-open-quote", n, 1)
    parsers.fallthrough_skips_member(ctx, s, parsers.EVENT_PARSER)
    parsers.object_left_at_close_brace(ctx, s, parsers.EVENT_PARSER)
    parsers.skipper_first_set(ctx, s)
    parsers.literal_skippers_advance(ctx, s)
    escaping.unescape_writes(ctx, s)
    escaping.surrogates_refused(ctx, s)
    escaping.raw_input_copies(ctx, s, [parsers.EVENT_PARSER, parsers.JP + "read_content", parsers.JP + "read_tags_array"])
    escaping.utf8_width_table(ctx, s)
    # 4. consumed length
    an = ctx.E.an(fn)
    oks = [(n_, v) for n_, k, v in s.return_kinds(fn) if k == "ok"]
    good = False
    for n_, v in oks:
        payload = v[2][0]
        first = payload[2][0] if payload[0] == "agg" else None
        if first is not None and first[0] == "clob":
            site = first[1]
            info = an.term.get(site[1])
            if info and s.nice(info["callee"] or "") == parsers.JP + "next_object_field":
                # reached through the `true` outcome (closing brace seen)
                if any(f[0] == "true" and contains_value(f[1], lambda x: x == info["value"]) for f in ctx.E.facts(fn, n_)):
                    good = True
    # recognisably wrong: the consumed length is a constant or the input length; anything else that is not the recognised
    # shape (e.g. the cursor carried out of a flag-controlled loop) is not decided
    wrong = False
    for n_, v in oks:
        payload = v[2][0]
        first = payload[2][0] if payload[0] == "agg" else None
        if first is not None and (first[0] == "const" or first[0] == "len"):
            wrong = True
    s.add("S-MUSTPASS", fn, "consumed-is-cursor-after-brace", "Ok((inpos, ..))", fn.sp,
          PROVED if good else (VIOLATION if wrong else UNDECIDED),
          "the consumed length is the cursor left by next_object_field when it saw the closing brace" if good else
          "the consumed length is not the cursor position just past the closing brace")
