"""C03 - all parsers are total and memory-safe on arbitrary bytes and buffer sizes."""
from .common import roots, scope_of, g_obligations, simple_ob
from ..guard import PROVED, VIOLATION, UNDECIDED, short
from ..prove import lin_add, lin_const, lin_atoms
from ..sym import walk

EXPLANATION = (
    "Decides, for every partial operation (index, slice, raw arithmetic, narrowing cast, shift, explicit "
    "panic/unwrap, unchecked access) in the call-graph closure of the parsing entry points, whether a guard "
    "dominates it on every CFG path (dataflow over SSA-like value expressions, linear facts from dominating "
    "branch edges, callee postcondition summaries proved from the callee bodies, inductive loop invariants). "
    "Also: loop progress, recursion (a depth-counter comparison guards the cycle, and every call cycle of the recursive component contains an edge that passes caller-depth + c, c >= 1; or, mirrored, a budget that every cycle lowers behind a budget >= 1 guard and every outside caller sets to a constant), and that the reported consumed length is bounded by the input length. "
    "It does NOT decide accessor totality on parsed values (index sites driven by stored offsets are UNDECIDED) "
    "nor UTF-8 validity of unescaped output.")
EXPLANATION += ' Also decided: raw block copies (ptr::copy_nonoverlapping and friends) stay inside the slice their destination pointer was taken from; a length test that compares the same quantities as an open bound with a smaller constant is reported as a violation with the size of the window.'
EXPLANATION += ' Also decided: read_tags_array proves the offset slot of every tag inside the table sized by its counting pass and returns Ok only when the tags read equal the tags counted.'
ASSUMPTIONS = ["A1: usize cursor/size arithmetic does not overflow (lengths <= isize::MAX)"]

ENTRY = [
    "pocket_types::Event::from_json",
    "pocket_types::Filter::from_json",
    "pocket_types::Tags::from_json",
    "pocket_types::Addr::try_from_bytes",
    "pocket_types::Hll8::from_hex_string",
    "pocket_types::Id::read_hex",
    "pocket_types::Pubkey::read_hex",
    "pocket_types::Sig::read_hex",
    "pocket_types::json::json_escape::json_unescape",
    "pocket_types::json::json_escape::json_escape",
]

CLASSES = ("index", "slice", "arith", "cast", "shift", "div", "panic")


def run(ctx):
    rts = roots(ctx, ENTRY)
    sc = scope_of(ctx, rts, within=lambda p: p.startswith("pocket_types::"))
    ctx.floor("C03.scope-functions", len(sc), 20)
    obs = g_obligations(ctx, sc, CLASSES)
    n_sites = len(obs)
    ctx.floor("C03.partial-operation-sites", n_sites, 100)
    for o in obs:
        ctx.add(o)
    for o in progress_obligations(ctx, sc):
        ctx.add(o)
    for o in recursion_obligations(ctx, sc):
        ctx.add(o)
    for o in consumed_obligations(ctx):
        ctx.add(o)
    for o in unchecked_obligations(ctx, sc):
        ctx.add(o)
    from . import layout
    from ..srules import S as _S
    layout.tag_count_agreement(ctx, _S(ctx))
    witnesses(ctx)


W_C03 = {
    "DelineateIsUnsafe": "Event::delineate cannot be called from safe code",
    "OtherDelineatesUnsafe": "Tags::delineate and Filter::delineate cannot be called from safe code",
    "EventBytesPrivate": "the byte field of Event is private: safe code obtains an &Event only from the constructors",
}


def witnesses(ctx):
    import os
    from .. import witness
    from ..main import AnalysisError
    res, out = witness.run(os.environ.get("PV_REPO", "/repo"))
    anchor = ctx.fn("pocket_types::Event::delineate")
    for name, what in W_C03.items():
        r = res.get(name)
        if r is None or not r["twin"] or not r["fail"]:
            raise AnalysisError("witness %s did not run: %s" % (name, out[-300:]))
        if not all(r["twin"]):
            raise AnalysisError("the compiling twin of witness %s does not compile" % name)
        ok = all(r["fail"])
        o = simple_ob("W-SAFETY", anchor, "witness", name, anchor.sp, PROVED if ok else VIOLATION,
                      what + " (rejected with the expected error code; twin compiles)" if ok else
                      "safe code can now build an Event/Tags/Filter view over arbitrary bytes: " + what + " no longer holds")
        ctx.add(o)


# ---------------------------------------------------------------------------------------
def progress_obligations(ctx, scope):
    """every loop either is driven by an iterator or strictly advances an unsigned cursor on
    every back edge"""
    E, F = ctx.E, ctx.F
    out = []
    for p in sorted(scope):
        fn = F.fns[p]
        an = E.an(fn)
        P = E.prover(fn)
        cfg = an.cfg
        loops = cfg.natural_loops()
        for H, body in sorted(loops.items()):
            sp = fn.blocks[H]["term"]["sp"]
            ctx.paths += 1
            # iterator driven?
            it = False
            for b in body:
                info = an.term.get(b)
                if info and info["kind"] == "call" and (info["base"] or "").endswith("Iterator::next"):
                    it = True
            desc = "loop@%s" % "+".join(sorted({E.stable(v, fn) for L, v in an.in_state[H].items()
                                                if v[0] == "phi" and v[1] == H and L[0] != "local" or
                                                (v[0] == "phi" and v[1] == H and L[0] == "local" and fn.locals[L[1]].get("n"))})[:4])
            if it:
                out.append(simple_ob("S-PROGRESS", fn, "loop", desc, sp, PROVED, "driven by a finite iterator", H))
                continue
            back = [e for e in cfg.in_edges[H] if e.src in body]
            cands = [(L, v) for L, v in an.in_state[H].items() if v[0] == "phi" and v[1] == H and
                     (an.vtype.get(v) or {}).get("k") == "uint"]
            proved = None
            stuck = None
            for L, phi in cands:
                ok = True
                for e in back:
                    st = an.out_state[e.src]
                    nv = an.read(st, L)
                    g = lin_add(lin_add(P.lin(phi), P.lin(nv), -1), lin_const(1))   # phi + 1 <= new
                    facts = E.facts(fn, e.node)
                    if not (P.prove_le0(g, facts) or E.prove_inductive(fn, g, e.node, facts)):
                        ok = False
                        break
                if ok:
                    proved = L
                    break
            if proved is not None:
                out.append(simple_ob("S-PROGRESS", fn, "loop", desc, sp, PROVED,
                                     "cursor %s strictly advances on every back edge" % E.stable(("init", proved), fn), H))
            else:
                # zero progress: some back edge leaves every unsigned loop variable unchanged and calls nothing
                zero = False
                for e in back:
                    st = an.out_state[e.src]
                    if cands and all(an.read(st, L) == phi for L, phi in cands):
                        calls = [b for b in body if an.term.get(b, {}).get("kind") == "call"]
                        if not calls:
                            zero = True
                if zero:
                    out.append(simple_ob("S-PROGRESS", fn, "loop", desc, sp, VIOLATION,
                                         "a back edge leaves every loop variable unchanged: non-termination", H))
                else:
                    out.append(simple_ob("S-PROGRESS", fn, "loop", desc, sp, UNDECIDED,
                                         "strict progress of a cursor not derived", H))
    return out


def recursion_obligations(ctx, scope):
    """recursive cycles in the parser scope: the nesting depth of the input controls the stack depth"""
    G, F = ctx.G, ctx.F
    out = []
    # Tarjan SCC over scope
    index = {}
    low = {}
    stack = []
    on = set()
    sccs = []
    counter = [0]

    def strong(v):
        index[v] = low[v] = counter[0]
        counter[0] += 1
        stack.append(v)
        on.add(v)
        for w in G.out.get(v, ()):
            if w not in scope:
                continue
            if w not in index:
                strong(w)
                low[v] = min(low[v], low[w])
            elif w in on:
                low[v] = min(low[v], index[w])
        if low[v] == index[v]:
            comp = []
            while True:
                w = stack.pop()
                on.discard(w)
                comp.append(w)
                if w == v:
                    break
            sccs.append(comp)

    import sys
    sys.setrecursionlimit(10000)
    for v in sorted(scope):
        if v not in index:
            strong(v)
    for comp in sccs:
        rec = len(comp) > 1 or comp[0] in G.out.get(comp[0], ())
        if not rec:
            continue
        names = sorted(F.nice_of(p).split("::")[-1] for p in comp)
        fn = F.fns[sorted(comp)[0]]
        # a depth bound: some function of the cycle has an integer parameter compared with a constant
        # before the recursive call (a depth counter)
        bounded = False
        for p in comp:
            f = F.fns[p]
            an = ctx.E.an(f)
            for b, info in an.term.items():
                if info["kind"] == "call" and info["callee"] in comp:
                    for fct in ctx.E.facts(f, b):
                        if fct[0] == "le":
                            ats = lin_atoms(fct[1])
                            if ats and all(a[0] == "param" and (an.vtype.get(a) or {}).get("k") == "uint" for a in ats):
                                bounded = True
        zero = _zero_weight_cycle(ctx, comp) if bounded else None
        down = _countdown(ctx, comp) if (not bounded or zero) else None
        if down:
            out.append(simple_ob("S-RECURSION", fn, "cycle", "+".join(names), fn.sp, PROVED,
                                 "a budget counter falls by at least one around every call cycle, every decrement is guarded by "
                                 "counter >= 1, no call inside the cycle raises it, and every entry from outside passes a constant "
                                 "(%s)" % ", ".join(str(c) for c in down)))
        elif bounded and zero:
            out.append(simple_ob("S-RECURSION", fn, "cycle", "+".join(names), fn.sp, VIOLATION,
                                 "the depth counter does not grow around the call cycle %s: that kind of nesting is not limited "
                                 "(stack exhaustion aborts)" % " -> ".join(F.nice_of(p).split("::")[-1] for p in zero)))
        elif bounded:
            out.append(simple_ob("S-RECURSION", fn, "cycle", "+".join(names), fn.sp, PROVED,
                                 "recursive call guarded by a depth counter comparison; the counter grows by at least one around every call cycle"))
        else:
            out.append(simple_ob("S-RECURSION", fn, "cycle", "+".join(names), fn.sp, VIOLATION,
                                 "recursion depth is controlled by input nesting with no depth limit (stack exhaustion aborts)"))
    return out


def _zero_weight_cycle(ctx, comp):
    """call edges inside the recursive component, weighted by how much the callee's depth argument exceeds the caller's
    depth parameter; returns a cycle of edges none of which provably increases the counter, or None"""
    F, E = ctx.F, ctx.E
    comp = set(comp)

    def uint_params(f):
        an = E.an(f)
        return [("param", i + 1) for i in range(len(f.inputs)) if (an.vtype.get(("param", i + 1)) or {}).get("k") == "uint"]
    weak = {p: set() for p in comp}      # edges without a provable increase
    for p in comp:
        f = F.fns[p]
        an = E.an(f)
        P = E.prover(f)
        mine = uint_params(f)
        for b, info in an.term.items():
            if info["kind"] != "call" or info["callee"] not in comp:
                continue
            g = F.fns[info["callee"]]
            theirs = uint_params(g)
            inc = False
            for tp in theirs:
                a = info["args"][tp[1] - 1]
                la = P.lin(a)
                for mp in mine:
                    d = lin_add(la, P.lin(mp), -1)
                    if d[1] == () and d[0] >= 1:
                        inc = True
            if not inc:
                weak[p].add(info["callee"])
    # cycle search in the weak graph
    color = {}
    stack = []

    def dfs(v):
        color[v] = 1
        stack.append(v)
        for w in sorted(weak[v]):
            if color.get(w) == 1:
                return stack[stack.index(w):] + [w]
            if w not in color:
                r = dfs(w)
                if r:
                    return r
        stack.pop()
        color[v] = 2
        return None
    for v in sorted(comp):
        if v not in color:
            r = dfs(v)
            if r:
                return r
    return None


def _countdown(ctx, comp):
    """the mirror image of the depth counter: an unsigned budget parameter that every call inside the recursive component
    passes on unchanged or lowered by a constant, lowered (behind a guard budget >= 1, so the subtraction cannot wrap) at
    least once around every call cycle, and set to a constant by every caller outside the component.
    Returns the sorted entry constants, or None when that is not what the code does."""
    F, E, G = ctx.F, ctx.E, ctx.G
    comp = set(comp)

    def uint_params(f):
        an = E.an(f)
        return [("param", i + 1) for i in range(len(f.inputs)) if (an.vtype.get(("param", i + 1)) or {}).get("k") == "uint"]
    budget = {}
    for p in comp:
        ups = uint_params(F.fns[p])
        if len(ups) != 1:
            return None          # exactly one candidate per function keeps the pairing unambiguous
        budget[p] = ups[0]
    weak = {p: set() for p in comp}
    for p in comp:
        f = F.fns[p]
        an = E.an(f)
        P = E.prover(f)
        mp = budget[p]
        for b, info in an.term.items():
            if info["kind"] != "call" or info["callee"] not in comp:
                continue
            tp = budget[info["callee"]]
            d = lin_add(P.lin(info["args"][tp[1] - 1]), P.lin(mp), -1)
            if d[1] != () or d[0] > 0:
                return None      # not a function of the caller's budget, or raised
            if d[0] <= -1:
                # guard: budget >= -d at the call
                g = lin_add(lin_const(-d[0]), P.lin(mp), -1)        # -d - budget <= 0
                facts = E.facts(f, b)
                guarded = P.prove_le0(g, facts) or (d[0] == -1 and any(
                    (fc[0] == "nec" and fc[1] == mp and fc[2] == 0) for fc in facts))
                if not guarded:
                    return None  # the subtraction may wrap: the budget is then not a bound
            else:
                weak[p].add(info["callee"])
    color = {}

    def dfs(v):
        color[v] = 1
        for w in sorted(weak[v]):
            if color.get(w) == 1:
                return True
            if w not in color and dfs(w):
                return True
        color[v] = 2
        return False
    for v in sorted(comp):
        if v not in color and dfs(v):
            return None
    # entries
    consts = set()
    for p in comp:
        tp = budget[p]
        for q in G.callers.get(p, ()):
            if q in comp or q not in F.fns:
                continue
            g = F.fns[q]
            an = E.an(g)
            P = E.prover(g)
            for b, info in an.term.items():
                if info["kind"] == "call" and info["callee"] == p:
                    la = P.lin(info["args"][tp[1] - 1])
                    if la[1] != ():
                        return None
                    consts.add(la[0])
    if not consts:
        return None
    return sorted(consts)


def consumed_obligations(ctx):
    """the consumed-length component of each parser's Ok value is bounded by the input length"""
    E = ctx.E
    out = []
    specs = [
        ("pocket_types::event::parse_json_event", (("f", 0),), 1),
        ("pocket_types::filter::parse_json_filter", (("f", 0),), 1),
        ("pocket_types::json::json_escape::json_unescape", (("f", 0),), 1),
    ]
    for name, path, q in specs:
        fn = ctx.fn(name)
        summ = E.summary(fn)
        want = (0, tuple(sorted(((("PL", q), -1), (("RV", path), 1)), key=lambda x: repr(x[0]))))
        have = any(l == want for l in summ.get("ok", []))
        if have:
            out.append(simple_ob("S-CONSUMED", fn, "bound", "consumed <= len(input)", fn.sp, PROVED,
                                 "postcondition proved from the body at every Ok return"))
        else:
            out.append(simple_ob("S-CONSUMED", fn, "bound", "consumed <= len(input)", fn.sp, UNDECIDED,
                                 "postcondition not derived"))
    # Tags::from_json returns the caller's cursor after read_tags_array
    fn = ctx.fn("pocket_types::json::json_parse::read_tags_array")
    summ = E.summary(fn)
    want = (0, tuple(sorted(((("PF", 2), 1), (("PL", 1), -1)), key=lambda x: repr(x[0]))))
    have = any(l == want for l in summ.get("ok", []))
    out.append(simple_ob("S-CONSUMED", fn, "bound", "cursor <= len(input) on Ok", fn.sp,
                         PROVED if have else UNDECIDED,
                         "postcondition proved from the body at every Ok return" if have else "postcondition not derived"))
    return out


def unchecked_obligations(ctx, scope):
    """get_unchecked_mut writes: the index must be provably inside the slice"""
    E, F = ctx.E, ctx.F
    out = []
    for p in sorted(scope):
        fn = F.fns[p]
        an = E.an(fn)
        P = E.prover(fn)
        for b, info in an.calls():
            base = info["base"] or ""
            last = base.rsplit("::", 1)[-1]
            if last in ("get_unchecked", "get_unchecked_mut") and len(info["args"]) == 2:
                S, idx = info["args"]
                g = lin_add(lin_add(P.lin(idx), P.lin(an.len_of(S)), -1), lin_const(1))
                facts = E.facts(fn, b)
                ok = P.prove_le0(g, facts) or E.prove_inductive(fn, g, b, facts)
                o = simple_ob("G-UNSAFE", fn, last, "%s < len(%s)" % (E.stable(idx, fn), E.stable(S, fn)), info["sp"],
                              PROVED if ok else VIOLATION,
                              "adjacent length test dominates the unchecked access" if ok else
                              "unchecked access with no dominating bound: memory unsafety", b)
                out.append(o)
    out += raw_copy_obligations(ctx, scope)
    # keys must be unique
    seen = {}
    for o in out:
        n = seen.get(o.key, 0) + 1
        seen[o.key] = n
        if n > 1:
            o.key = "%s#%d" % (o.key, n)
    return out


RAW_COPIES = ("copy_nonoverlapping", "copy", "copy_to", "copy_from", "copy_to_nonoverlapping", "copy_from_nonoverlapping",
              "write_bytes")


def raw_copy_obligations(ctx, scope):
    """G-UNSAFE for raw block copies (ptr::copy_nonoverlapping and friends): when the destination is `slice.as_mut_ptr()
    .add(off)` the copy must provably stay inside the slice (off + count <= len); likewise the source.  No such copy exists
    in the crates today; one that appears with a bound that does not cover the offset it writes at is a write past the
    caller's buffer."""
    E, F = ctx.E, ctx.F
    out = []

    def parts(v):
        """(slice value, offset value) of slice.as_ptr()/as_mut_ptr() [.add(off)]"""
        while v[0] in ("cast", "ptrcast") and isinstance(v[-1], tuple):
            v = v[-1]
        if v[0] == "call" and v[1].rsplit("::", 1)[-1] in ("add", "wrapping_add", "offset") and len(v[2]) == 2:
            inner = parts(v[2][0])
            if inner and inner[1] == ("const", 0, "usize"):
                return (inner[0], v[2][1])
            return None
        if v[0] == "call" and v[1].rsplit("::", 1)[-1] in ("as_ptr", "as_mut_ptr") and len(v[2]) == 1:
            return (v[2][0], ("const", 0, "usize"))
        return None
    for p in sorted(scope):
        fn = F.fns[p]
        an = E.an(fn)
        P = E.prover(fn)
        for b, info in an.calls():
            callee = info["callee"] or ""
            last = callee.rsplit("::", 1)[-1]
            if last not in RAW_COPIES or not (callee.startswith("core::ptr::") or callee.startswith("core::intrinsics::")):
                continue
            args = info["args"]
            if last == "write_bytes":
                ptrs, count = [("dst", args[0])], args[-1]
            elif last in ("copy_to", "copy_to_nonoverlapping"):
                ptrs, count = [("src", args[0]), ("dst", args[1])], args[2]
            elif last in ("copy_from", "copy_from_nonoverlapping"):
                ptrs, count = [("dst", args[0]), ("src", args[1])], args[2]
            else:
                ptrs, count = [("src", args[0]), ("dst", args[1])], args[2]
            facts = E.facts(fn, b)
            for role, pv in ptrs:
                pr = parts(pv)
                if pr is None:
                    out.append(simple_ob("G-UNSAFE", fn, last, "%s pointer of a raw copy" % role, info["sp"], UNDECIDED,
                                         "the %s pointer is not `slice.as_ptr().add(offset)`: its extent is not known here" % role, b))
                    continue
                S, off = pr
                g = lin_add(lin_add(P.lin(off), P.lin(count)), P.lin(an.len_of(S)), -1)      # off + count - len <= 0
                ok = P.prove_le0(g, facts) or E.prove_inductive(fn, g, b, facts)
                verdict = PROVED if ok else UNDECIDED
                why = "offset + count <= len is established before the copy" if ok else "the bound was not derived"
                if not ok and role == "dst":
                    # a length test that leaves the write offset out cannot cover the write
                    need = lin_atoms(P.lin(off)) | lin_atoms(P.lin(an.len_of(S)))
                    related = [f for f in facts if f[0] == "le" and need <= lin_atoms(f[1])]
                    if not related:
                        verdict = VIOLATION
                        why = ("%d bytes-count raw write at offset %s of %s: no test before it relates that offset to the "
                               "buffer's length, so the copy can run past the end of the caller's buffer" % (0, E.stable(off, fn), E.stable(S, fn))).replace("0 bytes-count ", "")
                out.append(simple_ob("G-UNSAFE", fn, last, "%s: %s + %s <= len(%s)" % (role, E.stable(off, fn), E.stable(count, fn)[:40], E.stable(S, fn)),
                                     info["sp"], verdict, why, b))
    return out
