"""C04 - stored events read back byte-identical, forever."""
from ..srules import S
from . import txn, storage

EXPLANATION = (
    "Decides the structural necessary conditions of read-back fidelity: the event map is append-only with a "
    "single writer path (only EventStore::store_event calls MmapAppend::append/resize; set_len only there and in "
    "EventStore::new under the 'shorter than a header' test; no function of pocket-db obtains a mutable pointer "
    "or slice into the map; in the dependency the writer's slice [end, end+max_len) is proved inside the mapping); "
    "the offset returned is the pre-write end marker, the marker stored is end + bytes written; growth is "
    "set_len(recorded length + positive chunk) before resize to the same length, never truncating; reads are "
    "rejected iff offset >= end marker and delineate is bounds-checked; the id->offset entry is written in the "
    "same transaction as the other indexes. Byte identity over all histories and mmap semantics are not decided.")
EXPLANATION += " Also decided: the length remembered for the grow arithmetic comes from the file's metadata; no function of pocket-db writes to a file through a file handle; delineate rejects exactly the inputs shorter than 152 bytes (the smallest event) or than their own recorded length."
EXPLANATION += " Also decided: every position of the packed event is read with one width by all its readers (a reader that takes the content length as 2 bytes where the others take 4 disagrees with the layout); the length stored for the next grow is the one just passed to set_len; no function of pocket-db builds slices from raw pointers or keeps a raw pointer in an atomic."
EXPLANATION += " Also decided: get_offset_by_id answers only after reading the id table through the caller's transaction (no remembered answers)."
ASSUMPTIONS = ["the kernel's mmap keeps file contents coherent with the mapping"]


def run(ctx):
    s = S(ctx)
    storage.appender_callers(ctx, s)
    storage.append_order_in_dependency(ctx, s)
    storage.offset_provenance(ctx, s)
    storage.growth_monotone(ctx, s)
    storage.no_cached_map_pointers(ctx, s)
    storage.read_bound_by_marker(ctx, s)
    storage.delineate_minimum(ctx, s)
    from . import layout
    ev_fns = [f for f in ctx.F.fns.values() if f.kind != "Closure" and f.nice.startswith("pocket_types::Event::")]
    layout.reader_width_agreement(ctx, s, sorted(ev_fns, key=lambda f: f.nice), "event", spec={(144, 144): 4})
    storage.recorded_length_is_file_length(ctx, s)
    storage.reopen_validates_marker(ctx, s)
    storage.append_index_commit_order(ctx, s, "pocket_db::Store::store_event")
    txn.effects_use_callers_txn(ctx, s, "pocket_db::Store::store_event")
    from . import tables
    tables.lookups_answer_from_table(ctx, s, ("get_offset_by_id",))
