"""C06 - the filter/event match predicate equals NIP-01 semantics."""
from ..srules import S, find_values, contains_value, unbyref, relation
from ..guard import PROVED, VIOLATION, UNDECIDED
from ..sym import strip_sites
from .common import g_obligations

EXPLANATION = (
    "Decides the clause structure of Filter::event_matches: each filter component (ids, authors, kinds, since, "
    "until, tags) is consulted against the corresponding event accessor (id, pubkey, kind, created_at, created_at, "
    "tags) and has a failing outcome that reaches Ok(false); the window tests are exactly 'reject iff created_at < "
    "since' and 'reject iff created_at > until'; list clauses are skipped only when the list is empty (count == 0) "
    "and their any() closure compares a list element with the event's accessor for equality; in the tag clause "
    "`found` becomes true only under Tags::matches(event tags, name of constraint i, value j of constraint i), a "
    "constraint without a found value reaches Ok(false), and Ok(true) is reached only after the constraint walk ended; "
    "Tags::matches compares the first two strings of one tag with name and value; no explicit panic is reachable. "
    "The list-membership terms as boolean functions and value-level agreement with NIP-01 on all pairs are not decided.")
ASSUMPTIONS = []

PRED = "pocket_types::Filter::event_matches"


def run(ctx):
    s = S(ctx)
    fn = ctx.fn(PRED)
    an = ctx.E.an(fn)
    me, ev = ("param", 1), ("param", 2)
    facc = lambda name: (lambda v: v[0] == "call" and v[1].endswith("::" + name) and v[1].startswith("pocket_types::filter::") and v[2] and v[2][0] == me)
    eacc = lambda name: (lambda v: v[0] == "call" and v[1].endswith("::" + name) and v[1].startswith("pocket_types::event::") and v[2] and v[2][0] == ev)
    rk = s.return_kinds(fn)
    false_rets = [n for n, k, v in rk if k == "ok" and v[0] == "agg" and v[2][0] == ("const", 0, "bool")]
    true_rets = [n for n, k, v in rk if k == "ok" and v[0] == "agg" and v[2][0] == ("const", 1, "bool")]
    ctx.floor("C06.ok-false-returns", len(false_rets), 1)
    ctx.floor("C06.ok-true-returns", len(true_rets), 1)
    closures = {c.path: c for c in ctx.F.closures_of(fn.path)}
    ctx.functions.update(closures)

    def facts_at(n):
        return ctx.E.facts(fn, n)

    # ---------------------------------------------------------------- list clauses
    for comp, cnt, eaccname in (("ids", "num_ids", "id"), ("authors", "num_authors", "pubkey"), ("kinds", "num_kinds", "kind")):
        anys = []
        for b, info in an.calls():
            if (info["base"] or "").endswith("Iterator::any"):
                it = info["pre"][0]
                if it is not None and contains_value(it, facc(comp)):
                    anys.append((b, info))
        if not anys:
            s.add("S-COVER", fn, "clause", comp, fn.sp, VIOLATION,
                  "the predicate never consults the filter's %s: events are matched regardless of it" % comp)
            continue
        b, info = anys[0]
        clos = info["args"][1]
        cpath = clos[1].split(":", 1)[1] if clos[0] == "agg" and clos[1].startswith("closure:") else None
        okc = False
        if cpath in closures:
            cf = closures[cpath]
            ca = ctx.E.an(cf)
            for bb, ci in ca.calls():
                if (ci["callee"] or "").rsplit("::", 1)[-1] in ("eq",) and len(ci["args"]) == 2:
                    vals = [unbyref(a) for a in ci["args"]] + [p for p in ci["pre"] if p is not None]
                    has_ev = any(contains_value(v, lambda x: x[0] == "call" and x[1].endswith("::" + eaccname) and x[1].startswith("pocket_types::event::")) for v in vals)
                    has_el = any(contains_value(v, lambda x: x == ("param", 2)) for v in vals)
                    if has_ev and has_el:
                        okc = True
            # the closure must return that equality, not its negation
            rv = [v for n, k, v in s.return_kinds(cf)]
            if not all(v[0] == "call" and v[1].rsplit("::", 1)[-1] == "eq" for v in rv):
                okc = False
        # failing outcome: any() false under count != 0  ->  Ok(false)
        V = info["value"]
        fail_edges = [n for n in an.edge_cond if any(f[0] == "false" and f[1] == V for f in s.edge_facts(fn, n))]
        reach_false = any(set(s.reachable_blocks(fn, [n])) & {x if x < an.cfg.nblocks else an.cfg.edges[x - an.cfg.nblocks].src for x in false_rets}
                          for n in fail_edges) if fail_edges else False
        only_false = True
        for n in fail_edges:
            # the failing edge must not reach Ok(true)
            reach = s.reach(fn, [n])
            if any(t in reach for t in true_rets):
                only_false = False
        # the clause is skipped only when the count is zero
        guard = False
        for f in facts_at(b):
            if f[0] in ("nec", "ne") and contains_value(f[1], facc(cnt)):
                guard = True
            if f[0] == "le" and any(contains_value(a, facc(cnt)) for a, k in f[1][1]):
                guard = True
        skip_edges = []
        for n in an.edge_cond:
            for f in s.edge_facts(fn, n):
                if f[0] in ("eqc", "eq") and contains_value(f[1], facc(cnt)) and (f[0] == "eq" or f[2] == 0):
                    skip_edges.append(n)
        ok = okc and fail_edges and only_false and reach_false and bool(skip_edges)
        s.add("S-COVER", fn, "clause", comp, info["sp"], PROVED if ok else VIOLATION,
              "%s: skipped iff %s == 0; otherwise any(element == event.%s()) and its false outcome reaches only Ok(false)" % (comp, cnt, eaccname) if ok else
              "the %s clause is not 'count == 0 or any(element == event.%s())' with a rejecting false outcome "
              "(closure ok=%s, failing edge=%s, rejects=%s, empty-list skip=%s)" % (comp, eaccname, okc, bool(fail_edges), only_false and reach_false, bool(skip_edges)), b)
    # ---------------------------------------------------------------- window
    for comp, want in (("since", ("<", "created_at", "since")), ("until", ("<", "until", "created_at"))):
        rej = []
        wrong = []
        for n in an.edge_cond:
            for f in s.edge_facts(fn, n):
                r = relation(f)
                if r is None:
                    continue
                rel, a, b2 = r
                if not (contains_value(a, facc(comp)) or contains_value(b2, facc(comp))):
                    continue
                ca, cb = eacc("created_at")(a), eacc("created_at")(b2)
                fa, fb = facc(comp)(a), facc(comp)(b2)
                if comp == "since":
                    if rel == "<" and ca and fb:
                        rej.append(n)
                    elif rel == "<=" and ca and fb:
                        wrong.append(n)
                else:
                    if rel == "<" and fa and cb:
                        rej.append(n)
                    elif rel == "<=" and fa and cb:
                        wrong.append(n)
        okr = False
        for n in rej:
            reach = s.reach(fn, [n])
            if any(x in reach for x in false_rets) and not any(t in reach for t in true_rets):
                okr = True
        for n in wrong:
            reach = s.reach(fn, [n])
            if not any(t in reach for t in true_rets):
                okr = False     # an inclusive bound is rejected
                rej = []
        sp = fn.sp
        if okr:
            s.add("S-REL", fn, "window", comp, sp, PROVED,
                  "rejected iff created_at %s %s (the bound itself matches)" % ("<" if comp == "since" else ">", comp))
        elif not rej and not wrong:
            s.add("S-REL", fn, "window", comp, sp, VIOLATION, "the predicate never compares created_at with %s" % comp)
        else:
            s.add("S-REL", fn, "window", comp, sp, VIOLATION,
                  "the %s test is not 'reject iff created_at %s %s': boundary events are handled wrongly" % (comp, "<" if comp == "since" else ">", comp))
    # ---------------------------------------------------------------- tags
    tag_clause(ctx, s, fn, an, me, ev, false_rets, true_rets, facc, eacc)
    tags_matches(ctx, s)
    # every reader of one position of the packed filter (accessors, the bounded iterators) takes the same width there
    from . import layout
    ffns = [f for f in ctx.F.fns.values() if f.kind != "Closure" and f.path.startswith("pocket_types::filter::") and
            (f.nice.startswith("pocket_types::Filter::") or "Iter" in f.nice)]
    layout.reader_width_agreement(ctx, s, sorted(ffns, key=lambda f: f.nice), "filter")
    # ---------------------------------------------------------------- totality
    scope = ctx.G.reachable([fn.path], within=lambda p: p.startswith("pocket_types::"))
    ctx.functions.update(scope)
    obs = g_obligations(ctx, scope, ("index", "slice", "arith", "shift", "div", "panic"))
    ctx.floor("C06.partial-operation-sites", len(obs), 6)
    for o in obs:
        ctx.add(o)


def tag_clause(ctx, s, fn, an, me, ev, false_rets, true_rets, facc, eacc):
    mt = s.calls(fn, names={"pocket_types::Tags::matches"})
    if not mt:
        s.add("S-COVER", fn, "clause", "tags", fn.sp, VIOLATION, "the predicate never matches the filter's tag constraints against the event's tags")
        return
    b, info = mt[0]
    a0, a1, a2 = info["args"][0], info["args"][1], info["args"][2]
    gs = lambda v: find_values(v, lambda x: x[0] == "call" and x[1].endswith("::get_string"))
    ok0 = contains_value(a0, eacc("tags"))
    # a1 may have become a loop phi (letter is loop-carried): resolve through the phi inputs
    def origin(v):
        out = []
        seen = set()
        st = [v]
        while st:
            x = st.pop()
            if x in seen:
                continue
            seen.add(x)
            if x[0] == "phi":
                for e in an.cfg.in_edges[x[1]]:
                    stt = an.out_state.get(e.src)
                    if stt is not None:
                        st.append(an.read(stt, x[2]))
            else:
                out.append(x)
        return out
    g1 = [g for o in origin(a1) for g in gs(o)]
    g2 = [g for o in origin(a2) for g in gs(o)]
    ok1 = bool(g1) and all(contains_value(g[2][0], facc("tags")) and g[2][2] == ("const", 0, "usize") for g in g1)
    ok2 = bool(g2) and all(contains_value(g[2][0], facc("tags")) and g[2][2] != ("const", 0, "usize") for g in g2)
    if ok2:
        # the value index starts after the name: j >= 1 at every get_string(i, j) that yields a compared value
        P_ = ctx.E.prover(fn)
        from ..prove import lin_add, lin_const
        for g in g2:
            site = g[3] if len(g) > 3 else None
            blk = site[1] if site and site[0] == fn.path else b
            goal = lin_add(lin_const(1), P_.lin(g[2][2]), -1)       # 1 - j <= 0
            facts_ = ctx.E.facts(fn, blk)
            if not (P_.prove_le0(goal, facts_) or ctx.E.prove_inductive(fn, goal, blk, facts_)):
                ok2 = False
    same_i = bool(g1) and bool(g2) and all(x[2][1] == y[2][1] or x[2][1][0] == "phi" or y[2][1][0] == "phi" for x in g1 for y in g2)
    ok = ok0 and ok1 and ok2 and same_i
    s.add("S-COVER", fn, "clause", "tags", info["sp"], PROVED if ok else VIOLATION,
          "Tags::matches(event tags, name of constraint i, value j>=1 of constraint i)" if ok else
          "the tag clause does not test (event tags, constraint name, constraint value): event=%s name=%s value=%s same-constraint=%s" % (ok0, ok1, ok2, same_i), b)
    # progress to the next constraint (or to acceptance) requires a match: from the walk over the values of one
    # constraint, no value-feasible path that avoids the true outcome of Tags::matches reaches the outer loop's back
    # edge or Ok(true).  (Flag variables such as `found` are threaded: a join of known booleans leading to the test of
    # that boolean takes only the matching arm.)
    V = info["value"]
    loops = an.cfg.natural_loops()
    inner = [H for H, body in loops.items() if b in body]
    inner.sort(key=lambda H: len(loops[H]))
    true_edges = [n for n in an.edge_cond if any(f[0] == "true" and f[1] == V for f in s.edge_facts(fn, n))]
    if len(inner) < 2 or not true_edges:
        s.add("S-DOM", fn, "next-constraint-only-after-match", "matches", info["sp"], VIOLATION if not true_edges else UNDECIDED,
              "the outcome of Tags::matches is never tested" if not true_edges else
              "the tag clause is not a walk over values inside a walk over constraints: shape not recognised, not decided", b)
    else:
        Hi, Ho = inner[0], inner[1]
        back_outer = [e.node for e in an.cfg.in_edges[Ho] if e.src in loops[Ho]]
        reach = s.reach(fn, [Hi], avoid=true_edges)
        leak_next = [n for n in back_outer if n in reach]
        leak_true = [t for t in true_rets if t in reach]
        ok2 = not leak_next and not leak_true
        s.add("S-DOM", fn, "next-constraint-only-after-match", "matches", info["sp"], PROVED if ok2 else VIOLATION,
              "from the walk over one constraint's values, the next constraint or Ok(true) is reached only through "
              "Tags::matches(..) == true; exhausting the values rejects" if ok2 else
              "a tag constraint none of whose values matched does not reject the event (it can reach %s)" %
              ("the next constraint" if leak_next else "Ok(true)"), b)
    # Ok(true) only after the walk over the constraints ended (get_string(i, 0) == None) or there are no constraints
    walk_end = []
    for n in an.edge_cond:
        for f in s.edge_facts(fn, n):
            if f[0] == "variant" and f[2] == 0:
                g = [x for x in find_values(f[1], lambda x: x[0] == "call" and x[1].endswith("::get_string")) if x[2][2] == ("const", 0, "usize")]
                if g and f[1][0] == "call":
                    walk_end.append(n)
            if f[0] == "true" and f[1][0] == "call" and f[1][1].endswith("::is_empty") and contains_value(f[1], facc("tags")):
                walk_end.append(n)
    reach = s.reach(fn, [an.cfg.entry], avoid=walk_end)
    okt = bool(walk_end) and not any(t in reach for t in true_rets)
    s.add("S-MUSTPASS", fn, "true-only-after-all-constraints", "Ok(true)", fn.sp, PROVED if okt else VIOLATION,
          "Ok(true) is reached only when the filter has no tag constraints or the walk over them ended" if okt else
          "Ok(true) can be returned before every tag constraint was examined")


def tags_matches(ctx, s):
    """Tags::matches(name, value) is true iff some tag's first string equals name and its second string equals value.
    The predicate may be written as a loop in the function itself or as a closure handed to Iterator::any over
    self.iter(): in the closure the captured name and value are matched to the function's parameters through the
    closure aggregate."""
    fn = ctx.fn("pocket_types::Tags::matches")
    an = ctx.E.an(fn)
    ctx.functions.add(fn.path)

    def eq_calls(f):
        a_ = ctx.E.an(f)
        return [(b, i) for b, i in a_.calls() if (i["callee"] or "").rsplit("::", 1)[-1] == "eq" and len(i["args"]) == 2]
    P, letter, value = fn, (lambda x: x == ("param", 2)), (lambda x: x == ("param", 3))
    via_any = None
    if not eq_calls(fn):
        for cf in ctx.F.closures_of(fn.path):
            if not eq_calls(cf):
                continue
            # which capture is which parameter
            agg = None
            for v in an.stmt_val.values():
                if v is not None and v[0] == "agg" and v[1] == "closure:" + cf.path:
                    agg = v
            if agg is None:
                continue
            idx = {}
            for i, op in enumerate(agg[2]):
                if contains_value(op, lambda x: x == ("param", 2)):
                    idx["letter"] = i
                if contains_value(op, lambda x: x == ("param", 3)):
                    idx["value"] = i
            if "letter" in idx and "value" in idx:
                cap = lambda i: (lambda x: x[0] == "init" and x[1][0] == "field" and x[1][1] == ("deref", ("param", 1)) and x[1][2] == i)
                P, letter, value = cf, cap(idx["letter"]), cap(idx["value"])
                anys = [(b, i) for b, i in an.calls() if (i["base"] or i["callee"] or "").endswith("Iterator::any")]
                via_any = anys[0] if anys else None
    pa = ctx.E.an(P)
    ctx.functions.add(P.path)
    okl = okv = False
    order = False
    first_next = second_next = None
    eq_first = eq_second = None
    for b, i in eq_calls(P):
        vals = [unbyref(a) for a in i["args"]] + [p for p in i["pre"] if p is not None]
        nx = [x for v in vals for x in find_values(v, lambda x: x[0] == "call" and x[1].endswith("::next") and "tags" in x[1])]
        if any(contains_value(v, letter) for v in vals) and nx:
            okl = True
            first_next = nx[0]
            eq_first = i["value"]
        if any(contains_value(v, value) for v in vals) and nx:
            okv = True
            second_next = nx[0]
            eq_second = i["value"]
    if first_next is not None and second_next is not None and first_next[3] and second_next[3]:
        b1, b2 = first_next[3][1], second_next[3][1]
        same_iter = pa.term[b1]["args"][0] == pa.term[b2]["args"][0]
        order = same_iter and pa.cfg.dominates(b1, b2) and b1 != b2
    # the predicate is true only when both comparisons are true
    rets = s.return_kinds(P)
    both = False
    seen_true = False
    okret = True
    for n, k, v in rets:
        fs = ctx.E.facts(P, n)
        cnt = sum(1 for f in fs if f[0] == "true" and f[1][0] == "call" and f[1][1].rsplit("::", 1)[-1] == "eq")
        if v == ("const", 1, "bool"):
            seen_true = True
            if cnt < 2:
                # the name compared byte-wise: both are one byte long and the bytes are equal
                is_next = lambda y: y[0] == "call" and y[1].endswith("::next") and "tags" in y[1]
                one = lambda X: any(f[0] == "eqc" and f[2] == 1 and f[1][0] == "len" and f[1][1] == X for f in fs)
                bytewise = False
                for f in fs:
                    if f[0] == "eq" and isinstance(f[1], tuple) and f[1][0] == "elem" and f[1][2] == ("const", 0, "usize") and \
                            isinstance(f[2], tuple) and f[2] and f[2][0] == "elem" and f[2][2] == ("const", 0, "usize"):
                        a_, b_ = f[1][1], f[2][1]
                        for X, L in ((a_, b_), (b_, a_)):
                            if contains_value(X, is_next) and contains_value(L, letter) and one(X) and \
                                    any(g[0] == "eqc" and g[2] == 1 and g[1][0] == "len" and contains_value(g[1][1], letter) for g in fs):
                                bytewise = True
                if not (cnt >= 1 and bytewise):
                    okret = False
        elif v == ("const", 0, "bool"):
            continue
        elif v[0] == "call" and v[1].rsplit("::", 1)[-1] == "eq":
            # `first == name && second == value` returned as the value of the second comparison
            seen_true = True
            other = eq_first if strip_sites(v) == strip_sites(eq_second) else (eq_second if strip_sites(v) == strip_sites(eq_first) else None)
            if other is None or not any(f[0] == "true" and strip_sites(f[1]) == strip_sites(other) for f in fs):
                okret = False
        elif P is fn and via_any is None:
            okret = False
    both = seen_true and okret
    # closure form: the function returns any(self.iter(), predicate) unchanged
    wrap = True
    if P is not fn:
        wrap = False
        if via_any is not None:
            b, i = via_any
            it = [i["args"][0]] + [p for p in i["pre"][:1] if p is not None]
            over_self = any(contains_value(x, lambda y: y[0] == "call" and y[1].endswith("::iter") and "tags" in y[1] and
                                           contains_value(y, lambda z: z == ("param", 1))) for x in it)
            rv = [v for n, k, v in s.return_kinds(fn)]
            wrap = over_self and bool(rv) and all(v == i["value"] for v in rv)
    ok = okl and okv and order and both and wrap
    s.add("S-REL", fn, "tag-match-shape", "first==name && second==value", fn.sp, PROVED if ok else VIOLATION,
          "true iff for some tag its first string equals the name and its second string equals the value" if ok else
          "Tags::matches does not compare (first string, name) and (second string, value) of one tag: name=%s value=%s order=%s both=%s%s" %
          (okl, okv, order, both, "" if wrap else " any-over-self.iter()=False"))
