"""Shared building blocks for the per-property modules."""
from ..guard import (Ob, PROVED, VIOLATION, UNDECIDED, short, _entry_atom_to_placeholder, RANK)
from ..prove import lin_atoms, lin_subst, lin_add, lin_const
from ..sym import walk


def roots(ctx, names):
    out = []
    for n in names:
        out.append(ctx.fn(n).path)
    return out


def scope_of(ctx, root_paths, within=None):
    sc = ctx.G.reachable(root_paths, within)
    ctx.functions.update(sc)
    return sc


def g_obligations(ctx, scope, classes, only_fn=None, free_inputs=None):
    """all partial-operation obligations of the given classes in the scope, decided"""
    E = ctx.E
    out = []
    E.free_inputs = free_inputs
    for p in sorted(scope):
        f = ctx.F.fns[p]
        if only_fn is not None and not only_fn(f):
            continue
        obs = E.obligations(f, classes)
        for o in obs:
            E.decide(f, o, scope)
        out.extend(obs)
        ctx.call_sites += sum(1 for b in f.blocks if b["term"]["t"] == "call" and not b["cleanup"])
    propagate_preconditions(ctx, out, scope, free_inputs)
    E.free_inputs = None
    return out


def propagate_preconditions(ctx, obs, scope, free_inputs=None):
    """an unguarded site whose operands are the function's own parameters becomes a requirement
    on every call site (one level; exact)"""
    E, F, G = ctx.E, ctx.F, ctx.G
    extra = []
    for ob in list(obs):
        pre = ob.extra.get("precond")
        if not pre:
            continue
        cf = F.fns[ob.fn]
        callers = list(G.call_sites_of(cf.path))
        ext = cf.vis == "pub" and cf.reachable and not cf.unsafe and cf.kind != "Closure"
        failed = []
        for caller, bi, t in callers:
            cfn = F.fns[caller]
            an = E.an(cfn)
            P = E.prover(cfn)
            info = an.term.get(bi)
            if info is None or info["kind"] != "call":
                continue
            mapping_base = {}
            for i, a in enumerate(info["args"]):
                mapping_base[("P", i + 1)] = a
                mapping_base[("PL", i + 1)] = an.len_of(a)
                mapping_base[("PI", i + 1)] = info["pre"][i]
            for i, a in enumerate(info["args"]):
                pass
            facts = E.facts(cfn, bi)
            for g, text in pre:
                tr = []
                ok = True
                for a, k in g[1]:
                    ph = _entry_atom_to_placeholder(a)
                    if ph is None:
                        ok = False
                        break
                    if ph[0] == "PP":
                        v = info["args"][ph[1] - 1]
                        for el in ph[2]:
                            v = an.project(v, el) if el[0] == "f" else ("proj", v, el)
                        mapping_base[ph] = v
                    tr.append((ph, k))
                if not ok:
                    failed.append((caller, bi, None, text))
                    continue
                g2 = lin_subst((g[0], tuple(tr)), mapping_base, P)
                if P.prove_le0(g2, facts) or E.prove_inductive(cfn, g2, bi, facts):
                    continue
                # classify on the caller's side
                worst = "const"
                for a in lin_atoms(g2):
                    c = E.atom_class(cfn, a)
                    if free_inputs is not None and free_inputs(a):
                        c = "cursor"    # an unconstrained input of the operation (the property quantifies over it)
                    if RANK[c] > RANK[worst]:
                        worst = c
                desc = "%s requires %s" % (cf.nice.split("::")[-1], text)
                o2 = Ob(ob.rule, caller, bi, "precond:" + cf.nice.split("::")[-1],
                        "%s: %s" % (desc, " ".join("%+d*%s" % (k, E.stable(a, cfn)) for a, k in g2[1]) + " %+d<=0" % g2[0]),
                        info["sp"])
                has_param = any(E.atom_class(cfn, a) == "param" and a[0] != "len" and not (free_inputs and free_inputs(a))
                                for a in lin_atoms(g2))
                if RANK[worst] >= 5 or has_param:
                    o2.verdict = UNDECIDED
                    o2.why = "callee precondition not established here; operands of class %s" % worst
                else:
                    o2.verdict = VIOLATION
                    o2.why = "call reaches an unguarded %s in %s: %s is not established at this call site" % (
                        ob.kind, cf.nice, text)
                o2.key = "%s:%s:%s:%s" % (o2.rule, short(caller), o2.kind, o2.desc)
                extra.append(o2)
                failed.append((caller, bi, o2, text))
        if ext:
            ob.verdict = VIOLATION
            ob.why = "public function performs this operation on caller-supplied operands with no guard: " + \
                     "; ".join(t for _, t in pre)
        elif callers and not failed:
            ob.verdict = PROVED
            ob.why = "every call site establishes: " + "; ".join(t for _, t in pre)
        else:
            ob.verdict = UNDECIDED
            ob.why = "requirement on callers (%s); %d call site(s) do not establish it (reported there)" % (
                "; ".join(t for _, t in pre), len(failed))
    # de-duplicate keys among the extra obligations
    seen = {}
    for o in extra:
        n = seen.get(o.key, 0) + 1
        seen[o.key] = n
        if n > 1:
            o.key = "%s#%d" % (o.key, n)
    obs.extend(extra)


def simple_ob(rule, fn, kind, desc, sp, verdict, why, block=0):
    o = Ob(rule, fn.path if hasattr(fn, "path") else fn, block, kind, desc, sp)
    o.verdict = verdict
    o.why = why
    o.key = "%s:%s:%s:%s" % (rule, short(o.fn), kind, desc)
    return o
