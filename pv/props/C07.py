"""C07 - filter JSON parsing is faithful, order-independent and round-trips."""
from ..srules import S, find_values, contains_value, unbyref, deep_values
from ..guard import PROVED, VIOLATION, UNDECIDED
from .common import g_obligations
from . import parsers, escaping

EXPLANATION = (
    "Decides: integer members cannot wrap (checked accumulation in read_u64; limit narrowed by a saturating "
    "conversion; kinds narrowed only under <= 65535; every count/length/offset narrowed through a refusing "
    "conversion; no raw arithmetic on fixed-width counters); duplicate detection is sound and order-independent: "
    "`found` is a set of six distinct one-bit flags, each set under its own duplicate test, and the tag-letter "
    "bitmap ORs and tests a value that is 1 << n; unknown members are skipped without consuming the opening quote "
    "twice and the value skipper dispatches on FIRST(JSON value); the fixed table of tag members is index-checked; "
    "the emission phase writes ids, authors, kinds, tags in layout order after the member loop; the writer emits "
    "exactly the member names the parser accepts and escapes tag names and values. Accessor values versus an "
    "independent parser and byte-identical round trip are not decided.")
EXPLANATION += " Also decided: no branch of the parser depends on the contents an earlier member wrote into the output buffer (the seen-flags are the only state carried between members); json_unescape writes only table constants, verbatim input bytes or encode_utf8 output."
EXPLANATION += " Also decided: the writer's separator flag is cleared after every member before it is tested again (no two members without a comma); the tag-letter bitmap is found by its use and must not share a variable with the member flags."
EXPLANATION += ' Also decided: every path of parse_json_filter to Ok passes its own recognition of the closing brace; tag values reach the packed form only through json_unescape or under an evaluated scan admitting no backslash, quote or control character; the writer appends data (by any Vec method) only through json_escape or under such a scan.'
ASSUMPTIONS = []

WRITER_NAMES = {b'"ids":[', b'"authors":[', b'"kinds":[', b'"limit":', b'"since":', b'"until":', b'"#'}


def run(ctx):
    s = S(ctx)
    fn = ctx.fn(parsers.FILTER_PARSER)
    an = ctx.E.an(fn)
    scope = {fn.path, ctx.fn(parsers.JP + "read_u64").path}
    for c in ctx.F.closures_of(fn.path):
        scope.add(c.path)
    ctx.functions.update(scope)
    obs = g_obligations(ctx, scope, ("arith", "cast", "index", "slice", "shift"))
    ctx.floor("C07.partial-operation-sites", len(obs), 20)
    for o in obs:
        ctx.add(o)
    # limit: saturating conversion present
    lim = [i for b, i in an.calls() if (i["callee"] or "").rsplit("::", 1)[-1] == "unwrap_or" and i["args"][1] == ("const", 4294967295, "u32")]
    tf = [i for b, i in an.calls() if (i["callee"] or "").rsplit("::", 1)[-1] == "try_from" and "u32" in str(i["f"].get("ga"))]
    s.add("S-REL", fn, "limit-saturates", "u32::try_from(limit).unwrap_or(MAX)", fn.sp, PROVED if (lim and tf) else UNDECIDED,
          "limit is converted with try_from and saturates at u32::MAX" if (lim and tf) else "saturating conversion not recognised (casts are judged by G-NARROW)")
    parsers.member_flags(ctx, s, parsers.FILTER_PARSER, "found", parsers.FILTER_NAMES, final_mask_check=False)
    tag_bitmap(ctx, s, fn)
    n = parsers.quote_state(ctx, s, parsers.FILTER_PARSER)
    ctx.floor("C07.calls-after-open-quote", n, 1)
    parsers.fallthrough_skips_member(ctx, s, parsers.FILTER_PARSER)
    parsers.object_left_at_close_brace(ctx, s, parsers.FILTER_PARSER)
    parsers.skipper_first_set(ctx, s)
    parsers.literal_skippers_advance(ctx, s)
    escaping.unescape_writes(ctx, s)
    escaping.surrogates_refused(ctx, s)
    escaping.raw_input_copies(ctx, s, [parsers.FILTER_PARSER])
    escaping.utf8_width_table(ctx, s)
    emission_order(ctx, s, fn)
    no_decision_on_earlier_members(ctx, s, fn)
    # writer
    w = ctx.fn("pocket_types::Filter::as_json")
    wa = ctx.E.an(w)
    ctx.functions.add(w.path)
    names = set()
    for b, info in wa.calls():
        if (info["callee"] or "").endswith("::extend"):
            for bs in find_values(info["args"][1], lambda x: x[0] == "bytes"):
                if bs[1].startswith(b'"') and len(bs[1]) > 1 and bs[1] != b'":[':
                    names.add(bs[1])
        if (info["callee"] or "") == "core::fmt::{impl#4}::new":
            for bs in find_values(info["args"][0], lambda x: x[0] == "bytes"):
                # template:  <len>"limit":<placeholder>
                lit = bs[1]
                if len(lit) > 2 and lit[1:2] == b'"':
                    names.add(lit[1:1 + lit[0]])
    okn = names == WRITER_NAMES
    s.add("S-COVER", w, "writer-member-names", "as_json", w.sp, PROVED if okn else VIOLATION,
          "the writer emits exactly ids, authors, kinds, limit, since, until and #x" if okn else
          "writer member names %s differ from the parser's" % sorted(n_.decode("latin1") for n_ in names))
    escaping.writer_escapes(ctx, s, "pocket_types::Filter::as_json")
    separator_protocol(ctx, s, w)


def tag_bitmap(ctx, s, fn):
    an = ctx.E.an(fn)
    # the tag-letter bitmap: the local that is OR-ed with a value computed from the input (not a constant flag).
    # Found by what is done to it, not by its name.
    cand = {}
    for (b, i), L in an.stmt_loc.items():
        if L[0] != "local" or "inl" in fn.locals[L[1]]:
            continue
        v = an.stmt_val[(b, i)]
        if v[0] == "bin" and v[1] == "BitOr" and v[2][0] != "const" and v[3][0] != "const" and \
                contains_value(v, lambda y: y[0] == "phi" and y[2] == L):
            cand.setdefault(L[1], []).append((b, i, v))
    ctx.instances["C07.tag-bitmap-updates"] = sum(len(x) for x in cand.values())
    if not cand:
        s.add("S-ONEHOT", fn, "tag-letter-bitmap", "none", fn.sp, UNDECIDED,
              "no bitmap of seen tag letters is maintained: repeated tag letters are not detected here (not decided)")
        return
    flags = [i for i, l in enumerate(fn.locals) if l.get("n") == "found" and "inl" not in l]
    for k, ors_k in sorted(cand.items()):
        if k in flags:
            b, i, v = ors_k[0]
            s.add("S-ONEHOT", fn, "tag-letter-bitmap", "shares-member-flags", fn.blocks[b]["stmts"][i]["sp"], VIOLATION,
                  "the tag-letter bits are OR-ed into the same variable as the member flags: a tag letter and a member name "
                  "that share a bit are mistaken for each other, so acceptance depends on which members are present", b)
    cand = {k: v for k, v in cand.items() if k not in flags}
    if not cand:
        return
    k = sorted(cand)[0]
    ors = cand[k]
    from ..srules import leaf_values

    def pow2(n):
        return isinstance(n, int) and n > 0 and n & (n - 1) == 0

    def one_hot(an_, v, depth=0):
        """True: every value flowing into v is a one-bit mask (1 << something, a power-of-two constant, an entry of a constant
        table of such); False: some value is plain arithmetic on the input (an index, not a mask); None: not recognised"""
        leaves = leaf_values(an_, v)
        if not leaves:
            return None
        verdict = True
        for l in leaves:
            while l[0] == "cast":
                l = l[-1]
            if l[0] == "agg" and l[1].endswith(":None"):
                continue
            if l[0] == "agg" and l[1].endswith(":Some"):
                r = one_hot(an_, l[2][0], depth + 1)
                if r is False:
                    return False
                if r is None:
                    verdict = None
                continue
            if l[0] == "const":
                if pow2(l[1]):
                    continue
                return False
            if l[0] == "bin" and l[1] == "Shl" and l[2][0] == "const" and l[2][1] == 1:
                continue
            if l[0] == "call" and l[1].rsplit("::", 1)[-1] in ("checked_shl", "wrapping_shl", "unbounded_shl", "pow", "checked_pow") and \
                    l[2] and l[2][0][0] == "const" and l[2][0][1] in (1, 2):
                continue        # 1.checked_shl(n) / 2.pow(n): Some(one bit) or None
            if l[0] == "proj":
                inner0 = l
                while inner0[0] == "proj":
                    inner0 = inner0[1]
                if inner0[0] == "call" and inner0[1].rsplit("::", 1)[-1] in ("checked_shl", "checked_pow") and \
                        inner0[2] and inner0[2][0][0] == "const" and inner0[2][0][1] in (1, 2):
                    continue
            if l[0] == "proj" and depth < 3:
                # payload of a value returned by a closure / local function
                inner = l
                while inner[0] == "proj":
                    inner = inner[1]
                cal = inner[1] if inner[0] == "try" else inner
                cf = None
                if cal[0] == "call":
                    cf = ctx.F.fns.get(cal[1])
                elif cal[0] == "icall":
                    for c in ctx.F.closures_of(fn.path):
                        cf = c if cf is None else cf
                if cf is not None:
                    ca = ctx.E.an(cf)
                    rets = [v2 for n, kk, v2 in s.return_kinds(cf)]
                    rs = [one_hot(ca, r, depth + 1) for r in rets]
                    if rets and all(r is True for r in rs):
                        continue
                    if any(r is False for r in rs):
                        return False
                    verdict = None
                    continue
            if l[0] == "bin" and l[1] in ("Add", "Sub", "AddUnchecked", "SubUnchecked") and \
                    not contains_value(l, lambda y: y[0] == "bin" and y[1] in ("Shl", "ShlUnchecked")) and \
                    not contains_value(l, lambda y: y[0] in ("call", "elem", "load", "proj", "phi")):
                return False        # letter - 'a' (+ 26): the bit's index, not its mask
            verdict = None
        return verdict
    letter_bits_injective(ctx, s, fn)
    for b, i, v in ors:
        bit = v[3] if (v[2][0] == "phi" and v[2][2] == ("local", k)) or v[2] == ("local", k) else v[2]
        if contains_value(v[3], lambda y: y[0] == "phi" and y[2] == ("local", k)):
            bit = v[2]
        acc = v[2] if bit is v[3] else v[3]
        mask_ok = one_hot(an, bit)
        # duplicate test on the same value: (found_tags & bit) != bit, or (found_tags & bit) == 0, dominates the update;
        # or the same bit looked at the other way round: (found_tags >> index) & 1 with bit = 1 << index
        tested = False
        is_acc = lambda y: y[0] == "phi" and y[2] == ("local", k)
        for f in ctx.E.facts(fn, b):
            t = f[1] if len(f) > 1 else None
            if not (isinstance(t, tuple) and t):
                continue
            kv = f[2] if len(f) > 2 else None
            kv = kv[1] if isinstance(kv, tuple) and kv and kv[0] == "const" else kv
            if t[0] == "bin" and t[1] == "BitAnd" and (t[3] == bit or t[2] == bit):
                if f[0] == "ne" and f[2] == bit:
                    tested = True
                if f[0] in ("eq", "eqc") and kv == 0:
                    tested = True
                continue
            if t[0] == "bin" and t[1] == "BitAnd" and bit[0] == "bin" and bit[1] == "Shl":
                sh = [x for x in (t[2], t[3]) if x[0] == "bin" and x[1] == "Shr" and is_acc(x[2])]
                one = [x for x in (t[2], t[3]) if x[0] == "const" and x[1] == 1]
                strip = lambda y: y[-1] if y[0] == "cast" else y
                if sh and one and strip(sh[0][3]) == strip(bit[3]) and ((f[0] in ("eq", "eqc") and kv == 0) or (f[0] in ("ne", "nec") and kv == 1)):
                    tested = True
                    continue
            if tested is False and contains_value(t, is_acc):
                tested = None       # the bitmap is tested, in a form not recognised here
        sp = fn.blocks[b]["stmts"][i]["sp"]
        if mask_ok is False or tested is False:
            verdict = VIOLATION
        elif mask_ok and tested:
            verdict = PROVED
        else:
            verdict = UNDECIDED
        s.add("S-ONEHOT", fn, "tag-letter-bitmap", "found_tags", sp, verdict,
              "the value OR-ed into (and tested against) found_tags is 1 << letter-index" if verdict == PROVED else
              ("the tag-letter bitmap is updated with something that is not a one-bit mask (mask=%s, same value tested=%s): "
               "acceptance depends on which letters came earlier" % (mask_ok, tested)) if verdict == VIOLATION else
              "how the mask is computed or tested was not recognised (mask=%s, tested=%s): not decided" % (mask_ok, tested), b)


def letter_bits_injective(ctx, s, fn):
    """the 52 tag letters get 52 different bits: the function (closure) that maps a letter to its mask is evaluated for every
    letter - two letters sharing a bit make a filter naming both look like a duplicate"""
    from ..srules import eval_fn_scalar
    cands = [c for c in ctx.F.closures_of(fn.path) if c.argc == 2]
    best = None
    for cf in cands:
        r = eval_fn_scalar(s, cf, lambda y: y == ("param", 2), ord("e"))
        if isinstance(r, tuple) and r[0] == "Some":
            best = cf
    if best is None:
        s.add("S-ONEHOT", fn, "letter-bits-distinct", "A-Za-z", fn.sp, UNDECIDED,
              "no separate letter-to-mask function was found to evaluate (the mask is computed in place): not decided")
        return
    masks = {}
    unknown = []
    for c in list(range(65, 91)) + list(range(97, 123)):
        r = eval_fn_scalar(s, best, lambda y: y == ("param", 2), c)
        if isinstance(r, tuple) and r[0] == "Some" and isinstance(r[1], int):
            masks[c] = r[1]
        else:
            unknown.append(c)
    clash = {}
    for c, m in masks.items():
        clash.setdefault(m, []).append(chr(c))
    dup = sorted(v for v in clash.values() if len(v) > 1)
    bad = [chr(c) for c, m in masks.items() if m <= 0 or m & (m - 1) or m >= 1 << 64]
    if unknown:
        s.add("S-ONEHOT", best, "letter-bits-distinct", "A-Za-z", best.sp, UNDECIDED,
              "the mask could not be evaluated for %s" % "".join(chr(c) for c in unknown[:8]))
    else:
        ok = not dup and not bad
        s.add("S-ONEHOT", best, "letter-bits-distinct", "A-Za-z", best.sp, PROVED if ok else VIOLATION,
              "the 52 tag letters map to 52 distinct one-bit masks below 2^64" if ok else
              "tag letters share a bit or get a non-one-bit mask (%s): a filter naming both letters of a pair is rejected as a "
              "duplicate" % (", ".join("/".join(v) for v in dup) or ",".join(bad)))


def emission_order(ctx, s, fn):
    an = ctx.E.an(fn)
    cfg = an.cfg
    def first(names):
        cs = s.calls(fn, names=names)
        return cs[0][0] if cs else None
    rid = first({parsers.JP + "read_id"})
    rpk = first({parsers.JP + "read_pubkey"})
    # the member loop: the loop containing the starts_with/eq dispatch; the emission must come after it
    loops = cfg.natural_loops()
    from ..main import AnalysisError
    if rid is None or rpk is None:
        raise AnalysisError("id/author emission not found in the filter parser")
    # the member loop: the smallest loop holding (nearly) all the member dispatch sites
    disp = [b for b, info in an.calls() if s.nice(info["callee"] or "") == parsers.JP + "eat_colon_with_whitespace"]
    main_loop = None
    _k, _init, _sets, _other = parsers.flag_sets(ctx, s, fn, "found")
    marks = [b for b, i, cs, facts in _sets] or disp
    for H, body in loops.items():
        if marks and all(d in body for d in marks):
            if main_loop is None or len(body) < len(loops[main_loop]):
                main_loop = H
    inloop = loops[main_loop] if main_loop is not None else set()
    # kinds emission: the put, outside the member loop, whose data derives from a number read by read_u64 (however it
    # is narrowed: cast, try_from, ...); tags emission: the json_unescape call
    unesc = first({"pocket_types::json::json_escape::json_unescape"})
    kinds_put = None
    for b, info in s.calls(fn, names={"pocket_types::json::put"}):
        if b in inloop:
            continue
        d = info["pre"][2] if info["pre"][2] is not None else info["args"][2]
        if any(contains_value(x, lambda y: y[0] == "call" and y[1].endswith("read_u64")) for x in deep_values(an, d, 5)):
            kinds_put = b
    seq = [("ids", rid), ("authors", rpk), ("kinds", kinds_put), ("tags", unesc)]
    ok = all(b is not None for _, b in seq)
    if ok:
        for (n1, b1), (n2, b2) in zip(seq, seq[1:]):
            if b1 in s.reach(fn, [b2]):
                ok = False
    after = main_loop is not None and all(b is not None and b not in loops[main_loop] for _, b in seq)
    s.add("S-ORDER", fn, "layout-order-emission", "ids<authors<kinds<tags", fn.sp, PROVED if (ok and after) else VIOLATION,
          "after the member loop the arrays are written in layout order, whatever order the members were found in" if (ok and after) else
          "the arrays are not emitted in fixed layout order after the member loop: the binary form depends on member order")


def separator_protocol(ctx, s, w):
    """S-ORDER: the writer separates members with a 'nothing written yet' flag: a test of the flag (comma if something
    was written) is followed, before the flag is tested again, by clearing the flag - otherwise two members can follow
    each other without a comma (or the first one gets a comma).  The flag is found by its use: a boolean local whose
    test leads straight to push(b',')."""
    an = ctx.E.an(w)
    cfg = an.cfg
    tests = {}      # flag local -> [switch blocks testing it]
    for b, info in an.term.items():
        if info["kind"] != "switch" or info.get("dty") != "bool":
            continue
        D = info["discr"]
        while D[0] == "not":
            D = D[1]
        if D[0] == "phi" and D[2][0] == "local":
            L = D[2][1]
        elif D[0] == "const":
            continue
        else:
            continue
        if "inl" in w.locals[L] and False:
            continue
        # one arm begins with push(',')
        comma = False
        for e in cfg.out_edges[b]:
            ti = an.term.get(e.dst)
            if ti and ti["kind"] == "call" and (ti["callee"] or "").endswith("::push") and len(ti["args"]) > 1 and \
                    ti["args"][1] == ("const", 44, "u8"):
                comma = True
        if comma:
            tests.setdefault(L, []).append(b)
    for L, tb in sorted(tests.items()):
        if len(tb) < 2:
            continue
        clears = [b for (b, i), loc in an.stmt_loc.items() if loc == ("local", L) and an.stmt_val[(b, i)] == ("const", 0, "bool")]
        bad = []
        for t in tb:
            outs = [e.node for e in cfg.out_edges[t]]
            reach = s.reach(w, outs, avoid=clears)
            again = [x for x in tb if x in reach]
            if again:
                bad.append((t, again))
        name = w.locals[L].get("n") or "_%d" % L
        if bad:
            t, again = bad[0]
            s.add("S-ORDER", w, "separator-flag-cleared", name, w.blocks[t]["term"]["sp"], VIOLATION,
                  "after this separator test a member is written and the flag can be tested again without having been cleared: "
                  "two members then follow each other without a comma (the output is not valid JSON)", t)
        else:
            s.add("S-ORDER", w, "separator-flag-cleared", name, w.sp, PROVED,
                  "%d separator tests: each is followed by clearing the flag before the flag is tested again" % len(tb))


def _content_reads(ctx, v, buf):
    """sub-values of v that read the contents of the buffer `buf` (not its length, and not a sub-slice handed to a
    callee through a &mut parameter, which is a write destination)"""
    hits = []

    def rec(x):
        if not isinstance(x, tuple) or not x:
            return
        if isinstance(x[0], str):
            if x[0] == "call":
                name = x[1].rsplit("::", 1)[-1]
                if name in ("len", "is_empty"):
                    return
                f = ctx.F.fns.get(x[1])
                for i, a in enumerate(x[2]):
                    if f is not None and i < len(f.inputs) and f.inputs[i]["s"].startswith("&mut"):
                        continue
                    rec(a)
                return
            if x[0] in ("slice", "index", "aload", "load") and contains_value(x[1], lambda y: y == buf):
                hits.append(x)
                return
            for y in x[1:]:
                rec(y)
        else:
            for y in x:
                rec(y)
    rec(v)
    return hits


def no_decision_on_earlier_members(ctx, s, fn):
    """S-ORDER: the only state the member loop carries from one member to the next is the seen-flags; no branch depends on
    what an earlier member wrote into the output buffer (that would make acceptance depend on member order)"""
    an = ctx.E.an(fn)
    buf = ("param", 2)
    n = 0
    bad = 0
    for b, info in sorted(an.term.items()):
        if info["kind"] != "switch":
            continue
        n += 1
        reads = _content_reads(ctx, info["discr"], buf)
        if not reads:
            continue
        bad += 1
        flagged = False
        for f in ctx.E.facts(fn, b):
            if not (isinstance(f[1], tuple) and f[1] and f[1][0] == "bin" and f[1][1] == "BitAnd"):
                continue
            k = f[2] if len(f) > 2 else None
            kv = k[1] if isinstance(k, tuple) and k and k[0] == "const" else k
            if (f[0] in ("eq", "eqc") and kv not in (0, None)) or (f[0] in ("ne", "nec") and kv == 0):
                flagged = True      # "member was seen"
        s.add("S-ORDER", fn, "decision-reads-earlier-member", s.show(reads[0], fn)[:50], info["sp"], UNDECIDED if flagged else VIOLATION,
              "a branch compares against a value an earlier member wrote to the output; it is taken only when that member was seen - "
              "whether the sibling arm makes the symmetric test is not decided here" if flagged else
              "a branch depends on what an earlier member wrote into the output buffer, without testing that the member was seen: "
              "acceptance then depends on member order", b)
    if not bad:
        s.add("S-ORDER", fn, "decision-reads-earlier-member", "none", fn.sp, PROVED,
              "%d branch conditions examined: none reads the contents of the output buffer" % n)
