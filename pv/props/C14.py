"""C14 - concurrent stores serialize; concurrent queries see only whole committed states."""
from ..srules import S
from . import txn, storage

EXPLANATION = (
    "Schedules are not enumerated. Decided is the isolation discipline the property rests on: store_event, "
    "remove_event acquire exactly one write transaction (LMDB's single writer lock) before any other access to "
    "index state, and every check whose outcome gates the append (duplicate, deleted-id, deleted-address, "
    "'anything left => Replaced') reads through that held write transaction, not a fresh snapshot; the append "
    "happens before the commit and the indexed offset is the appended one; the non-atomic grow-and-retry "
    "appender is entered only while the writer lock is held; the dependency takes append_lock before the map "
    "lock in both append and resize; every public read API of Store reaches no write/file/map/shared-memory effect; a query opens exactly one read transaction, outside every loop, and nothing it reaches opens another. "
    "Linearizability, exactly-one-winner and reader-prefix consistency themselves are not decided; LMDB MVCC is trusted.")
EXPLANATION += " Also decided: the LMDB environment is not opened with NO_LOCK (the single-writer mutex and the reader table every clause above relies on stay in force)."
EXPLANATION += ' Also decided: every verdict about stored state (Duplicate, Replaced, Deleted, InvalidDelete) of store_event is formed behind the acquisition of the write transaction.'
ASSUMPTIONS = ["LMDB allows one write transaction at a time and gives readers a snapshot (MVCC)"]


def run(ctx):
    s = S(ctx)
    storage.env_flags(ctx, s)
    for root in ("pocket_db::Store::store_event", "pocket_db::Store::remove_event"):
        txn.single_write_txn_first(ctx, s, root)
        txn.effects_use_callers_txn(ctx, s, root)
    txn.verdicts_under_writer(ctx, s, "pocket_db::Store::store_event")
    storage.gating_checks_use_write_txn(ctx, s)
    storage.append_index_commit_order(ctx, s, "pocket_db::Store::store_event")
    storage.appender_callers(ctx, s)
    storage.lock_order(ctx, s)
    storage.readers_are_pure(ctx, s)
    storage.one_snapshot(ctx, s)
