"""S-RECHECK: scans over lossy (padded / truncated) tag keys must re-verify the full value on the
fetched event before acting on it (shared by C05, C09, C17)."""
from ..srules import S, find_values, contains_value
from ..guard import PROVED, VIOLATION, UNDECIDED

LOSSY_ITERS = {"pocket_db::Lmdb::tc_iter": "key_tc_index", "pocket_db::Lmdb::atc_iter": "key_atc_index",
               "pocket_db::Lmdb::ktc_iter": "key_ktc_index"}


def builder_is_lossy(ctx, s, builder):
    """does the key builder truncate (upper-bounded slice of a parameter) or pad a slice parameter?"""
    fn = ctx.fn("pocket_db::Lmdb::" + builder)
    an = ctx.E.an(fn)
    trunc = pad = False
    P = ctx.E.prover(fn)
    for b, info in an.calls():
        v = info["value"]
        if v[0] == "sliceto" and contains_value(v[1], lambda x: x[0] == "param"):
            if P.infeasible(ctx.E.facts(fn, b)):
                continue        # the truncating branch can never run
            trunc = True
        if (info["callee"] or "").endswith("::repeat"):
            pad = True
    # a length byte written into the key makes padding lossless (but truncation still loses)
    return trunc, pad


def lossy_rechecks(ctx, s):
    F = ctx.F
    lossy = {}
    for it, builder in LOSSY_ITERS.items():
        trunc, pad = builder_is_lossy(ctx, s, builder)
        lossy[it] = trunc or pad
    ctx.floor("S-RECHECK.lossy-builders", sum(1 for v in lossy.values() if v), 3)
    n_sites = 0
    for p, fn in sorted(F.fns.items()):
        if not p.startswith("pocket_db::") or fn.kind == "Closure":
            continue
        an = ctx.E.an(fn)
        sites = [(b, i) for b, i in an.calls() if s.nice(i["callee"] or "") in LOSSY_ITERS and lossy[s.nice(i["callee"])]]
        if not sites:
            continue
        cfg = an.cfg
        loops = cfg.natural_loops()
        # verification edges
        good = []
        for node in an.edge_cond:
            for f in s.edge_new_facts(fn, node):
                if f[0] == "true" and contains_value(f[1], lambda x: x[0] == "call" and x[1].endswith("::event_matches")):
                    good.append(node)
                if f[0] in ("true", "false") and f[1][0] == "call" and f[1][1].rsplit("::", 1)[-1] in ("eq", "ne"):
                    equal = (f[1][1].rsplit("::", 1)[-1] == "eq") == (f[0] == "true")
                    if equal and contains_value(f[1], lambda x: x[0] == "call" and x[1].endswith("::get_value")):
                        good.append(node)
                if f[0] == "true" and f[1][0] == "phi":
                    # boolean && chains are expanded by the prover into the facts of the taken edge
                    pass
            # expanded boolean joins
            ef = s.edge_facts(fn, node)
            for f in ef:
                if f[0] in ("true", "false") and f[1][0] == "call" and f[1][1].rsplit("::", 1)[-1] in ("eq", "ne"):
                    pass
        good = sorted(set(good))
        for cb, cinfo in sites:
            n_sites += 1
            itname = s.nice(cinfo["callee"]).split("::")[-1]
            # the loop that consumes this iterator
            body = None
            next_val = None
            for H, bd in loops.items():
                for b in bd:
                    info = an.term.get(b)
                    if info and info["kind"] == "call" and (info["base"] or "").endswith("Iterator::next"):
                        org = info["pre"][0]
                        if contains_value(org, lambda x: x == cinfo["value"]) or _origin_has(ctx, fn, org, cinfo["value"]):
                            if body is None or len(bd) < len(body):
                                body = bd
                                next_val = info["value"]
            if body is None:
                s.add("S-RECHECK", fn, "scan-loop", itname, cinfo["sp"], UNDECIDED,
                      "the loop consuming this range iterator was not identified", cb)
                continue
            # actions in the loop
            actions = []
            for b in sorted(body):
                info = an.term.get(b)
                if info and info["kind"] == "call":
                    c = info["callee"] or ""
                    n = s.nice(c)
                    if c.endswith("::insert") and "btree" in c:
                        actions.append((b, info, "insert into result set"))
                    elif n in ("pocket_db::Store::remove_by_offset", "pocket_db::Store::remove_by_id"):
                        actions.append((b, info, "remove"))
            for node, kind, v in s.return_kinds(fn):
                blk = node if node < cfg.nblocks else cfg.edges[node - cfg.nblocks].src
                in_loop = blk in body or (next_val is not None and contains_value(v, lambda x: x == next_val))
                if kind == "ok" and in_loop and v[0] == "agg" and contains_value(v, lambda x: x[0] == "agg" and x[1].endswith(":Some")):
                    actions.append((blk, {"sp": fn.blocks[blk]["term"]["sp"]}, "return Some(event)"))
            if not actions:
                s.add("S-RECHECK", fn, "scan-loop", itname, cinfo["sp"], UNDECIDED, "no action found in the scan loop", cb)
            for ab, ainfo, what in actions:
                ok = s.must_pass(fn, ab, good)
                s.add("S-RECHECK", fn, "recheck-before-" + what.split()[0], itname, ainfo["sp"],
                      PROVED if ok else VIOLATION,
                      "the fetched event is re-verified (full predicate or full tag value) on every path to this action" if ok else
                      "an event fetched through the padded/truncated tag key of %s can be acted on (%s) without comparing the "
                      "full tag value: neighbouring values collide" % (itname, what), ab)
    ctx.floor("S-RECHECK.scan-sites", n_sites, 5)


def _origin_has(ctx, fn, v, target, depth=0, seen=None):
    """does the iterator value v originate (through phi / next-clobbers / into_iter) from target?"""
    an = ctx.E.an(fn)
    if seen is None:
        seen = set()
    if v in seen or depth > 12:
        return False
    seen.add(v)
    if contains_value(v, lambda x: x == target):
        return True
    if v[0] == "phi":
        for e in an.cfg.in_edges[v[1]]:
            st = an.out_state.get(e.src)
            if st is not None and _origin_has(ctx, fn, an.read(st, v[2]), target, depth + 1, seen):
                return True
    if v[0] == "clob":
        site = v[1]
        info = an.term.get(site[1]) if site[0] == fn.path else None
        if info and info["kind"] == "call":
            return _origin_has(ctx, fn, info["pre"][v[2]], target, depth + 1, seen)
    return False
