"""S-RECHECK: scans over lossy (padded / truncated) tag keys must re-verify the full value on the
fetched event before acting on it (shared by C05, C09, C17)."""
from ..srules import S, find_values, contains_value
from ..guard import PROVED, VIOLATION, UNDECIDED

LOSSY_ITERS = {"pocket_db::Lmdb::tc_iter": "key_tc_index", "pocket_db::Lmdb::atc_iter": "key_atc_index",
               "pocket_db::Lmdb::ktc_iter": "key_ktc_index"}


def builder_is_lossy(ctx, s, builder):
    """does the key builder truncate (upper-bounded slice of a parameter) or pad a slice parameter?"""
    fn = ctx.fn("pocket_db::Lmdb::" + builder)
    an = ctx.E.an(fn)
    trunc = pad = False
    P = ctx.E.prover(fn)
    for b, info in an.calls():
        v = info["value"]
        if v[0] == "sliceto" and contains_value(v[1], lambda x: x[0] == "param"):
            if P.infeasible(ctx.E.facts(fn, b)):
                continue        # the truncating branch can never run
            trunc = True
        if (info["callee"] or "").endswith("::repeat"):
            pad = True
    # a length byte written into the key makes padding lossless (but truncation still loses)
    return trunc, pad


def lossy_rechecks(ctx, s):
    F = ctx.F
    lossy = {}
    for it, builder in LOSSY_ITERS.items():
        trunc, pad = builder_is_lossy(ctx, s, builder)
        lossy[it] = trunc or pad
    ctx.floor("S-RECHECK.lossy-builders", sum(1 for v in lossy.values() if v), 3)
    n_sites = 0
    for p, fn in sorted(F.fns.items()):
        if not p.startswith("pocket_db::") or fn.kind == "Closure":
            continue
        an = ctx.E.an(fn)
        sites = [(b, i) for b, i in an.calls() if s.nice(i["callee"] or "") in LOSSY_ITERS and lossy[s.nice(i["callee"])]]
        if not sites:
            continue
        cfg = an.cfg
        loops = cfg.natural_loops()
        # verification edges
        good = []
        for node in an.edge_cond:
            for f in s.edge_new_facts(fn, node):
                if f[0] == "true" and contains_value(f[1], lambda x: x[0] == "call" and x[1].endswith("::event_matches")):
                    good.append(node)
                if f[0] in ("true", "false") and f[1][0] == "call" and f[1][1].rsplit("::", 1)[-1] in ("eq", "ne"):
                    equal = (f[1][1].rsplit("::", 1)[-1] == "eq") == (f[0] == "true")
                    if equal and contains_value(f[1], lambda x: x[0] == "call" and x[1].endswith("::get_value")):
                        good.append(node)
                if f[0] == "true" and f[1][0] == "phi":
                    # boolean && chains are expanded by the prover into the facts of the taken edge
                    pass
            # expanded boolean joins
            ef = s.edge_facts(fn, node)
            for f in ef:
                if f[0] in ("true", "false") and f[1][0] == "call" and f[1][1].rsplit("::", 1)[-1] in ("eq", "ne"):
                    pass
        good = sorted(set(good))
        for cb, cinfo in sites:
            n_sites += 1
            itname = s.nice(cinfo["callee"]).split("::")[-1]
            # the loop that consumes this iterator
            body = None
            next_val = None
            for H, bd in loops.items():
                for b in bd:
                    info = an.term.get(b)
                    if info and info["kind"] == "call" and (info["base"] or "").endswith("Iterator::next"):
                        org = info["pre"][0]
                        if contains_value(org, lambda x: x == cinfo["value"]) or _origin_has(ctx, fn, org, cinfo["value"]):
                            if body is None or len(bd) < len(body):
                                body = bd
                                next_val = info["value"]
            if body is None:
                s.add("S-RECHECK", fn, "scan-loop", itname, cinfo["sp"], UNDECIDED,
                      "the loop consuming this range iterator was not identified", cb)
                continue
            # actions in the loop
            actions = []
            for b in sorted(body):
                info = an.term.get(b)
                if info and info["kind"] == "call":
                    c = info["callee"] or ""
                    n = s.nice(c)
                    if c.endswith("::insert") and "btree" in c:
                        actions.append((b, info, "insert into result set"))
                    elif n in ("pocket_db::Store::remove_by_offset", "pocket_db::Store::remove_by_id"):
                        actions.append((b, info, "remove"))
            for node, kind, v in s.return_kinds(fn):
                blk = node if node < cfg.nblocks else cfg.edges[node - cfg.nblocks].src
                in_loop = blk in body or (next_val is not None and contains_value(v, lambda x: x == next_val))
                if kind == "ok" and in_loop and v[0] == "agg" and contains_value(v, lambda x: x[0] == "agg" and x[1].endswith(":Some")):
                    actions.append((blk, {"sp": fn.blocks[blk]["term"]["sp"]}, "return Some(event)"))
            if not actions:
                s.add("S-RECHECK", fn, "scan-loop", itname, cinfo["sp"], UNDECIDED, "no action found in the scan loop", cb)
            for ab, ainfo, what in actions:
                ok = s.must_pass(fn, ab, good)
                s.add("S-RECHECK", fn, "recheck-before-" + what.split()[0], itname, ainfo["sp"],
                      PROVED if ok else VIOLATION,
                      "the fetched event is re-verified (full predicate or full tag value) on every path to this action" if ok else
                      "an event fetched through the padded/truncated tag key of %s can be acted on (%s) without comparing the "
                      "full tag value: neighbouring values collide" % (itname, what), ab)
    ctx.floor("S-RECHECK.scan-sites", n_sites, 5)


def _origin_has(ctx, fn, v, target, depth=0, seen=None):
    """does the iterator value v originate (through phi / next-clobbers / into_iter) from target?"""
    an = ctx.E.an(fn)
    if seen is None:
        seen = set()
    if v in seen or depth > 12:
        return False
    seen.add(v)
    if contains_value(v, lambda x: x == target):
        return True
    if v[0] == "phi":
        for e in an.cfg.in_edges[v[1]]:
            st = an.out_state.get(e.src)
            if st is not None and _origin_has(ctx, fn, an.read(st, v[2]), target, depth + 1, seen):
                return True
    if v[0] == "clob":
        site = v[1]
        info = an.term.get(site[1]) if site[0] == fn.path else None
        if info and info["kind"] == "call":
            return _origin_has(ctx, fn, info["pre"][v[2]], target, depth + 1, seen)
    return False


ADDRESS_SCANS = ("pocket_db::Store::remove_parameterized_replaceable", "pocket_db::Store::find_parameterized_replaceable_event_inner",
                 "pocket_db::Store::remove_replaceable", "pocket_db::Store::find_replaceable_event_inner")


def address_scans_author_scoped(ctx, s):
    """an address is (kind, author, d): every scan that looks for / removes the events at an address is keyed by the
    address's author (the index prefix then confines it to that author), or compares the fetched event's pubkey with it.
    A scan keyed by kind and tag alone reaches other authors' events with the same kind and d."""
    for name in ADDRESS_SCANS:
        if name not in ctx.F.by_nice:
            continue
        fn = ctx.fn(name)
        an = ctx.E.an(fn)
        ctx.functions.add(fn.path)
        scans = [(b, i) for b, i in an.calls() if s.nice(i["callee"] or "").startswith("pocket_db::Lmdb::") and
                 s.nice(i["callee"] or "").endswith("_iter")]
        # what denotes the author: a Pubkey-typed parameter, or the author field of an Addr parameter
        def is_author(v):
            if v[0] == "param" and "Pubkey" in fn.locals[v[1]]["ty"]["s"]:
                return True
            if v[0] in ("init", "proj", "field", "ref", "byref", "deref"):
                # addr.author: field `author` of the Addr the function was given
                x = v
                fld = None
                for _ in range(6):
                    if x[0] == "field":
                        fld = x[2]
                        x = x[1]
                    elif x[0] == "proj" and x[2][0] == "f":
                        fld = x[2][1]
                        x = x[1]
                    elif x[0] in ("init", "ref", "byref", "deref") and isinstance(x[1], tuple):
                        x = x[1]
                    else:
                        break
                if x[0] == "param" and "Addr" in fn.locals[x[1]]["ty"]["s"] and fld is not None:
                    adt = ctx.F.adts.get("pocket_types::addr::Addr")
                    if adt and fld < len(adt["variants"][0]["fields"]) and adt["variants"][0]["fields"][fld]["n"] == "author":
                        return True
            return False
        for b, info in scans:
            keyed = any(contains_value(a, is_author) for a in info["args"] + [p for p in info["pre"] if p is not None])
            compared = False
            if not keyed:
                for node in an.edge_cond:
                    for f in s.edge_new_facts(fn, node):
                        if f[0] in ("true", "false") and f[1][0] == "call" and f[1][1].rsplit("::", 1)[-1] in ("eq", "ne"):
                            equal = (f[1][1].rsplit("::", 1)[-1] == "eq") == (f[0] == "true")
                            if equal and contains_value(f[1], lambda x: x[0] == "call" and x[1].endswith("::pubkey")) and \
                                    contains_value(f[1], is_author):
                                compared = True
            itname = s.nice(info["callee"]).split("::")[-1]
            ok = keyed or compared
            s.add("S-RECHECK", fn, "address-scan-author-scoped", itname, info["sp"], PROVED if ok else VIOLATION,
                  "the scan is keyed by the address's author" if keyed else
                  ("the fetched event's pubkey is compared with the address's author" if compared else
                   "the events at an address are looked up through %s, which is not keyed by the address's author, and the author is "
                   "not compared afterwards: another author's event with the same kind and d is treated as this address's" % itname), b)
