"""C12 - a store call that fails changes nothing observable."""
from ..srules import S
from ..guard import PROVED, VIOLATION, UNDECIDED
from . import txn
from .effects import effect_sites, kind_of

EXPLANATION = (
    "Decides the structural mechanism of atomicity: Store::store_event acquires exactly one write transaction, "
    "before any other access to index state; every LMDB mutation in the call-graph closure of store_event "
    "(index tables and deletion-marker tables) is issued through that transaction, handed down parameter by "
    "parameter; no function below store_event opens, commits or aborts a write transaction; commit is the last "
    "store/index call, all success returns pass its Ok edge and no error return is reachable after it; the only "
    "non-transactional effects reachable are the append/grow inside EventStore::store_event (appended bytes of a "
    "failed store are unreachable through every index and are not among the observables the statement lists). "
    "LMDB's own abort-on-drop semantics are trusted, not decided.")
ASSUMPTIONS = ["dropping a heed RwTxn without commit aborts it (LMDB semantics)"]

ROOT = "pocket_db::Store::store_event"


def run(ctx):
    s = S(ctx)
    fn = ctx.fn(ROOT)
    txn.single_write_txn_first(ctx, s, ROOT)
    n_eff = txn.effects_use_callers_txn(ctx, s, ROOT)
    ctx.floor("C12.lmdb-mutation-sites", n_eff, 16)
    txn.error_paths_do_not_commit(ctx, s, ROOT)
    n = txn.results_not_dropped(ctx, s, ROOT)
    ctx.floor("C12.result-call-sites", n, 40)
    non_transactional_effects(ctx, s, fn)


def non_transactional_effects(ctx, s, fn):
    appender = ctx.fn("pocket_db::EventStore::store_event")
    sites = effect_sites(ctx, [fn.path])
    inside = ctx.G.reachable([appender.path])
    # what is reachable from store_event without going through the appender
    outside = set()
    stack = [fn.path]
    while stack:
        p = stack.pop()
        if p in outside or p not in ctx.F.fns or p == appender.path:
            continue
        outside.add(p)
        stack.extend(ctx.G.out.get(p, ()))
    n = 0
    for p, bi, c, kind, t in sites:
        if kind.startswith("LMDB"):
            continue
        n += 1
        g = ctx.F.fns[p]
        desc = "%s:%s in %s" % (kind, c.rsplit("::", 2)[-2] + "::" + c.rsplit("::", 1)[-1] if "::" in c else c, g.nice.split("::", 1)[-1])
        if p in outside:
            s.add("S-EFFECT", g, "non-txn-effect", desc, t["sp"], VIOLATION,
                  "a file/map/atomic effect is reachable from store_event outside the event appender: it would survive a failed store", bi)
        elif p in inside:
            s.add("S-EFFECT", g, "non-txn-effect", desc, t["sp"], PROVED,
                  "confined to the append/grow path of EventStore::store_event", bi)
    ctx.floor("C12.non-transactional-effect-sites", n, 3)
