"""Structural rules about the append-only event map and its coupling to the LMDB indexes
(shared by C04, C13, C14, C15, C16, C18)."""
from ..srules import S, find_values, contains_value, unbyref
from ..guard import PROVED, VIOLATION, UNDECIDED
from ..facts import AnchorMissing
from ..prove import lin_add, lin_const, lin_atoms
from ..sym import strip_sites, walk
from .effects import kind_of, effect_sites
from . import txn

APPENDER = "pocket_db::EventStore::store_event"
DEP_APPEND = "mmap_append::MmapAppend::append"
DEP_RESIZE = "mmap_append::MmapAppend::resize"
DEP_NEW = "mmap_append::MmapAppend::new"
DEP_GET_END = "mmap_append::MmapAppend::get_end"


def is_call_to(v, suffixes):
    return v[0] in ("call",) and v[1].rsplit("::", 1)[-1] in suffixes


# ----------------------------------------------------------------------------- dependency: append
def append_order_in_dependency(ctx, s):
    """bytes -> fence -> end marker, inside MmapAppend::append; and the written range is inside the map"""
    fn = ctx.fn(DEP_APPEND)
    an = ctx.E.an(fn)
    P = ctx.E.prover(fn)
    writer = [(b, i) for b, i in an.calls() if (i["base"] or "").endswith(("FnOnce::call_once", "FnMut::call_mut", "Fn::call"))
              and i["args"] and i["args"][0][0] == "param"]
    fence = s.calls(fn, pred=lambda n, c, b, i: c == "core::sync::atomic::fence")
    stores = []
    for b, i in an.calls():
        if (i["base"] or "").endswith("copy_from_slice") and i["args"][0][0] == "slice":
            dst = i["args"][0]
            if dst[2] == ("const", 0, "usize"):
                stores.append((b, i))
    ctx.floor("C13.append.writer-call", len(writer), 1)
    ctx.floor("C13.append.header-store", len(stores), 1)
    if len(writer) != 1 or len(stores) != 1:
        s.add("S-ORDER", fn, "append-shape", "writer/header-store", fn.sp, VIOLATION,
              "expected one writer call and one header store, found %d and %d" % (len(writer), len(stores)))
        return
    wb, winfo = writer[0]
    sb, sinfo = stores[0]
    ok_edges = s.ok_edges_of_call(fn, wb)
    if not fence:
        s.add("S-ORDER", fn, "bytes<fence<marker", "append", sinfo["sp"], VIOLATION,
              "no memory fence between writing the bytes and publishing the end marker", sb)
    else:
        fb, finfo = fence[0]
        order = an.cfg.dominates(wb, fb) and an.cfg.dominates(fb, sb) and s.must_pass(fn, sb, ok_edges)
        seqcst = "SeqCst" in str(finfo["args"][0]) or "AcqRel" in str(finfo["args"][0]) or "Release" in str(finfo["args"][0])
        if order and seqcst:
            s.add("S-ORDER", fn, "bytes<fence<marker", "append", sinfo["sp"], PROVED,
                  "writer callback (Ok edge) dominates the fence, which dominates the single header store", sb)
        else:
            s.add("S-ORDER", fn, "bytes<fence<marker", "append", sinfo["sp"], VIOLATION,
                  "the end marker can be published before the bytes are written (order writer<fence<store broken)", sb)
    # no header store anywhere else in the function, and none before the writer
    early = [b for b, i in stores if not an.cfg.dominates(wb, b)]
    if early:
        s.add("S-ORDER", fn, "marker-before-bytes", "append", sinfo["sp"], VIOLATION, "header store not dominated by the writer call")
    # the value stored is end + len, with end the marker read before and len the writer's return
    src = sinfo["args"][1]
    srcv = sinfo["pre"][1] if src[0] in ("ref", "unsize", "ptrcast") else src
    newend = None
    for x in find_values(srcv, lambda x: x[0] == "call" and x[1].rsplit("::", 1)[-1] in ("to_le_bytes", "to_ne_bytes")):
        newend = unbyref(x[2][0])
    wl = winfo["value"]
    good = False
    if newend is not None and newend[0] == "bin" and newend[1] == "Add":
        a, b = newend[2], newend[3]
        has_len = contains_value(b, lambda x: x == wl) or contains_value(a, lambda x: x == wl)
        has_end = contains_value(a, lambda x: is_call_to(x, ("from_le_bytes", "from_ne_bytes"))) or \
            contains_value(b, lambda x: is_call_to(x, ("from_le_bytes", "from_ne_bytes")))
        good = has_len and has_end
    s.add("S-REL", fn, "marker-grows", "newend = end + written", sinfo["sp"], PROVED if good else VIOLATION,
          "the stored marker is the marker read under the lock plus the writer's byte count" if good else
          "the stored end marker is not (old end + bytes written): offsets could be reused or skipped", sb)
    # the returned offset is the old end
    rets = [v for n, k, v in s.return_kinds(fn) if k == "ok"]
    good = bool(rets) and all(v[0] == "agg" and contains_value(v[2][0], lambda x: is_call_to(x, ("from_le_bytes", "from_ne_bytes")))
                              and not contains_value(v[2][0], lambda x: x == wl) for v in rets)
    s.add("S-REL", fn, "offset-is-old-end", "Ok(end)", fn.sp, PROVED if good else VIOLATION,
          "append returns the end marker read before the write" if good else "append does not return the pre-write end marker")
    # the writer's slice lies inside the mapping: G-GUARD on slice[end..end+max_len]
    obs = ctx.E.obligations(fn, ("slice", "index"))
    for o in obs:
        ctx.E.decide(fn, o)
        ctx.add(o)
    # lock order: append_lock before inner, in append and resize
    lock_order(ctx, s)


def lock_order(ctx, s):
    for name in (DEP_APPEND, DEP_RESIZE):
        fn = ctx.fn(name)
        an = ctx.E.an(fn)
        m = s.calls(fn, pred=lambda n, c, b, i: c.endswith("mutex::{impl#7}::lock") or (c.rsplit("::", 1)[-1] == "lock" and "mutex" in c))
        r = s.calls(fn, pred=lambda n, c, b, i: "rwlock" in c and c.rsplit("::", 1)[-1] in ("read", "write"))
        if len(m) >= 1 and len(r) >= 1 and all(an.cfg.dominates(m[0][0], rb) for rb, _ in r):
            s.add("S-ORDER", fn, "lock-order", "append_lock<inner", m[0][1]["sp"], PROVED,
                  "the appender mutex is taken before the map lock on every path", m[0][0])
        else:
            s.add("S-ORDER", fn, "lock-order", "append_lock<inner", fn.sp, VIOLATION,
                  "the map lock can be taken without (or before) the appender mutex: lock-order inversion or unserialised append")


# ----------------------------------------------------------------------------- append < index < commit
def append_index_commit_order(ctx, s, root, loop=False):
    fn = ctx.fn(root)
    an = ctx.E.an(fn)
    name = root.split("::")[-1]
    app = s.calls(fn, names={APPENDER})
    idx = s.calls(fn, names={"pocket_db::Lmdb::index"})
    commits = s.calls(fn, pred=lambda n, c, b, i: txn.is_commit(c))
    ctx.floor("S-ORDER.%s.append" % name, len(app), 1)
    ctx.floor("S-ORDER.%s.index" % name, len(idx), 1)
    ctx.floor("S-ORDER.%s.commit" % name, len(commits), 1)
    ab, ainfo = app[0]
    app_ok = [e for b_, i_ in app for e in s.ok_edges_of_call(fn, b_)]
    for ib, iinfo in idx:
        ok = s.must_pass(fn, ib, app_ok)
        # the offset that is indexed is the one the append (the one on this path, when there are several) returned
        off = iinfo["args"][-1]
        prov = any(contains_value(off, lambda x, v_=i_["value"]: x == v_) and
                   (len(app) == 1 or s.must_pass(fn, ib, s.ok_edges_of_call(fn, b_))) for b_, i_ in app)
        if ok and prov:
            s.add("S-ORDER", fn, "append<index", name, iinfo["sp"], PROVED,
                  "index() is reached only after the append succeeded and receives the offset it returned", ib)
        elif not ok:
            s.add("S-ORDER", fn, "append<index", name, iinfo["sp"], VIOLATION,
                  "index entries can be written for an event whose bytes have not been appended", ib)
        else:
            s.add("S-ORDER", fn, "append<index", name, iinfo["sp"], VIOLATION,
                  "the offset passed to index() is not the value returned by the append", ib)
    # the commit of the transaction that indexes comes after the append
    first_commit_after = [(cb, ci) for cb, ci in commits if any(an.cfg.dominates(ib, cb) for ib, _ in idx) or not loop]
    for cb, cinfo in (commits if not loop else first_commit_after[:1]):
        if s.must_pass(fn, cb, app_ok) or loop:
            s.add("S-ORDER", fn, "append<commit", name, cinfo["sp"], PROVED,
                  "the index transaction is committed only after the event bytes and end marker are written", cb)
        else:
            s.add("S-ORDER", fn, "append<commit", name, cinfo["sp"], VIOLATION,
                  "commit can happen before the event bytes are appended: a reader or a crash sees an index entry without bytes", cb)
    # no commit between append and index
    for cb, cinfo in commits:
        for ib, iinfo in idx:
            if any(an.cfg.dominates(b_, cb) for b_, _ in app) and an.cfg.dominates(cb, ib):
                s.add("S-ORDER", fn, "commit-between", name, cinfo["sp"], VIOLATION,
                      "a commit lies between the append and the indexing", cb)
    return app_ok


# ----------------------------------------------------------------------------- reopen
def reopen_validates_marker(ctx, s):
    fn = ctx.fn("pocket_db::EventStore::new")
    an = ctx.E.an(fn)
    P = ctx.E.prover(fn)
    news = s.calls(fn, names={DEP_NEW})
    ctx.floor("C13.reopen.map-open-calls", len(news), 1)
    good = []
    # (a) edges on which the map was just initialised: Ok edge of MmapAppend::new(_, true), or of
    #     MmapAppend::new(_, flag) where the flag is established true on that path
    for b, info in news:
        init = info["args"][1]
        oks = s.ok_edges_of_call(fn, b)
        if init[0] == "const":
            if init[1] == 1:
                good += oks
            continue
        # flag expression: edges that establish it true and dominate the call ... the call's Ok edges
        # are good only on paths through such an edge, so use the establishing edges themselves
        tmp = []
        P.truth(init, True, tmp)
        want = {f for f in tmp if f[0] == "le"}
        for node in an.edge_cond:
            ef = s.edge_facts(fn, node)
            if want and want <= {f for f in ef if f[0] == "le"}:
                good.append(node)
    # (b) edges establishing  HEADER_SIZE <= persisted end marker
    for node in an.edge_cond:
        for f in s.edge_facts(fn, node):
            if f[0] == "le":
                l = f[1]
                ats = [a for a, k in l[1]]
                if len(ats) == 1 and is_call_to(ats[0], ("get_end", "read_event_map_end")) and l[1][0][1] == -1 and l[0] >= 8:
                    good.append(node)
    oks = [n for n, k, v in s.return_kinds(fn) if k == "ok"]
    ctx.floor("C13.reopen.ok-returns", len(oks), 1)
    reach = s.reach(fn, [an.cfg.entry], avoid=good)
    bad = [n for n in oks if n in reach]
    if bad:
        s.add("S-MUSTPASS", fn, "marker-validated", "EventStore::new", fn.sp, VIOLATION,
              "an existing file is accepted without checking that its end marker is at least HEADER_SIZE "
              "(a sized but never initialised map is taken for a valid one)")
    else:
        s.add("S-MUSTPASS", fn, "marker-validated", "EventStore::new", fn.sp, PROVED,
              "every Ok return passed either a fresh initialisation or the test HEADER_SIZE <= end marker")
    # the initialise flag is never unconditionally true on the first open and the file is never truncated
    first = min(news, key=lambda x: len(an.cfg.dominators(x[0])))
    init = first[1]["args"][1]
    if init[0] == "const" and init[1] == 1:
        s.add("S-REL", fn, "no-blind-init", "MmapAppend::new(_, true)", first[1]["sp"], VIOLATION,
              "the map is re-initialised on every open: stored events become unreachable", first[0])
    else:
        dep = contains_value(init, lambda x: x[0] == "call" and x[1].rsplit("::", 1)[-1] in ("len", "metadata"))
        s.add("S-REL", fn, "no-blind-init", "MmapAppend::new(_, flag)", first[1]["sp"], PROVED if dep else UNDECIDED,
              "the initialise flag of the first mapping depends on the file length" if dep else "flag provenance not recognised", first[0])
    trunc = s.calls(fn, pred=lambda n, c, b, i: c.startswith("std::fs::") and c.rsplit("::", 1)[-1] == "truncate")
    for b, info in trunc:
        v = info["args"][1]
        if v[0] == "const" and v[1] == 0:
            s.add("S-REL", fn, "no-truncate", "OpenOptions::truncate(false)", info["sp"], PROVED, "constant false", b)
        else:
            s.add("S-REL", fn, "no-truncate", "OpenOptions::truncate", info["sp"], VIOLATION,
                  "the event map may be truncated when it is opened", b)
    # set_len in new() happens only on the "shorter than a header" path and only grows to the chunk
    for b, info in s.calls(fn, pred=lambda n, c, b, i: c.startswith("std::fs::") and c.rsplit("::", 1)[-1] == "set_len"):
        facts = ctx.E.facts(fn, b)
        short = False
        for f in facts:
            if f[0] == "le":
                pos = [a for a, k in f[1][1] if k > 0]
                if len(pos) == 1 and contains_value(pos[0], lambda x: x[0] == "call" and x[1].rsplit("::", 1)[-1] == "len"
                                                    and "fs" in x[1]):
                    short = True
        verdict = PROVED if short else VIOLATION
        if not short:
            an_ = ctx.E.an(fn)
            # the length test is made and the decision reaches set_len through a value computed from it (an enum, a flag
            # joined from both arms): conditional on something, but not read off as the length test
            lentest = any(i_["kind"] == "switch" and contains_value(i_["discr"], lambda x: x[0] == "call" and x[1].rsplit("::", 1)[-1] == "len" and "fs" in x[1])
                          for i_ in an_.term.values())
            conditional = any(f[0] in ("variant", "eqc", "true", "false", "nec", "notvariant", "eq", "ne") and isinstance(f[1], tuple) and
                              not contains_value(f[1], lambda x: x[0] == "try") for f in facts)
            if lentest and conditional:
                verdict = UNDECIDED
        s.add("S-DOM", fn, "set_len-only-if-new", "set_len", info["sp"], verdict,
              "resizing on open is dominated by the 'file shorter than a header' test" if verdict == PROVED else
              ("the file can be resized on open although it already holds a header (truncation or zero-fill of live data)"
               if verdict == VIOLATION else
               "the file-length test is made and set_len is conditional on a value computed from it: not decided"), b)


# ----------------------------------------------------------------------------- reads
def read_bound_by_marker(ctx, s):
    fn = ctx.fn("pocket_db::EventStore::get_event_by_offset")
    an = ctx.E.an(fn)
    P = ctx.E.prover(fn)
    del_calls = s.calls(fn, names={"pocket_types::Event::delineate"})
    ctx.floor("C04.read.delineate", len(del_calls), 1)
    off = ("param", 2)
    for b, info in del_calls:
        facts = ctx.E.facts(fn, b)
        ok = False
        for f in facts:
            if f[0] == "le":
                l = f[1]
                d = dict(l[1])
                ends = [a for a in d if is_call_to(a, ("read_event_map_end", "get_end"))]
                if ends and d.get(off) == 1 and d.get(ends[0]) == -1 and l[0] >= 1:
                    ok = True
        arg = info["args"][0]
        from_off = arg[0] == "slicefrom" and arg[2] == off
        if not from_off:
            # a piece of map[offset..] (cut to the record's own length, obtained through get(offset..)): it still starts at
            # the offset
            from_off = bool(find_values(arg, lambda y: (y[0] == "slicefrom" and y[2] == off) or
                                        (y[0] == "slice" and y[2] == off))) and \
                not find_values(arg, lambda y: y[0] in ("slicefrom", "slice") and y[2] != off and
                                not (y[2][0] == "const" and y[2][1] == 0))
        if ok and from_off:
            s.add("S-REL", fn, "offset<end", "delineate(map[offset..])", info["sp"], PROVED,
                  "reached only when offset < end marker; the slice starts at the offset", b)
        elif ok:
            s.add("S-REL", fn, "offset<end", "delineate(map[offset..])", info["sp"], UNDECIDED,
                  "reached only when offset < end marker; that the bytes parsed start at the offset was not recognised: not decided", b)
        else:
            s.add("S-REL", fn, "offset<end", "delineate(map[offset..])", info["sp"], VIOLATION,
                  "an offset at or beyond the end marker can be read (bytes of an unfinished append)", b)
    # delineate itself is length-delimited and bounds-checked
    dfn = ctx.fn("pocket_types::Event::delineate")
    for o in ctx.E.obligations(dfn, ("slice", "index")):
        ctx.E.decide(dfn, o)
        ctx.add(o)
    ctx.functions.add(dfn.path)


# ----------------------------------------------------------------------------- who may append / grow
def appender_callers(ctx, s, need_write_txn=True):
    F, G = ctx.F, ctx.G
    app = ctx.fn(APPENDER)
    for dep in (DEP_APPEND, DEP_RESIZE):
        callers = s.callers(dep)
        s.add("S-WHO", ctx.fn(dep), "callers", dep.split("::")[-1], ctx.fn(dep).sp,
              PROVED if callers == [APPENDER] else VIOLATION, "callers: %s" % ", ".join(callers))
    callers = s.callers(APPENDER)
    want = ["pocket_db::Store::rebuild", "pocket_db::Store::store_event"]
    s.add("S-WHO", app, "callers", "EventStore::store_event", app.sp,
          PROVED if callers == want else VIOLATION, "callers: %s" % ", ".join(callers))
    if need_write_txn:
        for c in callers:
            fn = ctx.fn(c)
            an = ctx.E.an(fn)
            wt = s.calls(fn, pred=lambda n, cc, b, i: cc.endswith("::write_txn"))
            for b, info in s.calls(fn, names={APPENDER}):
                # a write transaction (its Ok edge) must be held: acquired before and not yet committed
                held = False
                for wb, winfo in wt:
                    if s.must_pass(fn, b, s.ok_edges_of_call(fn, wb)) or an.cfg.dominates(wb, b):
                        held = True
                s.add("S-ORDER", fn, "append-under-writer-lock", c.split("::")[-1], info["sp"],
                      PROVED if held else VIOLATION,
                      "the appender is entered only after write_txn() (the single LMDB writer lock) was acquired" if held else
                      "the non-atomic grow-and-retry appender can run without the LMDB writer lock", b)
    # set_len on the map file
    sl = []
    for p, bi, c, t in G.reaches_external(sorted(F.fns), lambda c: c.startswith("std::fs::") and c.rsplit("::", 1)[-1] == "set_len",
                                          within=lambda p: p.startswith("pocket_db::")):
        sl.append(F.nice_of(p))
    want = sorted(["pocket_db::EventStore::new", APPENDER])
    s.add("S-WHO", app, "callers", "File::set_len", app.sp, PROVED if sorted(set(sl)) == want else VIOLATION,
          "set_len is called from: %s" % ", ".join(sorted(set(sl))))
    # nobody in pocket-db obtains a mutable pointer/slice into the map
    bad = []
    for p, bi, c, t in G.reaches_external(sorted(x for x in F.fns if x.startswith("pocket_db::")),
                                          lambda c: c.rsplit("::", 1)[-1] in ("as_mut_ptr", "from_raw_parts_mut", "deref_mut", "get_unchecked_mut")
                                          and (c.startswith("memmap2::") or c.startswith("core::slice::raw") or c.startswith("mmap_append::")),
                                          within=lambda p: p.startswith("pocket_db::")):
        bad.append("%s -> %s" % (F.nice_of(p), c))
    s.add("S-EFFECT", app, "no-mutable-map-access", "pocket-db", app.sp, PROVED if not bad else VIOLATION,
          "no function of pocket-db obtains a mutable pointer or slice into the event map" if not bad else "; ".join(bad))
    no_direct_file_writes(ctx, s)
    # positive example for the zero-expected query: the dependency itself does use as_mut_ptr
    pos = [c for p, bi, c, t in G.reaches_external([ctx.fn(DEP_APPEND).path], lambda c: c.rsplit("::", 1)[-1] == "as_mut_ptr")]
    ctx.floor("S-EFFECT.positive-example as_mut_ptr in mmap_append", len(pos), 1)


def growth_monotone(ctx, s):
    fn = ctx.fn(APPENDER)
    an = ctx.E.an(fn)
    sl = s.calls(fn, pred=lambda n, c, b, i: c.startswith("std::fs::") and c.rsplit("::", 1)[-1] == "set_len")
    rs = s.calls(fn, names={DEP_RESIZE})
    ctx.floor("C04.grow.set_len", len(sl), 1)
    ctx.floor("C04.grow.resize", len(rs), 1)
    for b, info in sl:
        v = info["args"][1]
        ok = contains_value(v, lambda x: x[0] == "bin" and x[1] == "Add" and
                            contains_value(x, lambda y: y[0] == "call" and y[1].rsplit("::", 1)[-1] == "load") and
                            (x[2][0] == "const" and x[2][1] > 0 or x[3][0] == "const" and x[3][1] > 0))
        s.add("S-REL", fn, "grow-only", "set_len(load(len) + CHUNK)", info["sp"], PROVED if ok else VIOLATION,
              "the new file length is the recorded length plus a positive constant" if ok else
              "the file length passed to set_len is not (recorded length + positive chunk): the map could shrink", b)
        for rb, rinfo in rs:
            same = strip_sites(rinfo["args"][1]) == strip_sites(unbyref(v[3]) if v[0] == "cast" else v) or \
                contains_value(v, lambda x: strip_sites(x) == strip_sites(rinfo["args"][1]))
            order = s.must_pass(fn, rb, s.ok_edges_of_call(fn, b))
            s.add("S-ORDER", fn, "set_len<resize", "grow", rinfo["sp"], PROVED if (same and order) else VIOLATION,
                  "the mapping is resized only after the file was grown, to the same length" if (same and order) else
                  "the mapping can be resized beyond the file length (SIGBUS on access)", rb)
    # the length remembered for the next grow is the length the file was just given
    stores = [(b, i) for b, i in an.calls() if (i["callee"] or "").startswith("core::sync::atomic::") and
              (i["callee"] or "").rsplit("::", 1)[-1] == "store"]
    uncast = lambda v: uncast(v[-1]) if v[0] == "cast" else v
    for sb, sinfo in stores:
        names, _ = s.receiver_field(fn, sinfo["args"][0])
        if not names or names[-1] != "event_map_file_len":
            continue
        sv = strip_sites(uncast(sinfo["args"][1]))
        same = any(strip_sites(uncast(i["args"][1])) == sv for b, i in sl)
        s.add("S-REL", fn, "recorded-length-follows-file", "store(len) == set_len(len)", sinfo["sp"], PROVED if same else VIOLATION,
              "the length stored for the next grow is the one just passed to set_len" if same else
              "the length remembered for the next grow differs from the length the file was given: the next grow computes a length "
              "below the real one and set_len truncates stored events", sb)
    # the grow branch is taken only for the appender's own out-of-space error; anything else is returned
    apps = s.calls(fn, names={DEP_APPEND})
    ctx.floor("C04.grow.append-calls", len(apps), 2)


def offset_provenance(ctx, s):
    """EventStore::store_event returns what MmapAppend::append returned for the event (not the padding)"""
    fn = ctx.fn(APPENDER)
    an = ctx.E.an(fn)
    apps = s.calls(fn, names={DEP_APPEND})
    rets = [v for n, k, v in s.return_kinds(fn) if k == "ok"]
    ok = bool(rets)
    from ..srules import leaf_values as _lv
    undecided = False
    for v in rets:
        payload = v[2][0] if v[0] == "agg" else v
        src = [x for x in find_values(payload, lambda x: x[0] == "call" and s.nice(x[1]) == DEP_APPEND)]
        if not src:
            # the offset handed back through a small result value of a helper (Stored(offset)): what flowed into it
            for l in (_lv(an, payload) or []):
                src += [x for x in find_values(l, lambda x: x[0] == "call" and s.nice(x[1]) == DEP_APPEND)]
        if not src:
            if contains_value(payload, lambda x: x[0] in ("phi", "proj")):
                undecided = True        # a joined value whose sources were not resolved: not decided
            else:
                ok = False
            continue
        # the append whose closure copies the event (its max_len is the event's length)
        for c in src:
            if not contains_value(c[2][1], lambda x: x[0] == "call" and x[1].rsplit("::", 1)[-1] == "len"):
                ok = False
    s.add("S-REL", fn, "offset-provenance", "Ok(offset)", fn.sp, VIOLATION if not ok else (UNDECIDED if undecided else PROVED),
          "the returned offset is the value returned by the append of the event bytes" if (ok and not undecided) else
          ("the returned offset is not the append's return value for the event" if not ok else
           "the returned offset is a joined value whose sources were not resolved: not decided"))
    # alignment padding arithmetic
    for o in ctx.E.obligations(fn, ("arith",)):
        ctx.E.decide(fn, o)
        ctx.add(o)


# ----------------------------------------------------------------------------- readers
WRITERS = {"store_event", "remove_event", "vanish", "rebuild", "sync", "write_txn", "new", "extra_table", "read_txn"}


def readers_are_pure(ctx, s):
    """every public &self method of Store other than the writers reaches no effect primitive and
    takes its view from a read transaction"""
    F, G = ctx.F, ctx.G
    n = 0
    for p, f in sorted(F.fns.items()):
        if not f.nice.startswith("pocket_db::Store::") or f.vis != "pub" or f.kind == "Closure":
            continue
        name = f.nice.split("::")[-1]
        if name in WRITERS:
            continue
        n += 1
        eff = [(q, c, k) for q, bi, c, k, t in effect_sites(ctx, [p]) if k not in ("ATOMIC",)]
        # a reader that reaches vanish/remove via find_events closures etc. would show here
        if eff:
            s.add("S-EFFECT", f, "reader-has-no-effects", name, f.sp, VIOLATION,
                  "read API reaches %s (%s)" % (eff[0][1], eff[0][2]))
        else:
            s.add("S-EFFECT", f, "reader-has-no-effects", name, f.sp, PROVED, "no write, file or map effect is reachable")
    ctx.floor("C14.reader-apis", n, 9)


def gating_checks_use_write_txn(ctx, s, root="pocket_db::Store::store_event"):
    """checks whose outcome gates the append take the *write* transaction (held lock), not a fresh snapshot"""
    fn = ctx.fn(root)
    an = ctx.E.an(fn)
    own = txn.own_write_txn_locals(ctx, s, fn)
    app = s.calls(fn, names={APPENDER})
    ab = app[0][0]
    GATES = {"pocket_db::Lmdb::get_offset_by_id", "pocket_db::Lmdb::is_deleted", "pocket_db::Lmdb::when_is_naddr_deleted",
             "pocket_db::Store::find_replaceable_event_inner", "pocket_db::Store::find_parameterized_replaceable_event_inner"}
    gates = s.calls(fn, names=GATES)
    ctx.floor("C14.gating-checks", len(gates), 5)
    for b, info in gates:
        if not an.cfg.dominates(b, ab) and not s.reach(fn, [b]) & {ab}:
            continue
        ti = None
        for i, t in enumerate(info["aty"]):
            if "RoTxn" in t or "RwTxn" in t:
                ti = i
        v = info["args"][ti] if ti is not None else None
        ok = False
        if v is not None:
            # &txn coerced through Deref: the byref payload must be the value of the write-txn local
            ok = contains_value(v, lambda x: x[0] == "call" and x[1].endswith("::write_txn")) or \
                (v[0] == "ref" and v[1][0] == "local" and v[1][1] in own)
            if not ok:
                # &txn coerced through Deref::deref(&txn): look at the receiver of the producing call
                for pb, pinfo in an.calls():
                    if pinfo["value"] == v and (pinfo["base"] or "").endswith("Deref::deref") and pb in an.cfg.dominators(b):
                        r = pinfo["args"][0]
                        if r[0] == "ref" and r[1][0] == "local" and r[1][1] in own:
                            ok = True
            if contains_value(v, lambda x: x[0] == "call" and x[1].endswith("::read_txn")):
                ok = False
        nm = s.nice(info["callee"]).split("::")[-1]
        s.add("S-TXN", fn, "gate-in-write-txn", nm, info["sp"], PROVED if ok else VIOLATION,
              "the check reads through the held write transaction" if ok else
              "a check that gates the append reads through a transaction other than the held write transaction "
              "(two concurrent stores can both pass it)", b)


def vanish_effects(ctx, s):
    fn = ctx.fn("pocket_db::Store::vanish")
    an = ctx.E.an(fn)
    allowed = {"pocket_db::Store::find_events", "pocket_db::Store::remove_event"}
    calls = [(b, i) for b, i in an.calls() if (i["callee"] or "").startswith("pocket_db::") and
             s.nice(i["callee"]).startswith("pocket_db::Store::")]
    bad = [s.nice(i["callee"]) for b, i in calls if s.nice(i["callee"]) not in allowed]
    direct = [c for p, bi, c, k, t in effect_sites(ctx, [fn.path], within=lambda p: p == fn.path)]
    if bad or direct:
        s.add("S-EFFECT", fn, "vanish-effects", "vanish", fn.sp, VIOLATION,
              "vanish does more than query and remove by id: %s" % ", ".join(bad + direct))
    else:
        s.add("S-EFFECT", fn, "vanish-effects", "vanish", fn.sp, PROVED,
              "vanish only queries (find_events) and removes by id (remove_event), each removal its own transaction")
    rem = s.calls_deep(fn, names={"pocket_db::Store::remove_event"})
    ctx.instances["C18.vanish.remove-calls"] = len(rem)
    if not rem:
        s.add("S-EFFECT", fn, "vanish-removes", "vanish", fn.sp, VIOLATION, "vanish never calls remove_event")
    return rem


def one_snapshot(ctx, s, root="pocket_db::Store::find_events"):
    """a query is answered from one read transaction: acquired once, outside every loop, and used by every
    index read in the query's closure; nothing below opens another transaction"""
    fn = ctx.fn(root)
    an = ctx.E.an(fn)
    name = root.split("::")[-1]
    wrappers = {ctx.fn(n).path for n in ("pocket_db::Lmdb::read_txn", "pocket_db::Store::read_txn",
                                         "pocket_db::Lmdb::write_txn", "pocket_db::Store::write_txn")}
    rt = s.calls(fn, pred=lambda n, c, b, i: c.endswith("::read_txn"))
    loops = an.cfg.natural_loops()
    if len(rt) != 1:
        s.add("S-TXN", fn, "one-snapshot", name, fn.sp, VIOLATION,
              "%d read transactions are opened by the query itself (expected exactly one)" % len(rt))
    else:
        b, info = rt[0]
        inloop = any(b in body for body in loops.values())
        s.add("S-TXN", fn, "one-snapshot", name, info["sp"], PROVED if not inloop else VIOLATION,
              "the query opens exactly one read transaction, outside every loop" if not inloop else
              "the read transaction is (re)opened inside a loop: different parts of the answer come from different snapshots", b)
    scope = ctx.G.reachable([fn.path], within=lambda p: p.startswith("pocket_db::"))
    ctx.functions.update(scope)
    bad = []
    for p in sorted(scope):
        if p == fn.path or p in wrappers:
            continue
        g = ctx.F.fns[p]
        for b, info in ctx.E.an(g).calls():
            c = info["callee"] or ""
            if c.endswith("::read_txn") or c.endswith("::write_txn") or c.endswith("::static_read_txn"):
                bad.append((g, b, info))
    for g, b, info in bad:
        s.add("S-TXN", g, "second-snapshot-in-query", g.nice.split("::")[-1], info["sp"], VIOLATION,
              "%s, reached from %s, opens its own transaction: part of the answer is read from a later snapshot" % (g.nice.split("::")[-1], name), b)
    if not bad:
        s.add("S-TXN", fn, "second-snapshot-in-query", "none", fn.sp, PROVED,
              "none of the %d functions reachable from the query opens a transaction" % (len(scope) - 1))


FILE_WRITE = ("write", "write_all", "write_at", "write_all_at", "write_vectored", "write_fmt", "seek", "sync_all", "sync_data",
              "set_permissions", "set_modified", "set_times")


def no_cached_map_pointers(ctx, s):
    """references into the event map are built from the mapping as it is now (through the dependency's own accessors,
    under its lock): no function of pocket-db builds a slice from a raw pointer or keeps a raw pointer in an atomic -
    a base address remembered across a growth step dangles once the mapping moves"""
    F, G = ctx.F, ctx.G
    bad = []
    for p, f in sorted(F.fns.items()):
        if not p.startswith("pocket_db::"):
            continue
        for bi, c, t in G.sites[p]:
            l = c.rsplit("::", 1)[-1]
            if c.startswith("core::slice::") and l in ("from_raw_parts", "from_raw_parts_mut"):
                bad.append((f, bi, c, t, "a slice is built from a raw pointer"))
            elif c.startswith("core::sync::atomic::") and any("AtomicPtr" in a or "Atomic<*" in a for a in (t.get("aty") or [])[:1]):
                bad.append((f, bi, c, t, "a raw pointer is kept in an atomic"))
            elif c.startswith("core::sync::atomic::") and l == "new" and any(a.startswith("*") for a in (t.get("aty") or [])[:1]):
                bad.append((f, bi, c, t, "a raw pointer is kept in an atomic"))
    anchor = ctx.fn("pocket_db::EventStore::get_event_by_offset")
    for f, bi, c, t, why in bad:
        s.add("S-EFFECT", f, "raw-pointer-into-map", c.rsplit("::", 1)[-1], t["sp"], VIOLATION,
              "%s in pocket-db (%s): an address of the event map remembered outside the mapping's own lock is stale after the map "
              "grows and moves; references built from it dangle" % (why, c), bi)
    if not bad:
        s.add("S-EFFECT", anchor, "raw-pointer-into-map", "none", anchor.sp, PROVED,
              "no function of pocket-db builds slices from raw pointers or stores a raw pointer in an atomic")


def no_direct_file_writes(ctx, s):
    """bytes of the event map change only through the appender of the mapping: no function of pocket-db writes
    to a file through a file handle (set_len, judged separately, excepted)"""
    F, G = ctx.F, ctx.G
    bad = []
    for p, f in sorted(F.fns.items()):
        if not p.startswith("pocket_db::"):
            continue
        for bi, c, t in G.sites[p]:
            l = c.rsplit("::", 1)[-1]
            if "OpenOptions" in (t.get("aty") or [""])[0]:
                continue        # builder flags of an open call, not I/O
            if l in FILE_WRITE and (c.startswith("std::fs::") or c.startswith("std::os::unix::fs::") or c.startswith("std::io::")
                                    or "FileExt" in c or "io::Write" in c or c.startswith("std::io::impls::")):
                bad.append((f, bi, c, t))
    anchor = ctx.fn(APPENDER)
    n_map = 0
    for f, bi, c, t in bad:
        an = ctx.E.an(f)
        info = an.term.get(bi)
        recv = info["args"][0] if info and info.get("args") else None
        names, root = s.receiver_field(f, recv) if recv is not None else (None, None)
        on_map = bool(names) and names[-1] == "event_map_file"
        if not on_map and recv is not None:
            # the handle reached through a local that was loaded from the field, or a clone of it
            on_map = contains_value(recv, lambda y: y[0] == "field" and _field_name(ctx, an, y) == "event_map_file") or \
                any(contains_value(x, lambda y: y[0] == "field" and _field_name(ctx, an, y) == "event_map_file")
                    for x in (info.get("pre") or []) if x is not None)
        in_store = f.nice.startswith("pocket_db::EventStore::") or f.nice.startswith("pocket_db::event_store::")
        if on_map or in_store:
            n_map += 1
            s.add("S-EFFECT", f, "file-written-directly", c.rsplit("::", 2)[-2] + "::" + c.rsplit("::", 1)[-1], t["sp"], VIOLATION,
                  "the event map file is written through its file handle (%s): stored bytes or the end marker can change under live "
                  "references, outside the append-only discipline" % c, bi)
        else:
            s.add("S-EFFECT", f, "other-file-written", c.rsplit("::", 2)[-2] + "::" + c.rsplit("::", 1)[-1], t["sp"], UNDECIDED,
                  "a file handle that is not the event store's own handle is written (%s); whether that file is the event map "
                  "(re-opened by path) is not decided" % c, bi)
    if not n_map:
        s.add("S-EFFECT", anchor, "file-written-directly", "none", anchor.sp, PROVED,
              "no function of pocket-db writes to the event map through its file handle (growth by set_len only)")


def _field_name(ctx, an, y):
    """name of the field selected by a ("field", base, idx) location, when the base type is a known struct"""
    try:
        base = y[1]
        tk = None
        if base[0] == "deref":
            tk = an.vtype.get(base[1])
        elif base[0] == "local":
            tk = an.local_tk[base[1]]
        while tk is not None and tk["k"] in ("ref", "ptr"):
            tk = tk["to"]
        if tk is None or tk["k"] != "adt":
            return None
        adt = ctx.F.adts.get(tk["path"])
        return adt["variants"][0]["fields"][y[2]]["n"] if adt else None
    except Exception:
        return None


def recorded_length_is_file_length(ctx, s):
    """the length remembered for the grow arithmetic is the file's real length (or the chunk for a new file)"""
    fn = ctx.fn("pocket_db::EventStore::new")
    an = ctx.E.an(fn)
    adt = ctx.F.adts.get("pocket_db::event_store::EventStore")
    fields = [f["n"] for f in adt["variants"][0]["fields"]] if adt else []
    if "event_map_file_len" not in fields:
        raise AnchorMissing("EventStore.event_map_file_len")
    fi = fields.index("event_map_file_len")
    sites = set()
    for n, k, v in s.return_kinds(fn):
        if k != "ok":
            continue
        for a in find_values(v, lambda y: y[0] == "agg" and y[1].startswith("adt:pocket_db::event_store::EventStore:")):
            fv = a[2][fi]
            for c in find_values(fv, lambda y: y[0] == "call" and y[1].startswith("core::sync::atomic::") and y[1].endswith("::new")):
                sites.add(c[3][1] if c[3] else None)
    news = [(b, i) for b, i in an.calls() if b in sites]
    for b, info in news:
        v = info["args"][0]
        from ..srules import leaf_values
        vals = leaf_values(an, v) or [v]
        real = any(contains_value(x, lambda y: y[0] == "call" and y[1].rsplit("::", 1)[-1] == "len" and "fs" in y[1]) for x in vals)
        if not real and vals and all(x[0] == "const" for x in vals):
            # a constant is the real length where the file was just given that length (set_len of the same constant on
            # every path to this site)
            sized = [e for sb, si in an.calls() if (si["callee"] or "").endswith("::set_len") and
                     any(contains_value(a, lambda y: y[0] == "const" and y[1] == vals[0][1]) and
                         not contains_value(a, lambda y: y[0] in ("bin", "call", "phi")) for a in si["args"][1:]) and
                     all(x[1] == vals[0][1] for x in vals)
                     for e in (s.ok_edges_of_call(fn, sb) or [sb])]
            if sized and s.must_pass(fn, b, sized):
                real = True
        s.add("S-REL", fn, "recorded-length-is-file-length", "event_map_file_len", info["sp"], PROVED if real else VIOLATION,
              "for an existing file the recorded length is metadata().len()" if real else
              "the recorded file length does not come from the file's metadata: after a reopen the next grow computes a length "
              "below the real one and set_len truncates stored events", b)


def delineate_minimum(ctx, s):
    """Event::delineate rejects exactly the inputs shorter than the smallest event (144 header + 4 tags + 4 content length)
    or shorter than their own recorded length"""
    fn = ctx.fn("pocket_types::Event::delineate")
    an = ctx.E.an(fn)
    inp = ("param", 1)
    ln = an.len_of(inp)
    P = ctx.E.prover(fn)
    MIN = 144 + 4 + 4
    L = P.lin(ln)

    def le(node, K):        # len <= K provable at node
        return P.prove_le0(lin_add(L, lin_const(-K)), ctx.E.facts(fn, node))

    def ge(node, K):        # len >= K provable at node
        return P.prove_le0(lin_add(lin_const(K), L, -1), ctx.E.facts(fn, node))
    rk = s.return_kinds(fn)
    # returns that are not Err (Ok(..) or an Option-to-Result conversion of a successful slice) carry len >= 152 and
    # nothing stronger; some Err return carries exactly len <= 151; every Err return carries len <= 151 or the
    # recorded-length test
    accept = [n for n, k, v in rk if k != "err"]
    reject = [n for n, k, v in rk if k == "err"]
    exact = bool(accept) and all(ge(n, MIN) for n in accept)
    loose = any(ge(n, MIN + 1) for n in accept)
    rej = any(le(n, MIN - 1) and not le(n, MIN - 2) for n in reject)
    ok = exact and rej and not loose
    s.add("S-REL", fn, "minimum-event-length", "len >= 152", fn.sp, PROVED if ok else VIOLATION,
          "accepts every input of at least 152 bytes (the smallest event) whose recorded length fits; rejects shorter ones" if ok else
          "the minimum-length test of delineate is not 'reject iff len < 152': the smallest legal event (no tags, empty content) "
          "is unreadable, or shorter garbage is accepted")


def env_flags(ctx, s, forbidden=("NO_LOCK",)):
    """the LMDB environment is opened with its writer mutex and reader table: MDB_NOLOCK would remove the single-writer
    guarantee every store relies on and let writers recycle pages under a running query's snapshot"""
    fn = ctx.fn("pocket_db::Lmdb::new")
    an = ctx.E.an(fn)
    calls = [(b, i) for b, i in an.calls() if (i["callee"] or "").startswith("heed::env::") and (i["callee"] or "").endswith("::flags")]
    names = set()
    for b, info in calls:
        for v in info["args"][1:]:
            for k in find_values(v, lambda y: y[0] == "kconst"):
                names.add(str(k[1]).rsplit("::", 1)[-1])
    bad = sorted(n for n in names if n in forbidden)
    sp = calls[0][1]["sp"] if calls else fn.sp
    s.add("S-TABLE", fn, "environment-flags", "no " + "/".join(forbidden), sp, VIOLATION if bad else PROVED,
          "the environment is opened without its locks (%s): concurrent stores no longer serialize and queries lose snapshot "
          "isolation" % ", ".join(bad) if bad else
          "environment flags %s: LMDB's writer mutex and reader table stay in force" % (sorted(names) or "(default)"))
