"""C09 - at most one event per replaceable address; newer wins, older is refused."""
from ..srules import S
from . import lifecycle, storage, txn, recheck
from .recheck import lossy_rechecks
from .C11 import marker_key_exact

EXPLANATION = (
    "Decides: the three kind-class predicates accept exactly the NIP-01 ranges (0, 3, 10000..19999; 20000..29999; "
    "30000..39999) and are pairwise disjoint; in store_event, for each replaceable class and under that class's "
    "predicate on the event's own kind, events at the event's own address (author, kind[, d]) are removed up to the "
    "event's created_at through the write transaction, then the 'anything left' lookup at the same address runs, its "
    "Some outcome reaches only the Replaced error and no effect, and the append is reached only through its None "
    "outcome; the removal/find helpers act only under their class test; every scan over the padded/truncated "
    "author+tag key compares the fetched event's kind and whole d value before returning or removing it; the "
    "address-marker key identifies the address exactly. The at-most-one invariant over all histories is not decided.")
EXPLANATION += " Also decided: the three kind-class predicates are evaluated, from their branch conditions, for every one of the 65536 kind numbers and must accept exactly NIP-01's sets."
EXPLANATION += ' Also decided: the address lookups pass over a stored event only when its kind or d value differs from the address asked for; the removal helpers scan from Time::min() to the `until` they are given, unchanged.'
ASSUMPTIONS = []


def run(ctx):
    s = S(ctx)
    # the range scans the queries / address look-ups run on are bounded (until, 00..) .. (since, ff..) with the table's own key builder
    from . import tables as _tables
    _puts = _tables.table_ops(ctx, s, ctx.fn("pocket_db::Lmdb::index"), ("put",))
    _tables.scan_builders(ctx, s, _puts)
    recheck.address_scans_author_scoped(ctx, s)
    lifecycle.kind_classes(ctx, s)
    lifecycle.replacement_shape(ctx, s)
    lifecycle.removal_scan_window(ctx, s)
    lifecycle.lookup_skips_only_other_addresses(ctx, s)
    storage.gating_checks_use_write_txn(ctx, s)
    txn.effects_use_callers_txn(ctx, s, "pocket_db::Store::store_event")
    lossy_rechecks(ctx, s)
    marker_key_exact(ctx, s)
    from . import tables
    tables.mirror(ctx, s)
