"""S-LAYOUT: which constant byte ranges of an output buffer a constructor writes, whether every
header byte is written on every success path, and whether readers and writers agree (C02, C19)."""
from ..srules import S, find_values, contains_value, unbyref
from ..guard import PROVED, VIOLATION, UNDECIDED
from . import parsers

FILLERS = {parsers.JP + "read_id": 32, parsers.JP + "read_pubkey": 32}


def _lin_const(P, v):
    l = P.lin(v)
    return l[0] if not l[1] else None


def const_writes(ctx, s, fn, out, base=0, depth=0):
    """[(lo, hi, node)] constant ranges of the buffer `out` (a value: the parameter or a sub-slice of it)
    written in fn; node = CFG node after which the bytes are written (Ok edge of a fallible call, else the block)"""
    an = ctx.E.an(fn)
    P = ctx.E.prover(fn)
    res = []

    def rel(v):
        """(lo, hi) if v is out[lo..hi] / out[lo..] (hi None) / out itself, relative to `out`"""
        if v == out:
            return (0, None)
        if v[0] == "slice" and v[1] == out:
            lo, hi = _lin_const(P, v[2]), _lin_const(P, v[3])
            if lo is not None and hi is not None:
                return (lo, hi)
        if v[0] == "slicefrom" and v[1] == out:
            lo = _lin_const(P, v[2])
            if lo is not None:
                return (lo, None)
        if v[0] == "sliceto" and v[1] == out:
            hi = _lin_const(P, v[2])
            if hi is not None:
                return (0, hi)
        return None

    def after(b):
        oks = s.ok_edges_of_call(fn, b)
        return oks if oks else [b]

    for b, info in an.calls():
        callee = info["callee"] or ""
        nm = s.nice(callee)
        base_name = (info["base"] or "").rsplit("::", 1)[-1]
        if base_name in ("copy_from_slice", "clone_from_slice", "fill", "fill_with", "copy_within", "swap_with_slice") or \
                (callee.startswith("core::slice::") and callee.rsplit("::", 1)[-1] in ("fill", "copy_from_slice", "clone_from_slice")):
            r = rel(info["args"][0])
            if r and r[1] is not None:
                res.append((base + r[0], base + r[1], [b]))
        elif nm == "pocket_types::json::put":
            if info["args"][0] == out:
                off = _lin_const(P, info["args"][1])
                ln = _lin_const(P, an.len_of(info["args"][2]))
                if off is not None and ln is not None:
                    res.append((base + off, base + off + ln, after(b)))
        elif callee in ctx.F.fns and depth < 2:
            for ai, a in enumerate(info["args"]):
                r = rel(a)
                if r is None:
                    continue
                if True:
                    cf = ctx.F.fns[callee]
                    sub = const_writes(ctx, s, cf, ("param", ai + 1), 0, depth + 1)
                    cok = [n for n, k, v in s.return_kinds(cf) if k in ("ok", "plain")]
                    can = ctx.E.an(cf)
                    for lo, hi, nodes in sub:
                        # only writes that lie on every Ok path of the callee count at the call site
                        reach = s.reach(cf, [can.cfg.entry], avoid=nodes)
                        if cok and not any(n in reach for n in cok):
                            res.append((base + r[0] + lo, base + r[0] + hi, after(b)))
    for (b, i), L in an.stmt_loc.items():
        if L[0] == "index" and L[1] == ("deref", out) and L[2][0] == "const":
            res.append((base + L[2][1], base + L[2][1] + 1, [b]))
    # a loop that stores S[i] for i = 0, 1, .. and leaves successfully exactly when i + 1 == width(S)
    loops = an.cfg.natural_loops()
    for (b, i), L in an.stmt_loc.items():
        if L[0] != "index" or L[1][0] != "deref":
            continue
        r = rel(L[1][1])
        idx = L[2]
        if r is None or r[1] is None or idx[0] != "phi" or idx[1] not in loops:
            continue
        H = idx[1]
        body = loops[H]
        width = r[1] - r[0]
        start0 = False
        for e in an.cfg.in_edges[H]:
            if e.src not in body:
                st = an.out_state.get(e.src)
                if st is not None and an.read(st, idx[2]) == ("const", 0, "usize"):
                    start0 = True
        step1 = all(P.lin(an.read(an.out_state[e.src], idx[2])) == (1, ((idx, 1),))
                    for e in an.cfg.in_edges[H] if e.src in body and e.src in an.out_state)
        exits = []
        for e in an.cfg.edges:
            if e.src in body and e.dst not in body:
                for f in s.edge_facts(fn, e.node):
                    if f[0] == "eqc" and f[2] == width and P.lin(f[1]) == (1, ((idx, 1),)):
                        exits.append(e.node)
        # the store happens in every iteration before the exit test
        if start0 and step1 and exits and all(an.cfg.dominates(b, x) for x in exits):
            res.append((base + r[0], base + r[1], exits))
    return res


def covered(ctx, s, fn, writes, header, required_sites=None, flag_local=None):
    """bytes of [0,header) written on every path to every Ok return"""
    an = ctx.E.an(fn)
    cfg = an.cfg
    oks = [n for n, k, v in s.return_kinds(fn) if k == "ok"]
    # Ok returns that lie behind the completeness test of the member flags (flags == constant): only for those does
    # "every site that sets a required flag is behind the write" stand in for "the write is on the path"
    behind_test = set()
    if required_sites:
        for r in oks:
            for f in ctx.E.facts(fn, r):
                if f[0] == "eqc" and isinstance(f[1], tuple) and contains_value(
                        f[1], lambda y: y[0] == "phi" and (flag_local is None or y[2] == flag_local or y[2] == ("local", flag_local))):
                    mask = f[2][1] if isinstance(f[2], tuple) else f[2]
                    if isinstance(mask, int) and all((mask & c) == c for c in required_sites):
                        behind_test.add(r)
    # elementary intervals
    cuts = sorted({0, header} | {lo for lo, hi, n in writes if 0 <= lo <= header} | {hi for lo, hi, n in writes if 0 <= hi <= header})
    missing = []
    for a, b in zip(cuts, cuts[1:]):
        W = [n for lo, hi, nodes in writes if lo <= a and b <= hi for n in nodes]
        reach = s.reach(fn, [cfg.entry], avoid=W)
        open_oks = [r for r in oks if r in reach]
        ok = bool(oks) and not open_oks
        if not ok and required_sites and oks and all(r in behind_test for r in open_oks):
            # a flag that success requires: every site setting it is dominated by a write of these bytes
            for flag, sites in required_sites.items():
                if sites and all(any(cfg.dominates(n, site) for n in W) for site in sites):
                    ok = True
                    break
        if not ok:
            missing.append((a, b))
    return missing, len(oks)


def reader_ranges(ctx, s, fn):
    """constant byte ranges of the packed bytes that fn reads: direct slices `b[lo..hi]` and pieces cut off with
    split_at (`b.split_at(lo).1.split_at(n).0`), composed to absolute ranges"""
    an = ctx.E.an(fn)
    P = ctx.E.prover(fn)

    def absr(v, depth=0):
        """(lo, hi) absolute constant range of a derived slice value, hi None = to the end; None if not derivable"""
        if depth > 8:
            return None
        if v[0] in ("ref", "byref", "unsize") and isinstance(v[1], tuple):
            return absr(v[1], depth + 1)
        if v[0] == "slice":
            base = absr(v[1], depth + 1) or (0, None)
            lo, hi = _lin_const(P, v[2]), _lin_const(P, v[3])
            if lo is None or hi is None:
                return None
            return (base[0] + lo, base[0] + hi)
        if v[0] == "slicefrom":
            base = absr(v[1], depth + 1) or (0, None)
            lo = _lin_const(P, v[2])
            return None if lo is None else (base[0] + lo, base[1])
        if v[0] == "sliceto":
            base = absr(v[1], depth + 1) or (0, None)
            hi = _lin_const(P, v[2])
            return None if hi is None else (base[0], base[0] + hi)
        if v[0] == "proj" and v[2][0] == "f" and v[1][0] == "call" and v[1][1].startswith("core::slice::") and \
                v[1][1].rsplit("::", 1)[-1] in ("split_at", "split_at_mut") and len(v[1][2]) == 2:
            base = absr(v[1][2][0], depth + 1) or (0, None)
            mid = _lin_const(P, v[1][2][1])
            if mid is None:
                return None
            return (base[0], base[0] + mid) if v[2][1] == 0 else (base[0] + mid, base[1])
        return None
    out = set()
    vals = list(an.stmt_val.values()) + [i.get("value") for i in an.term.values() if i.get("value")] + \
        [a for i in an.term.values() if i.get("args") for a in i["args"]]
    for v in vals:
        if v is None:
            continue
        for x in find_values(v, lambda y: y[0] in ("slice", "proj")):
            r = absr(x)
            if r is not None and r[1] is not None:
                out.add(r)
    return out


def reader_width_agreement(ctx, s, fns, what="event", spec=None):
    """S-SIBLING: every reader of one position of the packed bytes reads the same number of bytes there.  Fixed-width
    reads (slices of constant width) in the given functions are grouped by their start position, written relative to the
    packed bytes (so `self.0[144 + tags_len ..]` in an accessor and `input[144 + tags_len ..]` in delineate are the same
    position); a position read with two different widths means a reader disagrees with the layout the others (and the
    writers) use."""
    from ..sym import strip_sites, walk
    groups = {}
    for fn in fns:
        an = ctx.E.an(fn)
        P = ctx.E.prover(fn)
        ctx.functions.add(fn.path)
        vals = list(an.stmt_val.values()) + [i.get("value") for i in an.term.values() if i.get("value")] + \
            [a for i in an.term.values() if i.get("args") for a in i["args"]]
        seen = set()
        # bytes gathered one by one into an array ([b[o], b[o + 1]] for from_ne_bytes) are one read of the array's width
        assembled = []
        for v in vals:
            if v is None:
                continue
            for arr in find_values(v, lambda y: y[0] == "agg" and y[1] == "array" and len(y[2]) >= 2 and
                                   all(e[0] == "elem" and e[1] == y[2][0][1] for e in y[2])):
                els = arr[2]
                if all(P.lin(("bin", "Sub", e[2], els[0][2])) == (k_, ()) for k_, e in enumerate(els)):
                    for e in els:
                        seen.add(strip_sites(e))
                    x = ("slice", els[0][1], els[0][2], ("bin", "Add", els[0][2], ("const", len(els), "usize")))
                    if strip_sites(x) not in seen:
                        seen.add(strip_sites(x))
                        assembled.append(x)
        for v in vals + assembled:
            if v is None:
                continue
            for x0 in find_values(v, lambda y: y[0] in ("slice", "elem")):
                k = strip_sites(x0)
                if k in seen and x0 not in assembled:
                    continue
                seen.add(k)
                if contains_value(x0[1], lambda y: y[0] == "call" and y[1].rsplit("::", 1)[-1] not in (
                        "deref", "deref_mut", "as_bytes", "as_ref", "as_mut", "as_slice", "borrow")):
                    continue            # a piece handed out by an iterator or a helper: its positions are not the packed bytes'
                if x0[0] == "elem":
                    # a single byte read at an index: a read of width 1 at that position
                    x = ("slice", x0[1], x0[2], ("bin", "Add", x0[2], ("const", 1, "usize")))
                    if x0[2][0] == "phi" or contains_value(x0[2], lambda y: y[0] == "phi"):
                        continue        # a byte at a moving cursor is a scan, not a field
                else:
                    x = x0
                base = x[1]
                w = P.lin(("bin", "Sub", x[3], x[2]))
                if w[1]:
                    continue            # not a fixed-width read

                def rel(y):
                    if y == base:
                        return ("BYTES",)
                    if not isinstance(y, tuple):
                        return y
                    return tuple(rel(z) for z in y)
                key = repr(rel(strip_sites(x[2])))
                site = None
                groups.setdefault(key, {}).setdefault(w[0], []).append((fn, x))
                if spec:
                    # positions whose width the layout fixes: (constant offset, follows-the-u16-at-that-offset) -> width
                    st = P.lin(x[2])
                    for (off, after_u16_at), width in spec.items():
                        if st[0] == off and len(st[1]) == 1 and st[1][0][1] == 1:
                            a = st[1][0][0]
                            rd = find_values(a, lambda y: y[0] == "slice" and y[1] == base)
                            if rd and P.lin(rd[0][2]) == (after_u16_at, ()) and P.lin(("bin", "Sub", rd[0][3], rd[0][2])) == (2, ()):
                                if w[0] != width:
                                    s.add("S-LAYOUT", fn, "field-width", "%s@%d+len" % (what, off), fn.sp, VIOLATION,
                                          "the field after the variable-length section (at %d + the u16 length stored at %d) is %d bytes "
                                          "wide in the layout every writer uses, but is read as %d bytes here: larger values are misread"
                                          % (off, after_u16_at, width, w[0]))
    n = 0
    for key, widths in sorted(groups.items()):
        if len(widths) < 2:
            n += 1
            continue
        ws = sorted(widths)
        # the width most readers use is taken as the layout's; report the odd one(s) out
        major = max(ws, key=lambda w_: len(widths[w_]))
        for w_ in ws:
            if w_ == major:
                continue
            for fn, x in widths[w_]:
                s.add("S-SIBLING", fn, "field-width", "%s@%s" % (what, s.show(x[2], fn)[:40]), fn.sp, VIOLATION,
                      "this position of the packed %s is read as %d bytes here but as %d bytes by %s: one reader disagrees with the "
                      "layout (values above the narrower range are misread)" %
                      (what, w_, major, ", ".join(sorted({f.nice.split("::")[-1] for f, _ in widths[major]}))))
    anchor = fns[0]
    if not any(len(w) > 1 for w in groups.values()):
        s.add("S-SIBLING", anchor, "field-width", what, anchor.sp, PROVED,
              "%d positions of the packed %s are each read with one width by all their readers" % (len(groups), what))
    ctx.instances["S-SIBLING.%s reader positions" % what] = len(groups)


def reserved_slot_written(ctx, s, name, cursor_param, buf_param):
    """S-COVER: a function that steps its output cursor over a slot before filling in the rest (the per-tag string count)
    writes that slot - at the cursor's value on entry - on every path to Ok.  Otherwise the slot keeps whatever the caller's
    buffer held."""
    from ..sym import strip_sites
    fn = ctx.fn(name)
    an = ctx.E.an(fn)
    ctx.functions.add(fn.path)
    entry = ("init", ("deref", ("param", cursor_param)))
    puts = []
    for b, info in an.calls():
        if s.nice(info["callee"] or "") == "pocket_types::json::put" and info["args"][0] == ("param", buf_param):
            if strip_sites(info["args"][1]) == entry:
                puts.append(b)
    # direct stores output[entry..entry+2].copy_from_slice(..) count as well
    for b, info in an.calls():
        if (info["base"] or "").rsplit("::", 1)[-1] == "copy_from_slice":
            d = info["args"][0]
            if d[0] == "slice" and d[1] == ("param", buf_param) and strip_sites(d[2]) == entry:
                puts.append(b)
    oks = [n for n, k, v in s.return_kinds(fn) if k == "ok"]
    good = []
    for b in puts:
        good += s.ok_edges_of_call(fn, b) or [b]
    reach = s.reach(fn, [an.cfg.entry], avoid=good)
    ok = bool(oks) and bool(puts) and not any(n in reach for n in oks)
    verdict = PROVED if ok else (VIOLATION if oks else UNDECIDED)
    s.add("S-COVER", fn, "reserved-slot-written", name.split("::")[-1], fn.sp, verdict,
          "the slot the cursor stepped over on entry (the string count) is written on every path to Ok" if ok else
          "a path returns Ok without writing the slot reserved at the entry cursor position (the tag's string count): the field "
          "keeps whatever the caller's buffer held")


def tag_count_agreement(ctx, s):
    """S-REL: read_tags_array sizes the offset table from a counting pass (count_tags) and fills it in a reading pass.  The two
    passes do not read strings the same way (bytes vs. code points), so the function must itself check that they agree: the
    slot written for tag number n lies inside the table (n < counted), and Ok is returned only when the number read equals
    the number counted.  Without these the header describes a different array from the one written."""
    from ..prove import lin_add, lin_const
    fn = ctx.fn(parsers.JP + "read_tags_array")
    an = ctx.E.an(fn)
    P = ctx.E.prover(fn)
    ctx.functions.add(fn.path)
    counted = None
    for b, info in an.calls():
        if s.nice(info["callee"] or "") == parsers.JP + "count_tags":
            counted = ("proj", ("proj", ("try", info["value"]), ("dc", 0)), ("f", 0))
    if counted is None:
        s.add("S-REL", fn, "tag-count-agreement", "read_tags_array", fn.sp, UNDECIDED,
              "no separate counting pass found: not decided")
        return
    loops = an.cfg.natural_loops()
    # the slot writes: put(output, 4 + 2 * n, ..) with n a loop variable
    n_var = None
    slot_sites = []
    for b, info in an.calls():
        if s.nice(info["callee"] or "") != "pocket_types::json::put" or len(info["args"]) < 3:
            continue
        l = P.lin(info["args"][1])
        phis = [(a, k) for a, k in l[1] if a[0] == "phi" and a[1] in loops and k == 2]
        if phis and l[0] == 4 and len(l[1]) == 1:
            n_var = phis[0][0]
            slot_sites.append((b, info))
    if n_var is None:
        s.add("S-REL", fn, "tag-count-agreement", "read_tags_array", fn.sp, UNDECIDED,
              "the per-tag offset slot write was not recognised: not decided")
        return
    ln, lc = P.lin(n_var), P.lin(counted)
    for b, info in slot_sites:
        g = lin_add(lin_add(ln, lc, -1), lin_const(1))          # n + 1 <= counted
        facts = ctx.E.facts(fn, b)
        ok = P.prove_le0(g, facts) or ctx.E.prove_inductive(fn, g, b, facts)
        s.add("S-REL", fn, "tag-count-agreement", "slot<counted", info["sp"], PROVED if ok else VIOLATION,
              "the offset slot written for a tag lies inside the table sized by the counting pass" if ok else
              "the offset slot of a tag can lie beyond the table the counting pass sized (nothing compares the tags read with "
              "the tags counted): where the two passes disagree the offsets overwrite tag data or describe strings that were "
              "never written, and readers index out of range", b)
    for n_, k_, v_ in s.return_kinds(fn):
        if k_ != "ok":
            continue
        facts = ctx.E.facts(fn, n_)
        # a return that does not lie behind the counting pass at all (an empty array recognised up front) writes its own
        # count; returns before the loop (no tags) are decided by the counted == 0 test
        cblocks = [b_ for b_, i_ in an.calls() if s.nice(i_["callee"] or "") == parsers.JP + "count_tags"]
        if cblocks and not any(an.cfg.dominates(cb_, n_) for cb_ in cblocks):
            continue
        zero = P.prove_le0(lc, facts)
        if zero:
            continue
        cfg_ = an.cfg
        st_ = an.out_state.get(cfg_.edges[n_ - cfg_.nblocks].src) if n_ >= cfg_.nblocks else an.state_before_term(n_)
        val = an.read(st_, n_var[2]) if st_ is not None else n_var
        ok = False
        for cand in (val, n_var):
            lv = P.lin(cand)
            g1 = lin_add(lin_add(lv, lc, -1), lin_const(1))          # n + 1 <= counted
            g2 = lin_add(lin_add(lc, lv, -1), lin_const(-1))         # counted <= n + 1
            if all(P.prove_le0(g, facts) or ctx.E.prove_inductive(fn, g, n_, facts) for g in (g1, g2)):
                ok = True
                break
        s.add("S-REL", fn, "tag-count-agreement", "read==counted", fn.sp, PROVED if ok else VIOLATION,
              "Ok is returned only when the number of tags read equals the number counted" if ok else
              "Ok can be returned when the number of tags read differs from the number the header was given by the counting "
              "pass: the value's tag count and offsets do not describe what was written", n_)
