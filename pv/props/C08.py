"""C08 - event verification accepts exactly correctly hashed and signed events."""
from ..srules import S, find_values, contains_value, unbyref
from ..guard import PROVED, VIOLATION, UNDECIDED
from . import escaping

EXPLANATION = (
    "Decides: every path of Event::verify to Ok(()) passes the 'equal' outcome of the comparison between "
    "sha256(canonical serialization) and the event's own id, and the Ok outcomes of XOnlyPublicKey::from_slice(own "
    "pubkey), Signature::from_slice(own sig), Message::from_digest_slice(the same digest) and Signature::verify(that "
    "signature, that message, that key); the signer (sign_new) and the verifier build the canonical serialization "
    "from the same format template [0,\"{}\",{},{},{},\"{}\"] with the same argument types (Pubkey, Time, Kind, Tags, "
    "escaped content) in the same order, the signer's id being that digest and its signature being over it; content "
    "and every tag string reach the serialization only through json_escape, whose table equals NIP-01's seven escapes "
    "with every other scalar >= 0x20 verbatim and whose inverse arms in json_unescape agree. The cryptography itself "
    "and equality with an independent canonicaliser on all strings are not decided.")
EXPLANATION += " Also decided: every append of the escaper is the verbatim copy, an arm of the code-point dispatch, or the \\u form in the default arm under a proved code point <= 0x20."
ASSUMPTIONS = ["secp256k1 and SHA-256 are correct (trusted dependencies)"]

NIP01_TEMPLATE = '[0,"{}",{},{},{},"{}"]'
ARG_TYPES = ["Pubkey", "Time", "Kind", "Tags", "str"]


def decode_template(bs):
    """rustc's compact format_args template: <len><literal bytes> | byte >= 0x80 = placeholder | 0 = end"""
    out = ""
    i = 0
    n = len(bs)
    while i < n:
        b = bs[i]
        if b == 0:
            break
        if b >= 0x80:
            out += "{}"
            i += 1
            # placeholder descriptors may carry extra bytes when formatting options are present; none expected here
            continue
        lit = bs[i + 1:i + 1 + b]
        if len(lit) != b:
            return None
        out += lit.decode("utf8", "replace")
        i += 1 + b
    return out


def signable(ctx, s, fn):
    an = ctx.E.an(fn)
    news = [(b, i) for b, i in an.calls() if (i["callee"] or "") == "core::fmt::{impl#4}::new" or (i["callee"] or "").endswith("Arguments::new")]
    cands = []
    for b, i in news:
        bs = find_values(i["args"][0], lambda x: x[0] == "bytes")
        if bs and b"[0," in bs[0][1]:
            cands.append((b, i, bs[0][1]))
    if len(cands) != 1:
        return None             # the serialization is not assembled by one format template: not decided
    b, info, tmpl = cands[0]
    args = info["pre"][1] if info["pre"][1] is not None else info["args"][1]
    arr = find_values(args, lambda x: x[0] == "agg" and x[1] == "array")
    disp = []
    if arr:
        for el in arr[0][2]:
            # each element is the value of a new_display call
            for db, di in an.calls():
                if di["value"] == el and (di["callee"] or "").endswith("new_display"):
                    ga = [g for g in (di["f"].get("ga") or []) if not g.startswith("'")]
                    pre = di["pre"][0]
                    disp.append((ga[0] if ga else "?", pre, di))
    return b, info, tmpl, disp


def tyname(t):
    t = t.replace("&", "").strip()
    t = t.split("::")[-1]
    return "str" if t == "String" else t        # Display of String is Display of str


def run(ctx):
    s = S(ctx)
    ver = ctx.fn("pocket_types::Event::verify")
    sign = ctx.fn("pocket_types::OwnedEvent::sign_new")
    ctx.functions.update({ver.path, sign.path})
    an = ctx.E.an(ver)
    me = ("param", 1)
    eacc = lambda name: (lambda v: v[0] == "call" and v[1].endswith("::" + name) and v[1].startswith("pocket_types::event::") and v[2] and v[2][0] == me)
    # ---------------------------------------------------------------- 2. sibling agreement
    sv, ss = signable(ctx, s, ver), signable(ctx, s, sign)
    templated = sv is not None and ss is not None
    if not templated:
        who = " and ".join(f.nice.split("::")[-1] for f, x in ((ver, sv), (sign, ss)) if x is None)
        s.add("S-SIBLING", ver, "canonical-template", "verify/sign_new", ver.sp, UNDECIDED,
              "%s does not assemble the serialization with the single format template the rule reads ([0,\"{}\",{},{},{},\"{}\"]): "
              "that signer and verifier serialize alike is not decided" % who)
        vdisp = sdisp = []
        vb = sb = 0
        vinfo = sinfo = {"sp": ver.sp}
    else:
        vb, vinfo, vt, vdisp = sv
        sb, sinfo, st, sdisp = ss
    if templated:
        _sibling(ctx, s, ver, sign, vb, vinfo, vt, vdisp, sb, sinfo, st, sdisp, eacc)
    _accepting_paths(ctx, s, ver, sign, an, eacc, templated)


def _sibling(ctx, s, ver, sign, vb, vinfo, vt, vdisp, sb, sinfo, st, sdisp, eacc):
    dv, ds = decode_template(vt), decode_template(st)
    okt = dv == NIP01_TEMPLATE and ds == NIP01_TEMPLATE and vt == st
    s.add("S-SIBLING", ver, "canonical-template", "verify/sign_new", vinfo["sp"], PROVED if okt else VIOLATION,
          "both build [0,\"{}\",{},{},{},\"{}\"]" if okt else "templates differ from NIP-01 or from each other: verify=%r sign_new=%r" % (dv, ds), vb)
    tv, ts = [tyname(t) for t, _, _ in vdisp], [tyname(t) for t, _, _ in sdisp]
    oka = tv == ARG_TYPES and ts == ARG_TYPES
    s.add("S-SIBLING", ver, "canonical-arguments", "Pubkey,Time,Kind,Tags,content", vinfo["sp"], PROVED if oka else VIOLATION,
          "both pass (Pubkey, Time, Kind, Tags, str) through Display in that order" if oka else
          "argument types/order differ: verify=%s sign_new=%s" % (tv, ts), vb)
    # provenance of the verifier's arguments: the event's own fields; the last one escaped content
    if len(vdisp) == 5:
        prov = [eacc("pubkey")(vdisp[0][1]) if vdisp[0][1] else False,
                eacc("created_at")(vdisp[1][1]) if vdisp[1][1] else False,
                eacc("kind")(vdisp[2][1]) if vdisp[2][1] else False,
                contains_value(vdisp[3][1], eacc("tags")) if vdisp[3][1] else False,
                contains_value(vdisp[4][1], lambda x: x[0] == "call" and x[1] == escaping.ESCAPE and contains_value(x[2][0], eacc("content"))) if vdisp[4][1] else False]
        okp = all(prov)
        # the escaper spliced in under another name (its is_safe_char test runs inside the verifier): escaping happens, but
        # is not attributable to one call
        spliced = all(prov[:4]) and not prov[4] and any((i_["callee"] or "").endswith("::is_safe_char") for b_, i_ in ctx.E.an(ver).calls())
        s.add("S-ESCFLOW", ver, "verifier-arguments-own-fields", "pubkey,created_at,kind,tags,escape(content)", vinfo["sp"],
              PROVED if okp else (UNDECIDED if spliced else VIOLATION),
              "the serialization is built from this event's own accessors; content passes through json_escape" if okp else
              "the verifier's serialization arguments are not (own pubkey, created_at, kind, tags, json_escape(own content)): %s" % prov, vb)
    if len(sdisp) == 5:
        okc = contains_value(sdisp[4][1], lambda x: x[0] == "call" and x[1] == escaping.ESCAPE) if sdisp[4][1] else False
        spliced_s = not okc and any((i_["callee"] or "").endswith("::is_safe_char") for b_, i_ in ctx.E.an(sign).calls())
        s.add("S-ESCFLOW", sign, "signer-content-escaped", "escape(content)", sinfo["sp"], PROVED if okc else (UNDECIDED if spliced_s else VIOLATION),
              "the signer serializes json_escape(content)" if okc else "the signer serializes unescaped content", sb)


def _accepting_paths(ctx, s, ver, sign, an, eacc, templated):
    # ---------------------------------------------------------------- 1. both checks on every accepting path
    hashes = [(b, i) for b, i in an.calls() if (i["callee"] or "").endswith("Hash::hash") or (i["base"] or "").endswith("Hash::hash")]
    from ..main import AnalysisError
    if not hashes:
        raise AnalysisError("sha256 hash call not found in verify")
    H = hashes[0][1]["value"]
    okh = contains_value(hashes[0][1]["args"][0], lambda x: x[0] == "call" and x[1].endswith("::as_bytes"))
    is_digest = lambda v: contains_value(v, lambda x: x == H)
    oks = [n for n, k, v in s.return_kinds(ver) if k == "ok"]
    ctx.floor("C08.verify.ok-returns", len(oks), 1)
    # id comparison
    eq_edges = []
    for node in an.edge_cond:
        for f in s.edge_facts(ver, node):
            if f[0] in ("true", "false") and f[1][0] == "call" and f[1][1].rsplit("::", 1)[-1] in ("eq", "ne"):
                equal = (f[1][1].rsplit("::", 1)[-1] == "eq") == (f[0] == "true")
                a, b2 = unbyref(f[1][2][0]), unbyref(f[1][2][1])
                if equal and ((is_digest(a) and contains_value(b2, eacc("id"))) or (is_digest(b2) and contains_value(a, eacc("id")))):
                    eq_edges.append(node)
    reach = s.reach(ver, [an.cfg.entry], avoid=eq_edges)
    okid = bool(eq_edges) and not any(n in reach for n in oks)
    s.add("S-MUSTPASS", ver, "id-equals-digest", "sha256(signable)==id", ver.sp, PROVED if okid else VIOLATION,
          "Ok(()) is reached only through the 'equal' outcome of digest vs the event's own id" if okid else
          "verification can succeed without the id having been compared (equal) with the recomputed digest")
    # signature path
    steps = [("from_slice", "key", lambda i: contains_value(i["args"][0], eacc("pubkey")), "secp256k1::key::"),
             ("from_slice", "schnorr", lambda i: contains_value(i["args"][0], eacc("sig")), "secp256k1::schnorr::"),
             ("from_digest_slice", "message", lambda i: is_digest(i["args"][0]), "secp256k1::"),
             ("verify", "verify", None, "secp256k1::schnorr::")]
    vals = {}
    for name, tag, prov, prefix in steps:
        cs = [(b, i) for b, i in an.calls() if (i["callee"] or "").startswith(prefix) and (i["callee"] or "").rsplit("::", 1)[-1] == name]
        if not cs:
            s.add("S-MUSTPASS", ver, "signature-step", tag, ver.sp, VIOLATION, "verify never calls %s%s" % (prefix, name))
            continue
        b, i = cs[0]
        good = s.ok_edges_of_call(ver, b)
        reach = s.reach(ver, [an.cfg.entry], avoid=good)
        okp = not any(n in reach for n in oks) and bool(good)
        okv = True
        if prov is not None:
            okv = prov(i)
            vals[tag] = i["value"]
        else:
            # verify(&sig, &message, &pubkey): the three objects built above
            pres = [p for p in i["pre"]]
            okv = len(pres) == 3 and all(p is not None for p in pres) and \
                contains_value(pres[0], lambda x: x == vals.get("schnorr")) and \
                contains_value(pres[1], lambda x: x == vals.get("message")) and \
                contains_value(pres[2], lambda x: x == vals.get("key"))
        ok = okp and okv
        s.add("S-MUSTPASS", ver, "signature-step", tag, i["sp"], PROVED if ok else VIOLATION,
              "on every accepting path, with operands from this event / this digest" if ok else
              "%s: on every accepting path=%s, operand provenance=%s" % (name, okp, okv), b)
    if templated:
        s.add("S-REL", ver, "digest-of-serialization", "sha256(signable.as_bytes())", hashes[0][1]["sp"], PROVED if okh else VIOLATION,
              "the digest is taken over the serialized string" if okh else "the digest is not taken over the serialization")
    # ---------------------------------------------------------------- signer: id and signature over the same digest
    sa = ctx.E.an(sign)
    sh = [(b, i) for b, i in sa.calls() if (i["callee"] or "").endswith("Hash::hash") or (i["base"] or "").endswith("Hash::hash")]
    if sh:
        SH = sh[0][1]["value"]
        idc = [(b, i) for b, i in sa.calls() if s.nice(i["callee"] or "") == "pocket_types::Id::from_bytes"]
        msg = [(b, i) for b, i in sa.calls() if (i["callee"] or "").endswith("from_digest_slice")]
        from ..srules import leaf_values

        def from_digest(info):
            vals = [info["args"][0]] + [p for p in info["pre"][:1] if p is not None]
            leaves = [l for v in vals for l in (leaf_values(sa, v) or [v])]
            return any(contains_value(l, lambda x: x == SH) for l in leaves)
        okid = bool(idc) and from_digest(idc[0][1])
        okm = bool(msg) and from_digest(msg[0][1])
        s.add("S-SIBLING", sign, "signer-id-is-digest", "id=sha256(signable)", sign.sp, PROVED if (okid and okm) else VIOLATION,
              "the signer's id is the digest and the signed message is that same digest" if (okid and okm) else
              "sign_new: id from digest=%s, message from digest=%s" % (okid, okm))
    # the accessors verify reads through take the layout's widths (a content length read as u16 hashes a truncated content)
    from . import layout
    ev_fns = [f for f in ctx.F.fns.values() if f.kind != "Closure" and f.nice.startswith("pocket_types::Event::")]
    layout.reader_width_agreement(ctx, s, sorted(ev_fns, key=lambda f: f.nice), "event", spec={(144, 144): 4})
    # ---------------------------------------------------------------- 3. escaper
    escaping.escape_table(ctx, s)
    escaping.writer_escapes(ctx, s, "pocket_types::Tags::as_json")
    # Display for Tags is as_json
    disp = ctx.fn("pocket_types::<Tags as Display>::fmt")
    okd = bool(s.calls(disp, names={"pocket_types::Tags::as_json"}))
    s.add("S-ESCFLOW", disp, "tags-display-is-as_json", "Display", disp.sp, PROVED if okd else VIOLATION,
          "Tags are serialized into the signable through as_json" if okd else "Display for Tags does not use as_json")
