"""C18 - explicit removal and vanish remove exactly their targets."""
from ..srules import S, find_values, contains_value
from ..guard import PROVED, VIOLATION, UNDECIDED
from . import txn, tables, storage, lifecycle
from .effects import effect_sites

EXPLANATION = (
    "Decides: the closure of remove_event performs, inside one write transaction that is committed last, only the "
    "deletes of deindex/deindex_id on the event fetched for the given id - no put, no marker write, no extra-table "
    "access, no file or map effect; vanish only queries (find_events) and calls remove_event on ids taken from the "
    "results, its two filters being (authors=[event.pubkey()]) and (kinds=[1059], #p=[hex(event.pubkey())]) with no "
    "limit, window or screening; Lmdb::index in store_event is dominated by the false edge of is_ephemeral(kind) "
    "while the append is not, and the ephemeral range constant equals 20000..30000. 'Exactly' over all store "
    "contents depends on query exactness (C05) and is not decided.")
EXPLANATION += " Also decided: every Ok return of vanish lies behind the Ok outcome of both queries; deindex deletes, under the same conditions, every entry index_event puts."
EXPLANATION += ' Also decided: in every caller, Ok-outcomes of deindex and deindex_id alternate on every path to Ok and address the same event.'
EXPLANATION += " Also decided: the query's screen wrapper, through which vanish enumerates its targets, turns an event down only for the caller's Mismatch / Redacted."
ASSUMPTIONS = []


def run(ctx):
    s = S(ctx)
    root = "pocket_db::Store::remove_event"
    fn = ctx.fn(root)
    txn.single_write_txn_first(ctx, s, root)
    txn.effects_use_callers_txn(ctx, s, root)
    txn.error_paths_do_not_commit(ctx, s, root)
    txn.results_not_dropped(ctx, s, root)
    scope = ctx.G.reachable([fn.path], within=lambda p: p.startswith("pocket_db::"))
    ops = tables.all_table_ops(ctx, s, ("put", "put_with_flags", "delete", "clear", "append"), within=scope)
    ctx.floor("C18.remove_event.table-ops", len(ops), 7)
    bad = [(f, b, info, t) for f, b, info, t, key, conds in ops
           if not (info["callee"].endswith("::delete") and t.rsplit(".", 1)[-1] in tables.INDEX_TABLES)]
    if bad:
        f, b, info, t = bad[0]
        s.add("S-EFFECT", f, "remove-only-deletes-index-entries", t, info["sp"], VIOLATION,
              "remove_event reaches %s on table %s (it must only delete index entries: no marker, no extra table)" % (
                  info["callee"].rsplit("::", 1)[-1], t), b)
    else:
        s.add("S-EFFECT", fn, "remove-only-deletes-index-entries", "remove_event", fn.sp, PROVED,
              "all %d table operations reachable are deletes on the seven index tables" % len(ops))
    other = [(p, c, k) for p, bi, c, k, t in effect_sites(ctx, [fn.path]) if not k.startswith("LMDB")]
    s.add("S-EFFECT", fn, "remove-no-file-or-map-effect", "remove_event", fn.sp, PROVED if not other else VIOLATION,
          "no file, map or atomic effect reachable" if not other else "reaches %s" % other[0][1])
    # the event that is deindexed is the one stored under the given id
    rb = ctx.fn("pocket_db::Store::remove_by_id")
    an = ctx.E.an(rb)
    cs = s.calls(rb, names={"pocket_db::Store::remove_by_offset"})
    if not cs:
        # the removal funnel written out (or renamed) here: what is deindexed must still be the event fetched at the id
        # index's entry for the given id
        cs = s.calls(rb, names={"pocket_db::Lmdb::deindex"})
    ok = bool(cs) and all(contains_value(i["args"][2], lambda x: x[0] == "call" and x[1].endswith("get_offset_by_id") and ("param", 3) in x[2])
                          for b, i in cs)
    s.add("S-REL", rb, "removes-the-named-event", "remove_by_id", rb.sp, PROVED if ok else VIOLATION,
          "the offset removed is the id index's entry for the given id" if ok else "remove_by_id does not remove the offset stored for its id")
    # vanish
    rem = storage.vanish_effects(ctx, s)
    vanish_filters(ctx, s)
    vanish_both_passes(ctx, s)
    tables.mirror(ctx, s)
    lifecycle.ephemeral_not_indexed(ctx, s)
    lifecycle.kind_classes(ctx, s)
    tables.removal_funnel(ctx, s)
    # vanish enumerates its targets with find_events: the query's own screen wrapper must not drop events by itself
    from .C05 import screen_closure
    screen_closure(ctx, s, ctx.fn("pocket_db::Store::find_events"))


def vanish_filters(ctx, s):
    fn = ctx.fn("pocket_db::Store::vanish")
    an = ctx.E.an(fn)
    ev = lifecycle.event_param(fn)
    news = s.calls(fn, names={"pocket_types::OwnedFilter::new"})
    ctx.floor("C18.vanish.filters", len(news), 2)
    pk = lifecycle.acc("pubkey", ev)
    seen_author = seen_gift = False
    for b, info in news:
        args = []
        for a, pre in zip(info["args"], info["pre"]):
            args.append(pre if (a[0] in ("ref", "unsize") and pre is not None) else a)
        ids, authors, kinds, tags = args[0], args[1], args[2], args[3]
        lim = args[4:7]
        nolimit = all(contains_value(x, lambda y: y[0] == "agg" and y[1].endswith(":None")) for x in lim)
        empty = lambda v: an.len_of(v) == ("const", 0, "usize") or contains_value(v, lambda y: y[0] == "agg" and y[1] == "array" and not y[2])
        if contains_value(authors, pk):
            ok = nolimit and empty(ids) and empty(kinds) and contains_value(tags, lambda y: y[0] == "call" and y[1].endswith("::empty"))
            seen_author = True
            s.add("S-REL", fn, "vanish-filter", "authored", info["sp"], PROVED if ok else VIOLATION,
                  "authors=[event.pubkey()], nothing else constrained, no limit/window" if ok else
                  "the authored-events filter of vanish constrains more than the author", b)
        else:
            k1059 = contains_value(kinds, lambda y: y == ("const", 1059, "u16"))
            ptag = contains_value(tags, lambda y: y[0] == "bytes" and y[1] == b"p") and \
                contains_value(tags, lambda y: y[0] == "call" and y[1].endswith("::as_hex_string") and contains_value(y, pk))
            if not ptag and contains_value(tags, lambda y: y[0] == "call" and y[1].endswith("OwnedTags::new") or
                                           (y[0] == "call" and s.nice(y[1]) == "pocket_types::OwnedTags::new")):
                # the tag parts are a vec![..] literal: its element array is stored through the box pointer
                for v in an.stmt_val.values():
                    for arr in find_values(v, lambda y: y[0] == "agg" and y[1] == "array" and len(y[2]) == 2):
                        if arr[2][0][0] == "bytes" and arr[2][0][1] == b"p":
                            for hx in find_values(arr[2][1], lambda y: y[0] == "call" and y[1].endswith("::as_hex_string")):
                                for hb, hinfo in an.calls():
                                    if hinfo["value"] == hx and (pk(hinfo["args"][0]) or (hinfo["pre"][0] is not None and pk(hinfo["pre"][0]))):
                                        ptag = True
            ok = nolimit and k1059 and ptag and empty(ids) and empty(authors)
            seen_gift = True
            s.add("S-REL", fn, "vanish-filter", "giftwraps", info["sp"], PROVED if ok else VIOLATION,
                  "kinds=[1059], #p=[hex(event.pubkey())], no limit/window" if ok else
                  "the gift-wrap filter of vanish is not (kind 1059, #p = the vanishing pubkey, unlimited): kind1059=%s ptag=%s" % (k1059, ptag), b)
    if not (seen_author and seen_gift):
        s.add("S-REL", fn, "vanish-filter", "both", fn.sp, VIOLATION, "vanish does not build both the authored and the gift-wrap filter")
    # find_events is called with scraping allowed and a screen that matches everything
    fe = s.calls(fn, names={"pocket_db::Store::find_events"})
    for b, info in fe:
        ok = info["args"][2] == ("const", 1, "bool")
        s.add("S-REL", fn, "vanish-query-unrestricted", "find_events", info["sp"], PROVED if ok else VIOLATION,
              "scraping allowed" if ok else "vanish queries with scraping disallowed (the author query could be refused)", b)
    # the ids removed come from the query results
    for owner, b, info, site in s.calls_deep(fn, names={"pocket_db::Store::remove_event"}):
        if owner is not fn:
            s.add("S-REL", fn, "vanish-removes-results", "remove_event(closure)", info["sp"], UNDECIDED,
                  "the removal happens in a closure handed to an iterator adaptor; that its argument is a query result is not decided", site)
            continue
        idv = info["args"][1]
        ok = idv[0] == "call" and idv[1].endswith("::id") and contains_value(idv, lambda y: y[0] == "call" and y[1].endswith("::next"))
        own = contains_value(idv, lambda y: y == ("param", 2)) and not contains_value(idv, lambda y: y[0] == "call" and y[1].endswith("::next"))
        const = idv[0] in ("const", "bytes")
        s.add("S-REL", fn, "vanish-removes-results", "remove_event", info["sp"],
              PROVED if ok else (VIOLATION if (own or const) else UNDECIDED),
              "removes the id of an event yielded by the query result" if ok else
              ("removes something other than the queried events (the request event's own id or a constant)" if (own or const) else
               "the removed id is not syntactically the id of a query result (collected or passed through a helper): not decided"), b)


def vanish_both_passes(ctx, s):
    """every success path of vanish ran both queries (authored events and gift-wraps)"""
    fn = ctx.fn("pocket_db::Store::vanish")
    an = ctx.E.an(fn)
    fe = s.calls(fn, names={"pocket_db::Store::find_events"})
    oks = [n for n, k, v in s.return_kinds(fn) if k == "ok"]
    ok = len(fe) >= 2 and bool(oks)
    for b, info in fe:
        good = s.ok_edges_of_call(fn, b)
        reach = s.reach(fn, [an.cfg.entry], avoid=good)
        if any(n in reach for n in oks):
            ok = False
    s.add("S-MUSTPASS", fn, "both-vanish-passes", "vanish", fn.sp, PROVED if ok else VIOLATION,
          "Ok is returned only after both the authored-events query and the gift-wrap query ran" if ok else
          "vanish can return Ok without having run both of its queries (e.g. an early return skips the gift-wrap pass)")
