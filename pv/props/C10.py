"""C10 - a deletion request can never remove another author's events."""
from ..srules import S, find_values, unbyref, contains_value
from ..guard import PROVED, VIOLATION, UNDECIDED
from ..sym import strip_sites
from . import recheck, txn

EXPLANATION = (
    "Decides that in the deletion handler every call that removes or marks something (remove_by_id, "
    "remove_by_offset, remove_replaceable, remove_parameterized_replaceable, mark_deleted, mark_naddr_deleted, "
    "or a direct LMDB put/delete) is preceded on every CFG path by the 'authors are equal' outcome of a "
    "comparison between the request's pubkey and the author of the very object the call acts on (or, for the "
    "id marker only, by the 'target absent' outcome); that the 'authors differ' outcome reaches no such call; "
    "that the handler is entered only from store_event; and that the error leaves store_event without commit. "
    "Does not decide anything about LMDB itself.")
ASSUMPTIONS = []

HANDLER = "pocket_db::Store::handle_deletion_event"
DESTRUCTIVE = {
    "pocket_db::Store::remove_by_id", "pocket_db::Store::remove_by_offset",
    "pocket_db::Store::remove_replaceable", "pocket_db::Store::remove_parameterized_replaceable",
    "pocket_db::Lmdb::mark_deleted", "pocket_db::Lmdb::mark_naddr_deleted",
    "pocket_db::Lmdb::deindex", "pocket_db::Lmdb::deindex_id",
}


def is_lmdb_write(n, callee, base, info):
    return callee.startswith("heed::database::") and callee.rsplit("::", 1)[-1] in (
        "put", "delete", "clear", "delete_range", "put_with_flags", "append")


def run(ctx):
    s = S(ctx)
    recheck.address_scans_author_scoped(ctx, s)
    fn = ctx.fn(HANDLER)
    an = ctx.E.an(fn)
    # anchors
    for n in DESTRUCTIVE:
        ctx.fn(n)
    # who may call the handler
    callers = s.callers(HANDLER)
    s.add("S-WHO", fn, "callers", "handle_deletion_event", fn.sp,
          PROVED if callers == ["pocket_db::Store::store_event"] else VIOLATION,
          "callers: %s" % ", ".join(callers))
    # the request event parameter
    ev_param = None
    for i in range(1, fn.argc + 1):
        if fn.locals[i]["ty"]["s"].endswith("Event"):
            ev_param = ("param", i)
    if ev_param is None:
        raise ctx_error("no &Event parameter in the deletion handler")
    req_pubkey = lambda v: v[0] == "call" and v[1].endswith("::pubkey") and v[2] and v[2][0] == ev_param

    sites = s.calls(fn, names=DESTRUCTIVE, pred=is_lmdb_write)
    ctx.floor("C10.destructive-call-sites", len(sites), 5)
    ctx.floor("C10.destructive-callees", len({i["callee"] for _, i in sites}), 5)
    site_blocks = {b for b, _ in sites}

    # all author comparisons in the handler
    def author_cmp(f):
        """fact establishing equality of the request's pubkey with some other value -> that value"""
        if f[0] in ("true", "false") and f[1][0] == "call":
            name = f[1][1].rsplit("::", 1)[-1]
            if name in ("eq", "ne") and len(f[1][2]) == 2:
                equal = (name == "eq") == (f[0] == "true")
                a, b = unbyref(f[1][2][0]), unbyref(f[1][2][1])
                if req_pubkey(a):
                    return equal, b
                if req_pubkey(b):
                    return equal, a
        return None

    eq_edges = {}      # edge node -> other operand
    ne_edges = {}
    for node in an.edge_cond:
        for f in s.edge_facts(fn, node):
            r = author_cmp(f)
            if r is not None:
                (eq_edges if r[0] else ne_edges)[node] = r[1]
    ctx.instances["C10.author-comparisons"] = len(eq_edges)

    def object_calls(v):
        return {strip_sites(x) for x in find_values(v, lambda x: x[0] == "call" and x[1].rsplit("::", 1)[-1] in
                                                  ("get_event_by_id", "try_from_bytes", "get_event_by_offset"))}

    for b, info in sites:
        ctx.paths += 1
        callee = s.nice(info["callee"])
        short_callee = callee.split("::")[-1]
        args = info["args"]
        argvals = []
        for a, pre in zip(args, info["pre"]):
            argvals.append(a)
            if a[0] == "ref" and pre is not None:
                argvals.append(pre)
        arg_objs = set()
        for a in argvals:
            arg_objs |= object_calls(a)
        arg_plain = {strip_sites(a) for a in argvals}
        good = []
        for node, other in eq_edges.items():
            objs = object_calls(other)
            linked = bool(objs & arg_objs)
            if not linked:
                # the compared author is a field of (or is) the very value the call is given: `addr.author` vs `&addr`,
                # `addr.author` vs `addr.author` - whatever the object was unwrapped from
                r = other
                for _ in range(4):
                    if strip_sites(r) in arg_plain:
                        linked = True
                        break
                    if r[0] == "proj" and r[2][0] == "f":
                        r = r[1]
                    elif r[0] in ("init", "ref", "byref", "deref") and isinstance(r[1], tuple):
                        r = r[1]
                    elif r[0] == "field":
                        r = r[1]
                    else:
                        break
            if not linked:
                # target fetched by the same id that the call acts on
                for o in objs:
                    if o[1].endswith("get_event_by_id") and any(strip_sites(x) in arg_plain for x in o[2]
                                                                if x[0] != "param"):
                        linked = True
                    # ... also when the lookup by id is written out: the event at the id index's entry for that id
                    if o[1].endswith("get_event_by_offset"):
                        for q in find_values(o, lambda x: x[0] == "call" and x[1].endswith("get_offset_by_id")):
                            if any(strip_sites(x) in arg_plain for x in q[2] if x[0] != "param"):
                                linked = True
            if linked:
                good.append(node)
        absent_ok = []
        if short_callee == "mark_deleted":
            # the id marker may also be written when the named event is not stored
            for node in an.edge_cond:
                for f in s.edge_facts(fn, node):
                    if f[0] == "variant" and f[2] == 0:
                        V = f[1]
                        for o in find_values(V, lambda x: x[0] == "call" and (x[1].endswith("get_event_by_id") or x[1].endswith("get_offset_by_id"))):
                            # discriminant 0 of the Option payload: None
                            if V[0] == "proj" and any(strip_sites(x) in arg_plain for x in o[2] if x[0] != "param"):
                                absent_ok.append(node)
        ok = s.must_pass(fn, b, good + absent_ok)
        desc = "%s(%s)" % (short_callee, ",".join(s.show(a, fn)[:40] for a in args[1:]))
        if ok:
            s.add("S-DOM", fn, "author-guard", desc, info["sp"], PROVED,
                  "every path passes an 'authors equal' edge on the object this call acts on" +
                  (" or the 'target absent' edge" if absent_ok else ""), b)
        else:
            s.add("S-DOM", fn, "author-guard", desc, info["sp"], VIOLATION,
                  "a path reaches this destructive call without the author comparison (against the object it acts on) "
                  "having come out equal", b)
    # the differ outcome reaches no destructive call and only error returns
    rk = {node: kind for node, kind, _ in s.return_kinds(fn)}
    for node, other in ne_edges.items():
        reach = s.reachable_blocks(fn, [node])
        bad = sorted(reach & site_blocks)
        e = an.cfg.edges[node - an.cfg.nblocks]
        sp = fn.blocks[e.src]["term"]["sp"]
        desc = "differ(%s)" % s.show(other, fn)[:60]
        if bad:
            s.add("S-DOM", fn, "differ-edge", desc, sp, VIOLATION,
                  "the 'authors differ' outcome can still reach a destructive call (bb%s)" % bad, e.src)
        else:
            s.add("S-DOM", fn, "differ-edge", desc, sp, PROVED,
                  "the 'authors differ' outcome reaches no destructive call", e.src)
    ctx.instances["C10.differ-edges"] = len(ne_edges)
    from . import lifecycle
    lifecycle.all_tags_examined(ctx, s)
    # the error leaves store_event without committing (shared with C12)
    txn.error_paths_do_not_commit(ctx, s, "pocket_db::Store::store_event")
    txn.effects_use_callers_txn(ctx, s, "pocket_db::Store::store_event", only_under=HANDLER)


def ctx_error(msg):
    from ..main import AnalysisError
    return AnalysisError(msg)
