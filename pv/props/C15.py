"""C15 - event references stay valid and unchanged while the store lives."""
import os
from ..srules import S
from ..guard import PROVED, VIOLATION, UNDECIDED
from .. import witness

EXPLANATION = (
    "Decides (1) at the type level, with compile-fail witnesses and compiling twins checked by rustdoc on the "
    "current tree: a reference obtained by offset, by id or from a query cannot outlive the Store (E0597), and the "
    "store cannot be consumed by rebuild while such a reference is live (E0505); (2) on the call graph: which public "
    "functions can reach a remap of the event map that is allowed to move it (memmap2 remap with may_move(true), "
    "read from the dependency's MIR) while taking only a shared borrow of the store. Since references are handed out "
    "under a shared borrow, the borrow checker cannot stop such a function from running while they are live; each "
    "such path is a violation (today: Store::store_event -> EventStore::store_event -> MmapAppend::resize -> remap, a "
    "recorded known finding). Whether the kernel actually moves a given mapping is not decided.")
EXPLANATION += " Also decided (3): bytes handed out cannot change under a live reference through pocket-db's own code: only EventStore::store_event reaches the appender, the appender writes at and beyond the end marker before publishing it, and no function of pocket-db writes to the file through a file handle or obtains a mutable pointer into the map."
EXPLANATION += " Also decided: the length stored for the next grow is the one just passed to set_len (else the next grow truncates stored bytes); no function of pocket-db builds slices from raw pointers or keeps a raw pointer in an atomic (a remembered base address dangles once the map moves)."
ASSUMPTIONS = ["rustdoc's compile_fail verdict with an error code (nightly) is a faithful type-check"]

WITNESSES = {
    "RefOutlivesStore": "a reference from get_event_by_offset cannot outlive the store",
    "RefByIdOutlivesStore": "a reference from get_event_by_id cannot outlive the store",
    "RebuildWhileBorrowed": "rebuild(self) cannot run while a reference is live",
    "QueryResultOutlivesStore": "query results cannot outlive the store",
}


def run(ctx):
    s = S(ctx)
    anchor = ctx.fn("pocket_db::Store::get_event_by_offset")
    repo = os.environ.get("PV_REPO", "/repo")
    res, out = witness.run(repo)
    from ..main import AnalysisError
    if not res:
        raise AnalysisError("witness doc tests produced no results: %s" % out[-400:])
    for name, what in WITNESSES.items():
        r = res.get(name)
        if r is None or not r["twin"] or not r["fail"]:
            raise AnalysisError("witness %s did not run" % name)
        if not all(r["twin"]):
            raise AnalysisError("the compiling twin of witness %s does not compile: the witness is broken, not the property" % name)
        ok = all(r["fail"])
        s.add("W-LIFETIME", anchor, "witness", name, anchor.sp, PROVED if ok else VIOLATION,
              what + " (rejected by the borrow checker with the expected error code; twin compiles)" if ok else
              "the program that keeps a reference beyond its store now type-checks: " + what + " no longer holds")
    ctx.instances["C15.witnesses"] = len(WITNESSES)
    reloc(ctx, s)
    from . import storage
    storage.appender_callers(ctx, s, need_write_txn=False)
    storage.append_order_in_dependency(ctx, s)
    storage.growth_monotone(ctx, s)
    storage.no_cached_map_pointers(ctx, s)
    storage.recorded_length_is_file_length(ctx, s)
    storage.reopen_validates_marker(ctx, s)


def reloc(ctx, s):
    F, G = ctx.F, ctx.G
    # R: functions containing a remap that may move the mapping
    movers = []
    for p, f in F.fns.items():
        an = ctx.E.an(f)
        for b, info in an.calls():
            c = info["callee"] or ""
            if c.startswith("memmap2::") and c.rsplit("::", 1)[-1] == "remap":
                opts = info["args"][-1]
                may_move = True
                # RemapOptions::new().may_move(flag): read the constant flag
                from ..srules import find_values
                mm = find_values(opts, lambda x: x[0] == "call" and x[1].rsplit("::", 1)[-1] == "may_move")
                if mm:
                    flag = mm[0][2][-1]
                    if flag[0] == "const" and flag[1] == 0:
                        may_move = False
                elif not mm:
                    may_move = False    # default RemapOptions do not move
                if may_move:
                    movers.append((f, b, info))
    ctx.floor("C15.moving-remap-sites", len(movers), 0)
    ctx.instances["C15.moving-remap-sites"] = len(movers)
    if not movers:
        s.add("S-RELOC", ctx.fn("pocket_db::EventStore::store_event"), "no-moving-remap", "event map", ctx.fn("pocket_db::EventStore::store_event").sp,
              PROVED, "no remap that may move the mapping exists in the analysed crates")
        return
    mover_paths = {f.path for f, b, i in movers}
    # handing-out methods (for the report) and public entry points that reach a mover under &self
    handed = sorted(f.nice for f in F.fns.values() if f.nice.startswith("pocket_db::Store::") and f.vis == "pub" and
                    f.output is not None and "Event" in f.output["s"] and f.inputs and f.inputs[0]["s"].startswith("&") and
                    not f.inputs[0]["s"].startswith("&mut"))
    ctx.instances["C15.reference-handing-methods"] = len(handed)
    n = 0
    for p, f in sorted(F.fns.items()):
        if not f.nice.startswith("pocket_db::Store::") or f.vis != "pub" or f.kind == "Closure" or not f.inputs:
            continue
        recv = f.inputs[0]["s"]
        if not recv.endswith("Store"):
            continue
        shared = recv.startswith("&") and not recv.startswith("&mut")
        reach = G.reachable([p])
        hit = sorted(reach & mover_paths)
        if not hit:
            continue
        n += 1
        # one witness path for the report
        path = _path(G, p, hit[0])
        desc = "->".join(F.nice_of(x).split("::", 1)[-1] for x in path) + "->remap(may_move)"
        if shared:
            s.add("S-RELOC", f, "moving-remap-under-shared-borrow", desc, f.sp, VIOLATION,
                  "%s takes &self, so it may run while references handed out by %s are live, and it can reach a remap that is "
                  "allowed to move the mapping: those references would dangle" % (f.nice.split("::")[-1], ", ".join(h.split("::")[-1] for h in handed)))
        else:
            s.add("S-RELOC", f, "moving-remap-needs-exclusivity", desc, f.sp, PROVED,
                  "reaches the moving remap but takes the store by value / &mut: no reference can be live")
    ctx.instances["C15.public-paths-to-moving-remap"] = n


def _path(G, src, dst):
    prev = {src: None}
    q = [src]
    while q:
        x = q.pop(0)
        if x == dst:
            break
        for y in sorted(G.out.get(x, ())):
            if y not in prev and y in G.F.fns:
                prev[y] = x
                q.append(y)
    out = []
    x = dst
    while x is not None:
        out.append(x)
        x = prev.get(x)
    return list(reversed(out))
