"""S-TXN / S-EFFECT rules shared by C10, C12, C13, C14, C18: one write transaction, acquired
first, threaded through every index mutation, committed last and only on the success path."""
from ..srules import S, find_values, unbyref
from ..guard import PROVED, VIOLATION, UNDECIDED
from ..sym import strip_sites

WRITE_OPS = ("put", "delete", "clear", "delete_range", "put_with_flags", "append", "delete_one_duplicate")


def is_heed_write(callee):
    return callee.startswith("heed::database::") and callee.rsplit("::", 1)[-1] in WRITE_OPS


def is_heed_read(callee):
    return callee.startswith("heed::database::") and callee.rsplit("::", 1)[-1] in (
        "get", "range", "iter", "len", "first", "last", "rev_range", "prefix_iter", "is_empty")


def is_write_txn(callee):
    return callee.startswith("heed::env::") and callee.rsplit("::", 1)[-1] == "write_txn"


def is_read_txn(callee):
    return callee.startswith("heed::env::") and callee.rsplit("::", 1)[-1] in ("read_txn", "static_read_txn")


def is_commit(callee):
    return callee.startswith("heed::txn::") and callee.rsplit("::", 1)[-1] == "commit"


def is_abort(callee):
    return callee.startswith("heed::txn::") and callee.rsplit("::", 1)[-1] == "abort"


def db_scope(ctx, root_path):
    return ctx.G.reachable([root_path], within=lambda p: p.startswith("pocket_db::"))


def txn_arg_index(info):
    for i, t in enumerate(info["aty"]):
        if "RwTxn" in t:
            return i
    return None


def rooted_txn(an, fn, v, own_txn_locals):
    """is v (a &mut RwTxn value) the function's own RwTxn parameter or its own write_txn local?"""
    if v[0] == "param":
        return "RwTxn" in fn.locals[v[1]]["ty"]["s"]
    if v[0] == "ref" and v[1][0] == "local" and v[1][1] in own_txn_locals:
        return True
    if v[0] == "ptrcast":
        return rooted_txn(an, fn, v[2], own_txn_locals)
    if getattr(fn, "kind", None) == "Closure":
        # a closure uses the transaction it captured: (*env).i, possibly through a reborrow - the caller's when the
        # enclosing function put its own transaction there
        x = v
        for _ in range(4):
            if x[0] in ("init", "ref", "byref") and isinstance(x[1], tuple):
                x = x[1]
            elif x[0] == "deref":
                x = x[1]
            else:
                break
        if x[0] == "field" and x[1] == ("deref", ("param", 1)) and an.F is not None:
            parent = an.F.fns.get(fn.parent)
            if parent is not None:
                from ..sym import Analysis
                pa = _an_cache(an.F, parent)
                for val in pa.stmt_val.values():
                    if val is not None and val[0] == "agg" and val[1] == "closure:" + fn.path and x[2] < len(val[2]):
                        op = val[2][x[2]]
                        own_p = set()
                        return rooted_txn(pa, parent, op, own_p) or \
                            (op[0] == "ref" and op[1][0] == "deref" and rooted_txn(pa, parent, op[1][1], own_p)) or \
                            (op[0] in ("ref", "byref") and isinstance(op[1], tuple) and rooted_txn(pa, parent, op[1], own_p))
    return False


_AN = {}


def _an_cache(F, fn):
    from ..sym import Analysis
    k = (id(F), fn.path)
    if k not in _AN:
        _AN[k] = Analysis(fn, F)
    return _AN[k]


def own_write_txn_locals(ctx, s, fn):
    """locals of fn that hold the result of Lmdb::write_txn()? / env.write_txn()?"""
    an = ctx.E.an(fn)
    out = set()
    for (b, i), v in an.stmt_val.items():
        L = an.stmt_loc.get((b, i))
        if L is None or L[0] != "local":
            continue
        hits = find_values(v, lambda x: x[0] == "call" and (x[1].endswith("::write_txn")))
        if hits and "RwTxn" in fn.locals[L[1]]["ty"]["s"] and not fn.locals[L[1]]["ty"]["s"].startswith(("std::result", "core::result", "std::ops", "core::ops")):
            out.add(L[1])
    return out


def single_write_txn_first(ctx, s, root):
    """(S-TXN.1) exactly one write transaction, acquired before the first access to index state"""
    fn = ctx.fn(root)
    an = ctx.E.an(fn)
    wt = s.calls(fn, pred=lambda n, c, b, i: c.endswith("::write_txn"))
    ctx.floor("S-TXN.write_txn in %s" % root.split("::")[-1], len(wt), 1)
    if len(wt) != 1:
        s.add("S-TXN", fn, "one-write-txn", root.split("::")[-1], fn.sp, VIOLATION,
              "%d write transactions are acquired" % len(wt))
        return None
    wb, winfo = wt[0]
    s.add("S-TXN", fn, "one-write-txn", root.split("::")[-1], winfo["sp"], PROVED, "exactly one write_txn call", wb)
    # every other call touching the indexes is dominated by the acquisition
    idx_calls = s.calls(fn, pred=lambda n, c, b, i: (n.startswith("pocket_db::Lmdb::") or n.startswith("pocket_db::Store::") or
                                                     c.startswith("heed::")) and not c.endswith("::write_txn"))
    bad = [(b, i) for b, i in idx_calls if not an.cfg.dominates(wb, b)]
    ctx.call_sites += len(idx_calls)
    if bad:
        b, i = bad[0]
        s.add("S-TXN", fn, "txn-first", root.split("::")[-1], i["sp"], VIOLATION,
              "%s is reached before the write transaction is acquired" % s.nice(i["callee"]), b)
    else:
        s.add("S-TXN", fn, "txn-first", root.split("::")[-1], winfo["sp"], PROVED,
              "write_txn dominates all %d index/store calls" % len(idx_calls), wb)
    return wb


def effects_use_callers_txn(ctx, s, root, only_under=None, allow_own_txn=()):
    """(S-TXN.2) every LMDB mutation reachable from root goes through the transaction handed down
    from root; nobody below root opens, commits or aborts a write transaction"""
    rootfn = ctx.fn(root)
    scope_root = ctx.fn(only_under).path if only_under else rootfn.path
    scope = db_scope(ctx, scope_root)
    ctx.functions.update(scope)
    n_eff = 0
    n_pass = 0
    allow_own = {ctx.fn(n).path for n in allow_own_txn} | {rootfn.path}
    wrappers = {ctx.fn(n).path for n in ("pocket_db::Lmdb::write_txn", "pocket_db::Store::write_txn")}
    for p in sorted(scope):
        if p in wrappers:
            continue    # thin wrappers around env.write_txn(); calls *to* them are what counts
        g = ctx.F.fns[p]
        an = ctx.E.an(g)
        own = own_write_txn_locals(ctx, s, g) if p in allow_own else set()
        for b, info in an.calls():
            callee = info["callee"] or ""
            ti = txn_arg_index(info)
            if is_heed_write(callee):
                n_eff += 1
                v = info["args"][ti] if ti is not None else None
                recv, _ = s.receiver_field(g, info["args"][0])
                desc = "%s.%s" % (".".join(recv) if recv else "?", callee.rsplit("::", 1)[-1])
                if v is not None and rooted_txn(an, g, v, own):
                    s.add("S-TXN", g, "effect-txn", desc, info["sp"], PROVED,
                          "mutation goes through the caller's transaction", b)
                else:
                    s.add("S-TXN", g, "effect-txn", desc, info["sp"], VIOLATION,
                          "LMDB mutation through a transaction that is not the one handed down by the caller", b)
            elif ti is not None and "&mut" in info["aty"][ti] and ctx.F.fns.get(callee) is not None:
                n_pass += 1
                v = info["args"][ti]
                if not rooted_txn(an, g, v, own):
                    s.add("S-TXN", g, "pass-txn", s.nice(callee).split("::")[-1], info["sp"], VIOLATION,
                          "callee receives a write transaction other than the caller's", b)
            if p != rootfn.path and p not in allow_own and (is_write_txn(callee) or callee.endswith("Lmdb::write_txn") or
                                       s.nice(callee) in ("pocket_db::Lmdb::write_txn", "pocket_db::Store::write_txn")):
                s.add("S-TXN", g, "nested-write-txn", g.nice.split("::")[-1], info["sp"], VIOLATION,
                      "a second write transaction is opened below %s" % root.split("::")[-1], b)
            if p != rootfn.path and p not in allow_own and (is_commit(callee) or is_abort(callee)):
                s.add("S-TXN", g, "nested-commit", g.nice.split("::")[-1], info["sp"], VIOLATION,
                      "commit/abort below %s" % root.split("::")[-1], b)
    ctx.instances["S-TXN.effects under %s" % (only_under or root).split("::")[-1]] = n_eff
    s.add("S-TXN", ctx.fn(only_under or root), "no-nested-txn", (only_under or root).split("::")[-1], ctx.fn(only_under or root).sp, PROVED,
          "%d functions below: none opens, commits or aborts a write transaction; %d transaction hand-downs checked" % (len(scope) - 1, n_pass)) \
        if not any(o.kind in ("nested-write-txn", "nested-commit") and o.verdict == VIOLATION for o in ctx.obs) else None
    return n_eff


def error_paths_do_not_commit(ctx, s, root):
    """(S-TXN.3) commit is reached only on the way to Ok; no Err return is reachable after a
    successful commit; every Ok return passed a successful commit"""
    fn = ctx.fn(root)
    an = ctx.E.an(fn)
    commits = s.calls(fn, pred=lambda n, c, b, i: is_commit(c))
    ctx.floor("S-TXN.commit in %s" % root.split("::")[-1], len(commits), 1)
    ok_edges = []
    for b, info in commits:
        ok_edges += s.ok_edges_of_call(fn, b)
    rk = s.return_kinds(fn)
    oks = [n for n, k, v in rk if k == "ok"]
    errs = [(n, v) for n, k, v in rk if k == "err"]
    ctx.paths += len(rk)
    after_commit = s.reach(fn, ok_edges) if ok_edges else set()
    bad_err = [n for n, v in errs if n in after_commit]
    name = root.split("::")[-1]
    if bad_err:
        s.add("S-TXN", fn, "err-after-commit", name, fn.sp, VIOLATION,
              "an error return is reachable after the transaction was committed")
    else:
        s.add("S-TXN", fn, "err-after-commit", name, fn.sp, PROVED,
              "none of the %d error returns is reachable from a successful commit" % len(errs))
    missing = [n for n in oks if not s.must_pass(fn, n if n < an.cfg.nblocks else n, ok_edges)]
    # must_pass works on nodes: for edge nodes use reachability without the ok edges
    reach = s.reach(fn, [an.cfg.entry], avoid=ok_edges)
    missing = [n for n in oks if n in reach]
    if missing:
        s.add("S-TXN", fn, "ok-needs-commit", name, fn.sp, VIOLATION,
              "a success return is reachable without a successful commit")
    else:
        s.add("S-TXN", fn, "ok-needs-commit", name, fn.sp, PROVED,
              "all %d success returns pass the Ok edge of commit" % len(oks))
    # nothing fallible or effectful between commit and the Ok return
    between = {n for n in after_commit if n < an.cfg.nblocks}
    eff = []
    for b in between:
        info = an.term.get(b)
        if info and info["kind"] == "call":
            c = info["callee"] or ""
            if c in ctx.F.fns or c.startswith("heed::") or c.startswith("mmap_append::"):
                eff.append((b, c))
    if eff:
        s.add("S-TXN", fn, "commit-last", name, fn.sp, VIOLATION,
              "%s is called after the commit" % s.nice(eff[0][1]))
    else:
        s.add("S-TXN", fn, "commit-last", name, fn.sp, PROVED, "no index or store call follows the commit")
    return ok_edges


def results_not_dropped(ctx, s, root, within_prefix="pocket_db::"):
    """error discipline: no Result returned by an in-crate or storage-layer call in the closure of
    `root` is discarded (it is propagated with `?`, matched on, returned or passed on)"""
    from ..sym import walk
    rootfn = ctx.fn(root)
    scope = ctx.G.reachable([rootfn.path], within=lambda p: p.startswith(within_prefix))
    n = 0
    for p in sorted(scope):
        g = ctx.F.fns[p]
        an = ctx.E.an(g)
        uses = set()

        def note(v, top=True):
            """record call values nested inside v (a bare copy of the value is not a use)"""
            def f(x):
                if x[0] == "call" and x is not v:
                    uses.add(x)
            walk(v, f)
            if not top and v[0] == "call":
                uses.add(v)

        for v in an.stmt_val.values():
            note(v)
        arg_uses = set()
        for b, info in an.term.items():
            if info["kind"] == "call":
                for a in info["args"]:
                    note(a, top=False)
            elif info["kind"] == "return":
                note(info["value"], top=False)
            elif info["kind"] == "switch":
                note(info["discr"], top=False)
        for node, kind, v in s.return_kinds(g):
            note(v, top=False)
        for b, info in an.calls():
            callee = info["callee"] or ""
            cf = ctx.F.fns.get(callee)
            is_res = False
            if cf is not None and cf.output is not None:
                is_res = cf.output["s"].startswith(("std::result::Result", "core::result::Result"))
            elif callee.startswith(("heed::database::", "heed::txn::", "heed::env::", "std::fs::", "mmap_append::")):
                dl = an.term[b]["dest"]
                if dl[0] == "local":
                    is_res = g.locals[dl[1]]["ty"]["s"].startswith(("std::result::Result", "core::result::Result"))
            if not is_res:
                continue
            n += 1
            V = info["value"]
            if V in uses or V in arg_uses:
                continue
            s.add("S-ERR", g, "dropped-result", s.nice(callee).split("::", 1)[-1], info["sp"], VIOLATION,
                  "the Result of this call is discarded: a failure would not stop the operation", b)
    ctx.instances["S-ERR.result-call-sites under %s" % root.split("::")[-1]] = n
    if not any(o.rule == "S-ERR" and o.verdict == VIOLATION for o in ctx.obs):
        s.add("S-ERR", rootfn, "results-propagated", root.split("::")[-1], rootfn.sp, PROVED,
              "all %d Result-returning calls in the closure are propagated, matched or returned" % n)
    return n


def verdicts_under_writer(ctx, s, root):
    """S-TXN: every verdict a mutating operation gives about the event (Duplicate, Replaced, Deleted, InvalidDelete, ...) is
    formed while it holds the write transaction.  A verdict formed before the writer lock is taken speaks about a state no
    serial order contains: "duplicate" of an event whose first copy is not stored yet (and may yet be refused), "replaced" by
    a version that is not committed."""
    fn = ctx.fn(root)
    an = ctx.E.an(fn)
    wt = s.calls(fn, pred=lambda n, c, b, i: c.endswith("::write_txn"))
    short = root.split("::")[-1]
    if len(wt) != 1:
        return
    wb, winfo = wt[0]
    held = s.ok_edges_of_call(fn, wb) or [wb]
    sites = {}
    for (b, i), v in sorted(an.stmt_val.items()):
        for a in find_values(v, lambda y: y[0] == "agg" and isinstance(y[1], str) and y[1].startswith("adt:pocket_db::error::InnerError:")):
            if a[1].rsplit(":", 1)[-1] in ("Duplicate", "Replaced", "Deleted", "InvalidDelete"):     # verdicts about stored state
                sites.setdefault(b, a[1].rsplit(":", 1)[-1])
    ctx.instances["S-TXN.%s verdict sites" % short] = len(sites)
    # a verdict site that can be reached from entry without passing the acquisition
    reach = s.reach(fn, [an.cfg.entry], avoid=held)
    bad = sorted((b, v) for b, v in sites.items() if b in reach)
    if bad:
        b, v = bad[0]
        s.add("S-TXN", fn, "verdict-under-writer", short, fn.blocks[b]["term"]["sp"], VIOLATION,
              "the verdict %s can be given before the write transaction is taken: it is about a state that no serial order of the "
              "concurrent operations contains (the copy it refers to is not stored, and may never be)" % v, b)
    else:
        s.add("S-TXN", fn, "verdict-under-writer", short, winfo["sp"], PROVED if sites else UNDECIDED,
              "all %d verdict sites lie behind the acquisition of the write transaction" % len(sites) if sites else
              "no verdict sites found: not decided", wb)
