"""C16 - reopen and rebuild preserve everything observable."""
from ..srules import S
from . import tables, storage

EXPLANATION = (
    "Decides that rebuild loses no table: every Lmdb table that any function writes is either re-derived by "
    "Lmdb::index (called for every entry of the old id index) or copied (read from the old store and written to "
    "the new one), including the two deletion-marker tables and the extra tables; each copy loop's transaction is "
    "committed on the success path; the new map receives exactly one append, in the loop over the id index, of the "
    "event fetched for that entry (no unreferenced bytes are carried over); the marker key decoder reads exactly the "
    "component offsets, widths and byte order the key builder writes; the old files are renamed to *.bak and nothing "
    "is removed; the reopen path never truncates, never blindly re-initialises and validates the end marker. "
    "Equality of all query results before and after is not decided.")
EXPLANATION += " Also decided: the backup path of every directory rebuild moves aside is cleared first (a directory cannot be renamed over a non-empty one: the second rebuild of a store would fail half-way), and nothing but a stale *.bak is ever removed."
EXPLANATION += " Also decided: every LMDB environment rebuild opens is the returned store's or is explicitly closed on every path to Ok (one that is merely dropped stays in heed's process-wide cache and is handed to the next rebuild of the same backup path)."
EXPLANATION += ' Also decided: the three marker/id lookups answer only from their tables (a process-local flag or cache does not survive reopen).'
EXPLANATION += ' Also decided: index tables are written only by Lmdb::index and deleted from only by deindex/deindex_id (rebuild re-indexes in full whatever the id index lists).'
ASSUMPTIONS = []


def run(ctx):
    s = S(ctx)
    tables.rebuild_table_cover(ctx, s)
    tables.rebuild_backup(ctx, s)
    tables.marker_codec(ctx, s)
    tables.lookups_answer_from_table(ctx, s)
    # rebuild re-indexes every entry of the id index in full: an id-index entry must exist only for a fully indexed event
    tables.removal_funnel(ctx, s)
    storage.append_index_commit_order(ctx, s, "pocket_db::Store::rebuild", loop=True)
    storage.reopen_validates_marker(ctx, s)
