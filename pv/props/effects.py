"""Effect primitives (external callees with an effect on persistent or shared state)."""


def last(c):
    return c.rsplit("::", 1)[-1]


def kind_of(callee):
    """LMDB-WRITE | LMDB-TXN | FS | MMAP | ATOMIC | None"""
    l = last(callee)
    if callee.startswith("heed::database::") and l in ("put", "delete", "clear", "delete_range", "put_with_flags",
                                                        "append", "delete_one_duplicate", "get_or_put"):
        return "LMDB-WRITE"
    if callee.startswith("heed::env::") and l in ("write_txn", "nested_write_txn"):
        return "LMDB-WTXN"
    if callee.startswith("heed::txn::") and l in ("commit", "abort"):
        return "LMDB-COMMIT"
    if callee.startswith("heed::env::") and l in ("clear_stale_readers", "copy_to_file", "force_sync", "prepare_for_closing",
                                                  "resize"):
        return "LMDB-ENV"
    if callee.startswith("heed::iterator::") and l in ("del_current", "put_current"):
        return "LMDB-WRITE"
    if callee.startswith("std::fs::") or callee.startswith("std::os::unix::fs::"):
        if l in ("metadata", "len", "uid", "read_dir", "exists", "is_file", "is_dir", "try_exists", "read", "new", "read_to_string"):
            return None
        return "FS"
    if callee.startswith("memmap2::") and l in ("remap", "flush", "flush_range", "flush_async", "flush_async_range",
                                                 "as_mut_ptr", "map_raw", "map_mut", "map_raw_read_only", "lock", "unlock",
                                                 "advise", "advise_range"):
        return "MMAP"
    if callee.startswith("core::slice::raw::") and l in ("from_raw_parts_mut",):
        return "MMAP"
    if callee.startswith("core::sync::atomic::") and l in ("store", "swap", "fetch_add", "fetch_sub", "compare_exchange",
                                                            "fetch_max", "fetch_min"):
        return "ATOMIC"
    if callee.startswith("std::sync::") and l in ("write", "lock", "try_write", "try_lock", "get_mut", "set", "replace"):
        return "SHARED-MUT"
    if callee.startswith("core::cell::") and l in ("borrow_mut", "set", "replace", "swap", "take", "get_mut", "try_borrow_mut"):
        return "SHARED-MUT"
    if callee.startswith("libc::") or callee.startswith("std::process::") or callee.startswith("std::env::set"):
        return "OS"
    return None


def effect_sites(ctx, root_paths, within=None):
    """[(caller_path, block, callee, kind, term)] for effect primitives reachable from the roots"""
    G = ctx.G
    out = []
    for p, bi, c, t in G.reaches_external(root_paths, lambda c: kind_of(c) is not None, within):
        out.append((p, bi, c, kind_of(c), t))
    return out
