"""C11 - accepted deletions are permanent and deletion times never move backwards."""
from ..srules import S
from ..guard import PROVED, VIOLATION, UNDECIDED
from . import tables, lifecycle
from .recheck import builder_is_lossy
from ..srules import contains_value

EXPLANATION = (
    "Decides: (1) in store_event every effect (pre-removal, append, indexing, deletion handling) is reached only "
    "after is_deleted(event.id()) came out false, and for each replaceable class the address marker is looked up "
    "on the event's own (kind, author[, d]) and the event is rejected iff created_at <= deletion time, the rejecting "
    "edge reaching no effect; (2) the only writer of the address-marker table stores a time only when none is "
    "stored or the stored one is smaller; (3) no function deletes from or clears either marker table, markers are "
    "written only by the two marker functions, and rebuild copies both tables; (4) in the handler the marker is "
    "written with the request's created_at and followed by the class-appropriate removal up to that time, and an "
    "id marker is written only after a present target was removed. Behaviour over all continuations follows by "
    "argument from these plus LMDB semantics and is not mechanised.")
EXPLANATION += " Also decided: is_deleted and when_is_naddr_deleted answer only after reading their table through the caller's transaction; after the address marker is written the handler reaches the next tag (or Ok) only through a removal or through finding the kind non-removable."
EXPLANATION += ' Also decided: the removal helpers scan from Time::min() to the `until` they are given, unchanged (the marker is recorded inclusively at the same time).'
ASSUMPTIONS = []


def run(ctx):
    s = S(ctx)
    lifecycle.markers_consulted_first(ctx, s)
    tables.naddr_marker_monotone(ctx, s)
    tables.markers_never_removed(ctx, s)
    tables.rebuild_table_cover(ctx, s)
    tables.marker_codec(ctx, s)
    tables.lookups_answer_from_table(ctx, s, ("is_deleted", "when_is_naddr_deleted"))
    lifecycle.covered_events_removed(ctx, s)
    lifecycle.all_tags_examined(ctx, s)
    lifecycle.removal_scan_window(ctx, s)
    marker_key_exact(ctx, s)


def marker_key_exact(ctx, s):
    """the address-marker key must identify the address exactly (it is looked up by exact key)"""
    trunc, pad = builder_is_lossy(ctx, s, "key_naddr_index")
    fn = ctx.fn("pocket_db::Lmdb::key_naddr_index")
    # padding is harmless here: the key carries a length byte
    lenbyte = any(i["value"][0] == "call" and i["callee"].endswith("::extend") and
                  contains_value(i["pre"][1] if i["pre"][1] is not None else i["args"][1],
                                 lambda x: x[0] == "cast" and "u8" in str(x[2]))
                  for b, i in ctx.E.an(fn).calls() if i["callee"])
    if not trunc and pad and not lenbyte:
        s.add("S-RECHECK", fn, "marker-key", "d-padded-without-length", fn.sp, VIOLATION,
              "the deletion-marker key pads the d value without recording its length: d and d+NUL share one marker")
        return
    if trunc:
        s.add("S-RECHECK", fn, "marker-key", "d-truncated", fn.sp, VIOLATION,
              "the deletion-marker key cuts the d value at a fixed width: two addresses whose d values share that prefix "
              "(and are at least that long) share one marker")
    else:
        s.add("S-RECHECK", fn, "marker-key", "d-exact", fn.sp, PROVED, "the marker key carries the whole d value")
