"""Escaping rules shared by C02, C07, C08: the escape table (S-TABLE) and the rule that data strings
reach a JSON writer's output only through json_escape (S-ESCFLOW)."""
from ..srules import S, find_values, contains_value, unbyref, deep_values
from ..guard import PROVED, VIOLATION, UNDECIDED

ESCAPE = "pocket_types::json::json_escape::json_escape"
NIP01_TABLE = {0x08: b"\\b", 0x09: b"\\t", 0x0A: b"\\n", 0x0C: b"\\f", 0x0D: b"\\r", 0x22: b'\\"', 0x5C: b"\\\\"}
SAFE_RANGES = [(0x20, 0x21), (0x23, 0x5B), (0x5D, 0x10FFFF)]


def escape_table(ctx, s):
    fn = ctx.fn(ESCAPE)
    an = ctx.E.an(fn)
    cfg = an.cfg
    ctx.functions.add(fn.path)
    # the switch on the code point: value -> first extend() reached from that arm
    table = {}
    sw = None
    for b, info in an.term.items():
        if info["kind"] == "switch" and info["dty"] == "u32":
            ec = [e for e in cfg.out_edges[b] if e.label[0] == "switch"]
            if len(ec) >= 5:
                sw = b
                for e in ec:
                    # follow goto/call chain until an extend call
                    cur = e.dst
                    for _ in range(6):
                        ti = an.term.get(cur)
                        if ti is None:
                            break
                        if ti["kind"] == "call" and (ti["callee"] or "").endswith("::extend"):
                            bs = find_values(ti["args"][1], lambda x: x[0] == "bytes")
                            if bs:
                                table[e.label[1]] = bs[0][1]
                            break
                        outs = cfg.out_edges[cur]
                        if len(outs) != 1:
                            break
                        cur = outs[0].dst
    from ..main import AnalysisError
    if sw is None:
        raise AnalysisError("escape dispatch not found in json_escape")
    ok = table == NIP01_TABLE
    s.add("S-TABLE", fn, "escape-table", "NIP-01", fn.blocks[sw]["term"]["sp"], PROVED if ok else VIOLATION,
          "the seven NIP-01 escapes \\b \\t \\n \\f \\r \\\" \\\\ and nothing else are emitted as two-character escapes" if ok else
          "escape table differs from NIP-01: got %s" % sorted((hex(k), v) for k, v in table.items()), sw)
    # the default arm: \\u00XX only for code points <= 0x20, lower-case hex, 4 digits
    fmt = [(b, i) for b, i in an.calls() if (i["callee"] or "").endswith("new_lower_hex")]
    tmpl = [(b, i) for b, i in an.calls() if (i["callee"] or "") == "core::fmt::{impl#4}::new" or (i["callee"] or "").endswith("Arguments::new")]
    okf = bool(fmt)
    lit = b""
    for b, i in tmpl:
        bs = find_values(i["args"][0], lambda x: x[0] == "bytes")
        if bs:
            lit = bs[0][1]
    okf = okf and lit.startswith(b"\x02\\u")
    s.add("S-TABLE", fn, "control-escape", "\\u00xx", fn.sp, PROVED if okf else VIOLATION,
          "remaining control characters are written as \\u + lower-case hex" if okf else "the fallback escape is not \\u + lower-case hex")
    # safe ranges
    sf = ctx.fn("pocket_types::json::json_escape::is_safe_char")
    sa = ctx.E.an(sf)
    ctx.functions.add(sf.path)
    rs = []
    for b, i in sa.calls():
        if (i["callee"] or "").endswith("::new") and "range" in i["callee"] and len(i["args"]) == 2:
            a, c = i["args"]
            if a[0] == "const" and c[0] == "const":
                rs.append((a[1], c[1]))
    okr = sorted(rs) == SAFE_RANGES
    s.add("S-TABLE", sf, "verbatim-ranges", "0x20-0x21,0x23-0x5B,0x5D-0x10FFFF", sf.sp, PROVED if okr else VIOLATION,
          "exactly the scalar values other than controls, quote and backslash pass verbatim" if okr else
          "the verbatim ranges are %s" % sorted((hex(a), hex(b)) for a, b in rs))
    # verbatim copy and escapes are mutually exclusive: the copy is under is_safe_char == true
    for b, i in an.calls():
        if (i["callee"] or "").endswith("::extend") and i["args"][1][0] == "slice":
            ok = any(f[0] == "true" and f[1][0] == "call" and f[1][1].endswith("::is_safe_char") for f in ctx.E.facts(fn, b))
            s.add("S-DOM", fn, "verbatim-only-if-safe", "extend(input[..])", i["sp"], PROVED if ok else VIOLATION,
                  "input bytes are copied verbatim only under is_safe_char" if ok else "input bytes can be copied verbatim without the safety test", b)
    # the inverse arms of json_unescape
    un = ctx.fn("pocket_types::json::json_escape::json_unescape")
    ua = ctx.E.an(un)
    ctx.functions.add(un.path)
    inv = {}
    for b, info in ua.term.items():
        if info["kind"] == "switch" and info["dty"] == "u8":
            for e in ua.cfg.out_edges[b]:
                if e.label[0] != "switch":
                    continue
                cur = e.dst
                for _ in range(10):
                    wrote = None
                    for si, st in enumerate(un.blocks[cur]["stmts"]):
                        v = ua.stmt_val.get((cur, si))
                        L = ua.stmt_loc.get((cur, si))
                        if v is not None and L is not None and L[0] == "deref" and v[0] == "const" and L[1][0] == "call" and \
                                L[1][1].endswith("get_unchecked_mut"):
                            wrote = v[1]
                    if wrote is not None:
                        inv[e.label[1]] = wrote
                        break
                    outs = [o for o in ua.cfg.out_edges[cur]]
                    if len(outs) == 1:
                        cur = outs[0].dst
                    elif len(outs) == 2 and ua.term[cur]["kind"] == "switch":
                        # the length test of output_byte!: follow the branch that writes
                        nxt = [o.dst for o in outs if ua.term.get(o.dst, {}).get("kind") != "call" or True]
                        cur = outs[0].dst if _writes(ua, un, outs[0].dst) else outs[1].dst
                    else:
                        break
    want_inv = {ord("b"): 8, ord("f"): 12, ord("n"): 10, ord("r"): 13, ord("t"): 9}
    got = {k: v for k, v in inv.items() if k in want_inv}
    oki = got == want_inv
    s.add("S-TABLE", un, "unescape-inverse", "\\b\\f\\n\\r\\t", un.sp, PROVED if oki else VIOLATION,
          "the single-letter escapes decode to the bytes the escaper encodes from" if oki else
          "unescape table is not the inverse of the escape table: %s" % sorted(got.items()))


def _writes(ua, un, b):
    for _ in range(4):
        for si in range(len(un.blocks[b]["stmts"])):
            L = ua.stmt_loc.get((b, si))
            if L is not None and L[0] == "deref":
                return True
        outs = ua.cfg.out_edges[b]
        if len(outs) != 1:
            return False
        b = outs[0].dst
    return False


def writer_escapes(ctx, s, nice_name, out_local_name="output", data_preds=None):
    """S-ESCFLOW: in a JSON writer, every non-constant byte string appended to the output derives from
    json_escape / hex writing / number formatting, never directly from event or filter data"""
    fn = ctx.fn(nice_name)
    an = ctx.E.an(fn)
    ctx.functions.add(fn.path)
    n = 0
    bad = []
    for b, info in an.calls():
        c = info["callee"] or ""
        if not (c.endswith("::extend") and "vec" in c):
            continue
        recv = info["args"][0]
        src = info["args"][1]
        srcv = info["pre"][1] if src[0] in ("ref", "unsize") and info["pre"][1] is not None else src
        n += 1
        if find_values(src, lambda x: x[0] == "bytes") and not _has_data(src):
            continue
        if contains_value(srcv, lambda x: x[0] == "call" and (x[1] == ESCAPE or s.nice(x[1]) == ESCAPE)) or \
                contains_value(src, lambda x: x[0] == "call" and (x[1] == ESCAPE or s.nice(x[1]) == ESCAPE)):
            continue
        allv = deep_values(an, srcv) + deep_values(an, src)
        if any(contains_value(x, lambda y: y[0] == "call" and y[1].rsplit("::", 1)[-1] in ("format", "as_json", "to_string")) for x in allv):
            continue
        if any(contains_value(x, lambda y: y[0] == "call" and (y[1] == ESCAPE or s.nice(y[1]) == ESCAPE)) for x in allv):
            continue
        # anything else that is appended to the JSON text is raw data
        bad.append((b, info))
    for b, info in bad:
        s.add("S-ESCFLOW", fn, "raw-data-in-json", s.show(info["args"][1], fn)[:60], info["sp"], VIOLATION,
              "event/filter data is appended to JSON output without passing through json_escape", b)
    if not bad:
        s.add("S-ESCFLOW", fn, "data-escaped", nice_name.split("::")[-1], fn.sp, PROVED,
              "%d appends examined: data strings reach the output only through json_escape" % n)
    ctx.instances["S-ESCFLOW.%s appends" % nice_name.split("::")[-1]] = n
    return n


def _has_data(v):
    return contains_value(v, lambda x: x[0] == "call" and x[1].startswith("pocket_types::tags::") and x[1].rsplit("::", 1)[-1] in ("next", "get_string", "get_value")) or \
        contains_value(v, lambda x: x[0] == "call" and x[1].endswith("::content"))
