"""Escaping rules shared by C02, C07, C08: the escape table (S-TABLE) and the rule that data strings
reach a JSON writer's output only through json_escape (S-ESCFLOW)."""
from ..srules import S, find_values, contains_value, unbyref, deep_values
from ..guard import PROVED, VIOLATION, UNDECIDED

ESCAPE = "pocket_types::json::json_escape::json_escape"
NIP01_TABLE = {0x08: b"\\b", 0x09: b"\\t", 0x0A: b"\\n", 0x0C: b"\\f", 0x0D: b"\\r", 0x22: b'\\"', 0x5C: b"\\\\"}
SAFE_RANGES = [(0x20, 0x21), (0x23, 0x5B), (0x5D, 0x10FFFF)]


def escape_table(ctx, s):
    fn = ctx.fn(ESCAPE)
    an = ctx.E.an(fn)
    cfg = an.cfg
    ctx.functions.add(fn.path)
    # the dispatch on the code point: the switch with the most valued arms on a u32
    sw = None
    best = 0
    for b, info in an.term.items():
        if info["kind"] == "switch" and info["dty"] == "u32":
            ec = [e for e in cfg.out_edges[b] if e.label[0] == "switch"]
            if len(ec) >= 5 and len(ec) > best:
                sw, best = b, len(ec)
    from ..main import AnalysisError
    if sw is None:
        raise AnalysisError("escape dispatch not found in json_escape")
    cp = an.term[sw]["discr"]
    # every call that adds bytes to the output vector (the escaper's second parameter), whatever the method
    APPENDS = ("extend", "extend_from_slice", "push", "append", "insert", "push_str", "write_all", "resize",
               "extend_from_within", "splice", "write")
    is_out = lambda a: a[0] == "ref" and a[1] in (("local", 2), ("param", 2))
    ext = [(b, i) for b, i in an.calls() if (i["callee"] or "").rsplit("::", 1)[-1] in APPENDS and i["args"] and is_out(i["args"][0])
           and len(i["args"]) > 1]
    ext_blocks = {b for b, i in ext}
    rets = {b for b, i in an.term.items() if i["kind"] == "return"}

    def appended(b, path):
        """constant bytes appended by the extend call in block b when reached along path (None: not a constant)"""
        i = an.term[b]
        for v in (i["args"][1], i["pre"][1] if len(i["pre"]) > 1 else None):
            if v is None:
                continue
            v = s.value_on_path(fn, path, v)
            allv = deep_values(an, v)
            if any(contains_value(x, lambda y: y[0] == "call" and y[1].rsplit("::", 1)[-1] in ("format", "must_use")) for x in allv):
                return "fmt"
            bs = find_values(v, lambda x: x[0] == "bytes")
            if bs and not contains_value(v, lambda x: x[0] == "phi"):
                return bs[0][1]
        return None
    # value -> what the first append on every feasible path from that arm writes
    table = {}
    bad_arms = []
    table_blocks = set()
    for e in cfg.out_edges[sw]:
        if e.label[0] != "switch":
            continue
        paths, other = s.paths_to_first(fn, e.node, ext_blocks | rets)
        outs = set()
        for pth in paths:
            last = pth[-1]
            if last in ext_blocks:
                outs.add(appended(last, pth))
                table_blocks.add(last)
            else:
                outs.add("return")
        if len(outs) == 1 and isinstance(next(iter(outs)), bytes):
            table[e.label[1]] = next(iter(outs))
        else:
            bad_arms.append((e.label[1], sorted(map(repr, outs))))
    ok = table == NIP01_TABLE and not bad_arms
    s.add("S-TABLE", fn, "escape-table", "NIP-01", fn.blocks[sw]["term"]["sp"], PROVED if ok else VIOLATION,
          "the seven NIP-01 escapes \\b \\t \\n \\f \\r \\\" \\\\ and nothing else are emitted as two-character escapes" if ok else
          "escape table differs from NIP-01: got %s%s" % (sorted((hex(k), v) for k, v in table.items()),
                                                          (" and arms without a single constant escape: %s" % bad_arms) if bad_arms else ""), sw)
    # the default arm: what it can append first
    default_first = set()
    for e in cfg.out_edges[sw]:
        if e.label[0] != "otherwise":
            continue
        paths, other = s.paths_to_first(fn, e.node, ext_blocks | rets)
        for pth in paths:
            if pth[-1] in ext_blocks:
                default_first.add((pth[-1], appended(pth[-1], pth)))
    # \\u00XX: lower-case hex, 4 digits
    fmt = [(b, i) for b, i in an.calls() if (i["callee"] or "").endswith("new_lower_hex")]
    tmpl = [(b, i) for b, i in an.calls() if (i["callee"] or "") == "core::fmt::{impl#4}::new" or (i["callee"] or "").endswith("Arguments::new")]
    okf = bool(fmt)
    lit = b""
    for b, i in tmpl:
        bs = find_values(i["args"][0], lambda x: x[0] == "bytes")
        if bs:
            lit = bs[0][1]
    okf = okf and lit.startswith(b"\x02\\u")
    s.add("S-TABLE", fn, "control-escape", "\\u00xx", fn.sp, PROVED if okf else VIOLATION,
          "remaining control characters are written as \\u + lower-case hex" if okf else "the fallback escape is not \\u + lower-case hex")
    # every append of the escaper is one of: the verbatim copy, a table escape (reached from a valued arm only), the
    # \\u fallback (reached from the default arm only, under a proved code point <= 0x20)
    from ..prove import lin_add, lin_const
    P = ctx.E.prover(fn)
    arms = 0
    from_input = lambda v: v == ("param", 1) or (v[0] in ("slice", "slicefrom", "sliceto") and v[1] == ("param", 1)) or \
        (v[0] in ("ref", "byref", "unsize") and isinstance(v[1], tuple) and from_input(v[1]))
    for b, i in ext:
        src = i["args"][1]
        if from_input(src):
            continue            # input bytes copied: judged by verbatim-only-if-safe below
        from_default = {x for x in default_first if x[0] == b}
        kinds = {x[1] for x in from_default}
        is_fmt = appended(b, []) == "fmt" or "fmt" in kinds
        if not is_fmt:
            arms += 1
            # a constant escape: must be a table append, and the default arm must not get there with a constant
            leak = [x for x in from_default if isinstance(x[1], bytes)]
            if b not in table_blocks or leak:
                s.add("S-TABLE", fn, "escape-outside-table", "extend", i["sp"], VIOLATION,
                      "a constant escape sequence is appended for a code point outside the seven of the NIP-01 table", b)
            continue
        g = lin_add(P.lin(cp), lin_const(-0x20))        # cp - 0x20 <= 0
        okc = P.prove_le0(g, ctx.E.facts(fn, b)) and b not in table_blocks
        s.add("S-TABLE", fn, "fallback-only-for-controls", "\\u00xx", i["sp"], PROVED if okc else VIOLATION,
              "the \\u form is produced only outside the seven table code points and only for code points <= 0x20" if okc else
              "a \\u escape (or other non-table output) can be produced for a character that NIP-01 requires verbatim or as a "
              "two-character escape", b)
    ctx.instances["C08.table-arm appends"] = arms
    # safe ranges
    sf = ctx.fn("pocket_types::json::json_escape::is_safe_char")
    sa = ctx.E.an(sf)
    ctx.functions.add(sf.path)
    rs = []
    for b, i in sa.calls():
        if (i["callee"] or "").endswith("::new") and "range" in i["callee"] and len(i["args"]) == 2:
            a, c = i["args"]
            if a[0] == "const" and c[0] == "const":
                rs.append((a[1], c[1]))
    okr = sorted(rs) == SAFE_RANGES
    verdict = PROVED if okr else VIOLATION
    why = "the verbatim ranges are %s" % sorted((hex(a), hex(b)) for a, b in rs)
    if not rs:
        # no range table: the test is written as comparisons.  Evaluate it at every constant it compares against and that
        # constant's neighbours (a function of comparisons with constants is constant between them), and at all of 0..0x100
        from ..srules import eval_fn_scalar
        from ..sym import walk
        consts = set()
        for v in list(sa.stmt_val.values()) + [i.get("discr") for i in sa.term.values() if i.get("discr") is not None]:
            if v is not None:
                walk(v, lambda y: consts.add(y[1]) if (y[0] == "const" and isinstance(y[1], int) and not isinstance(y[1], bool)) else None)
        for outs in (sa.cfg.out_edges.values() if isinstance(sa.cfg.out_edges, dict) else sa.cfg.out_edges):
            for e in outs:
                if e.label and e.label[0] == "switch" and isinstance(e.label[1], int):
                    consts.add(e.label[1])
        pts = set(range(0, 0x100)) | {0x10FFFF, 0xD7FF, 0xE000}
        for k_ in consts:
            pts |= {k_ - 1, k_, k_ + 1}
        pts = sorted(c for c in pts if 0 <= c <= 0x10FFFF and not 0xD800 <= c <= 0xDFFF)
        wrong, unknown = [], []
        for c in pts:
            r = eval_fn_scalar(s, sf, lambda y: y == ("param", 1), c)
            if r is None or isinstance(r, tuple):
                unknown.append(c)
            elif bool(r) != (c >= 0x20 and c not in (0x22, 0x5C)):
                wrong.append(c)
        if wrong:
            verdict, why = VIOLATION, "is_safe_char decides %s the other way than NIP-01 (controls, quote and backslash are escaped, all else verbatim)" % \
                ", ".join(hex(c) for c in wrong[:6])
        elif unknown:
            verdict, why = UNDECIDED, "how is_safe_char decides was not recognised (no range table, and it could not be evaluated at %s): not decided" % hex(unknown[0])
        else:
            verdict = PROVED
            ctx.instances["C08.is_safe_char evaluated points"] = len(pts)
    s.add("S-TABLE", sf, "verbatim-ranges", "0x20-0x21,0x23-0x5B,0x5D-0x10FFFF", sf.sp, verdict,
          "exactly the scalar values other than controls, quote and backslash pass verbatim" if verdict == PROVED else why)
    # verbatim copy and escapes are mutually exclusive: the copy is under is_safe_char == true
    bulk_guard = lambda b_: bulk_scan_guard(ctx, s, fn, b_)
    for b, i in ext:
        if from_input(i["args"][1]):
            ok = any(f[0] == "true" and f[1][0] == "call" and f[1][1].endswith("::is_safe_char") for f in ctx.E.facts(fn, b))
            verdict, why = (PROVED, "input bytes are copied verbatim only under is_safe_char") if ok else (VIOLATION, "")
            if not ok:
                g = bulk_guard(b)
                if g == "?":
                    verdict, why = UNDECIDED, "input bytes are copied under a scan of the input whose predicate could not be evaluated: not decided"
                elif g is not None:
                    unsafe = sorted(c for c in g if c < 0x80 and not (c >= 0x20 and c not in (0x22, 0x5C)))
                    utf8 = any(f[0] == "variant" and contains_value(f[1], lambda y: y[0] == "call" and y[1].endswith("from_utf8")) for f in ctx.E.facts(fn, b))
                    if unsafe:
                        verdict, why = VIOLATION, ("input is copied to the output in bulk when a scan finds none of the bytes it looks for, but "
                                                   "the scan lets %s through: those are written raw where NIP-01 requires an escape" %
                                                   ", ".join("0x%02x" % c for c in unsafe[:8]))
                    elif utf8:
                        verdict, why = PROVED, "the bulk copy is taken only when every byte is one that passes verbatim, and the input is valid UTF-8"
                    else:
                        verdict, why = UNDECIDED, "the bulk copy lets only verbatim bytes through; that the input is valid UTF-8 on that path is not decided"
                else:
                    why = ("input bytes can be copied to the output without the per-character safety test (is_safe_char): a control "
                           "character, quote or backslash on that path is written raw")
            s.add("S-DOM", fn, "verbatim-only-if-safe", "extend(input[..])", i["sp"], verdict, why, b)
    # the inverse arms of json_unescape
    un = ctx.fn("pocket_types::json::json_escape::json_unescape")
    ua = ctx.E.an(un)
    ctx.functions.add(un.path)
    inv = {}
    for b, info in ua.term.items():
        if info["kind"] == "switch" and info["dty"] == "u8":
            for e in ua.cfg.out_edges[b]:
                if e.label[0] != "switch":
                    continue
                cur = e.dst
                for _ in range(10):
                    wrote = None
                    for si, st in enumerate(un.blocks[cur]["stmts"]):
                        v = ua.stmt_val.get((cur, si))
                        L = ua.stmt_loc.get((cur, si))
                        if v is not None and L is not None and L[0] == "deref" and v[0] == "const" and L[1][0] == "call" and \
                                L[1][1].endswith("get_unchecked_mut"):
                            wrote = v[1]
                    if wrote is not None:
                        inv[e.label[1]] = wrote
                        break
                    outs = [o for o in ua.cfg.out_edges[cur]]
                    if len(outs) == 1:
                        cur = outs[0].dst
                    elif len(outs) == 2 and ua.term[cur]["kind"] == "switch":
                        # the length test of output_byte!: follow the branch that writes
                        nxt = [o.dst for o in outs if ua.term.get(o.dst, {}).get("kind") != "call" or True]
                        cur = outs[0].dst if _writes(ua, un, outs[0].dst) else outs[1].dst
                    else:
                        break
    want_inv = {ord("b"): 8, ord("f"): 12, ord("n"): 10, ord("r"): 13, ord("t"): 9}
    got = {k: v for k, v in inv.items() if k in want_inv}
    oki = got == want_inv
    s.add("S-TABLE", un, "unescape-inverse", "\\b\\f\\n\\r\\t", un.sp, PROVED if oki else VIOLATION,
          "the single-letter escapes decode to the bytes the escaper encodes from" if oki else
          "unescape table is not the inverse of the escape table: %s" % sorted(got.items()))


def _arm_of(an, cfg, sw, b, default=False):
    """block b lies in a (default=False: valued, default=True: otherwise) arm of the dispatch sw: some out-edge of sw of
    that kind dominates b"""
    for e in cfg.out_edges[sw]:
        if (e.label[0] == "otherwise") == default and cfg.dominates(e.node, b):
            return True
    return False


def _writes(ua, un, b):
    for _ in range(4):
        for si in range(len(un.blocks[b]["stmts"])):
            L = ua.stmt_loc.get((b, si))
            if L is not None and L[0] == "deref":
                return True
        outs = ua.cfg.out_edges[b]
        if len(outs) != 1:
            return False
        b = outs[0].dst
    return False


def writer_escapes(ctx, s, nice_name, out_local_name="output", data_preds=None):
    """S-ESCFLOW: in a JSON writer, every non-constant byte string appended to the output derives from
    json_escape / hex writing / number formatting, never directly from event or filter data"""
    fn = ctx.fn(nice_name)
    an = ctx.E.an(fn)
    ctx.functions.add(fn.path)
    n = 0
    bad = []
    flagged = False
    for b, info in an.calls():
        c = info["callee"] or ""
        if not (c.rsplit("::", 1)[-1] in ("extend", "extend_from_slice", "push", "append", "push_str", "write_all", "insert",
                                          "extend_from_within", "splice") and ("vec" in c or "string" in c or "io::" in c)):
            continue
        if len(info["args"]) < 2:
            continue
        recv = info["args"][0]
        src = info["args"][-1]
        if src[0] == "const":
            continue            # a literal byte
        srcv = info["pre"][-1] if src[0] in ("ref", "unsize") and info["pre"][-1] is not None else src
        n += 1
        if find_values(src, lambda x: x[0] == "bytes") and not _has_data(src):
            continue
        if contains_value(srcv, lambda x: x[0] == "call" and (x[1] == ESCAPE or s.nice(x[1]) == ESCAPE)) or \
                contains_value(src, lambda x: x[0] == "call" and (x[1] == ESCAPE or s.nice(x[1]) == ESCAPE)):
            continue
        allv = deep_values(an, srcv) + deep_values(an, src)
        if any(contains_value(x, lambda y: y[0] == "call" and y[1].rsplit("::", 1)[-1] in ("format", "as_json", "to_string")) for x in allv):
            continue
        if any(contains_value(x, lambda y: y[0] == "call" and (y[1] == ESCAPE or s.nice(y[1]) == ESCAPE)) for x in allv):
            continue
        # the escaper's own body spliced into the writer (an escaping helper the rules do not know by name): its verbatim copy
        # is taken only under is_safe_char, its other appends are constants or formatted escapes (judged by the escaper's rules
        # when it is a function of its own; here: not decided unless it is the guarded verbatim copy)
        fs_here = ctx.E.facts(fn, b)
        if any(f[0] == "true" and isinstance(f[1], tuple) and f[1][0] == "call" and f[1][1].endswith("::is_safe_char") for f in fs_here):
            continue
        # anything else that is appended to the JSON text is raw data - unless a scan of its bytes found only bytes that
        # json_escape would copy unchanged
        g = bulk_scan_guard(ctx, s, fn, b)
        if g == "?":
            s.add("S-ESCFLOW", fn, "raw-data-in-json", s.show(info["args"][-1], fn)[:60], info["sp"], UNDECIDED,
                  "data is appended without json_escape under a scan of its bytes whose predicate could not be evaluated: not decided", b)
            continue
        if g is not None:
            unsafe = sorted(c for c in g if c < 0x20 or c in (0x22, 0x5C))
            if not unsafe:
                continue
            s.add("S-ESCFLOW", fn, "raw-data-in-json", s.show(info["args"][-1], fn)[:60], info["sp"], VIOLATION,
                  "data is appended to the JSON text without json_escape when a scan of its bytes lets %s through: those need an "
                  "escape, so the text written is not the JSON of the value (it reads back differently, or not at all)"
                  % ", ".join("0x%02x" % c for c in unsafe[:8]), b)
            flagged = True
            continue
        # positive evidence that the bytes are event/filter data (a tag string, the content, an iterator item over them);
        # a local buffer filled by some other call (hex digits, a formatted number) is not judged here
        core = src
        while core[0] in ("ref", "byref", "unsize") and isinstance(core[1], tuple):
            core = core[1]
        local_buffer = core[0] == "local" or (core[0] in ("slice", "slicefrom", "sliceto") and core[1][0] == "local")
        if any(_has_data(x) for x in allv) or _has_data(src) or _has_data(srcv) or not local_buffer:
            bad.append((b, info))
        else:
            s.add("S-ESCFLOW", fn, "raw-data-in-json", s.show(info["args"][-1], fn)[:60], info["sp"], UNDECIDED,
                  "what is appended here was not recognised as constant text, escaped data or a formatted value: not decided", b)
            flagged = True
    for b, info in bad:
        s.add("S-ESCFLOW", fn, "raw-data-in-json", s.show(info["args"][-1], fn)[:60], info["sp"], VIOLATION,
              "event/filter data is appended to JSON output without passing through json_escape", b)
    if not bad and not flagged:
        s.add("S-ESCFLOW", fn, "data-escaped", nice_name.split("::")[-1], fn.sp, PROVED,
              "%d appends examined: data strings reach the output only through json_escape" % n)
    ctx.instances["S-ESCFLOW.%s appends" % nice_name.split("::")[-1]] = n
    return n


def bulk_scan_guard(ctx, s, fn, b, src=None):
    """a copy guarded by a scan of the bytes (`!x.iter().any(pred)` / `x.iter().all(pred)`): the byte values the scan lets
    through, by evaluating pred for all 256 values; None when no such guard holds at block b, "?" when it cannot be evaluated"""
    from ..srules import eval_fn_scalar
    is_b = lambda y: y in (("param", 2), ("deref", ("param", 2)), ("init", ("deref", ("param", 2))),
                           ("deref", ("deref", ("param", 2))), ("init", ("deref", ("deref", ("param", 2)))))

    def closure_set(args, want):
        cl = [a for a in args if a[0] == "agg" and isinstance(a[1], str) and a[1].startswith("closure:")]
        cf = ctx.F.fns.get(cl[0][1][len("closure:"):]) if cl else None
        if cf is None:
            return "?"
        allowed = set()
        for c in range(256):
            r = eval_fn_scalar(s, cf, is_b, c)
            if r is None or isinstance(r, tuple):
                return "?"
            if bool(r) == want:
                allowed.add(c)
        return allowed
    if src is not None:
        # x[..n] with n = x.iter().take_while(pred).count(): every byte of the piece satisfies pred
        v = src
        while v[0] in ("ref", "byref", "unsize") and isinstance(v[1], tuple):
            v = v[1]
        hi = v[3] if v[0] == "slice" else (v[2] if v[0] == "sliceto" else None)
        if hi is not None:
            cnt = find_values(hi, lambda y: y[0] == "call" and y[1].rsplit("::", 1)[-1] == "count" and y[2] and
                              y[2][0][0] == "call" and y[2][0][1].rsplit("::", 1)[-1] == "take_while")
            if cnt:
                return closure_set(cnt[0][2][0][2], True)
    excluded = set()
    for f in ctx.E.facts(fn, b):
        t = f[1] if len(f) > 1 else None
        if not (isinstance(t, tuple) and t and t[0] == "call" and f[0] in ("true", "false")):
            continue
        seg = t[1].rsplit("::", 1)[-1]
        if seg == "contains" and f[0] == "false" and len(t[2]) == 2 and "slice" in t[1]:
            if src is not None:
                from ..sym import strip_sites
                unw = lambda y: unw(y[1]) if (y[0] in ("ref", "byref", "unsize") and isinstance(y[1], tuple)) else y
                if strip_sites(unw(t[2][0])) != strip_sites(unw(src)):
                    continue            # a scan of some other piece
            k = t[2][1]
            while k[0] in ("ref", "byref") and isinstance(k[1], tuple):
                k = k[1]
            if k[0] == "promoted":
                k = ctx.E.an(fn).promoted_pointee(k) or k
            if k[0] == "const":
                excluded.add(k[1])
            continue
        if seg not in ("any", "all") or (seg, f[0]) not in (("any", "false"), ("all", "true")):
            continue
        return closure_set(t[2], seg == "all")
    if excluded:
        return set(range(256)) - excluded
    return None


def _has_data(v):
    if not isinstance(v, tuple):
        return False
    return contains_value(v, lambda x: x[0] == "call" and x[1].startswith("pocket_types::tags::") and x[1].rsplit("::", 1)[-1] in ("next", "get_string", "get_value")) or \
        contains_value(v, lambda x: x[0] == "call" and x[1].endswith("::content")) or \
        contains_value(v, lambda x: x[0] in ("slice", "slicefrom", "sliceto", "elem") and
                       contains_value(x[1], lambda y: y == ("param", 1)))


UNESCAPE = "pocket_types::json::json_escape::json_unescape"


def unescape_writes(ctx, s):
    """S-ENCODE: what json_unescape writes to its output is, at every write, one of: a constant byte (the single-letter
    escapes), bytes of the input copied verbatim, or the UTF-8 encoding of a \\u code point produced by encode_utf8.
    A computed value stored as a single byte is correct only below 0x80."""
    from ..prove import lin_add, lin_const
    un = ctx.fn(UNESCAPE)
    ua = ctx.E.an(un)
    P = ctx.E.prover(un)
    ctx.functions.add(un.path)
    out = ("param", 2)
    inp = ("param", 1)
    n = 0
    for (b, si), L in sorted(ua.stmt_loc.items()):
        if L is None or L[0] != "deref" or not contains_value(L, lambda y: y == out):
            continue
        v = ua.stmt_val.get((b, si))
        if v is None:
            continue
        n += 1
        sp = un.blocks[b]["stmts"][si].get("sp") or un.sp
        if v[0] == "const":
            continue
        core = v
        while core[0] == "cast":
            core = core[-1]
        if core[0] in ("index", "aload", "load") and contains_value(core, lambda y: y == inp) and not contains_value(core, lambda y: y[0] == "bin"):
            continue                # one input byte copied verbatim
        facts = ctx.E.facts(un, b)
        lc = P.lin(core)
        hi = (1 << 32) - 1
        for K in (0x7F, 0xFF, 0x7FF, 0xFFFF, 0x10FFFF):
            if P.prove_le0(lin_add(lc, lin_const(-K)), facts):
                hi = K
                break
        if hi <= 0x7F:
            s.add("S-ENCODE", un, "byte-store-below-0x80", s.show(core, un)[:40], sp, PROVED,
                  "a computed value is stored as one byte only when it is below 0x80 (where UTF-8 is the identity)", b)
        elif hi < (1 << 32) - 1:
            s.add("S-ENCODE", un, "code-point-stored-as-byte", s.show(core, un)[:40], sp, VIOLATION,
                  "a computed code point up to %#x is stored as a single raw byte: for 0x80 and above that is not its UTF-8 encoding "
                  "(invalid UTF-8 reaches the binary event)" % hi, b)
        else:
            s.add("S-ENCODE", un, "code-point-stored-as-byte", s.show(core, un)[:40], sp, UNDECIDED,
                  "a computed value is stored as one byte; its range is not bounded here (the narrowing rule judges the cast)", b)
    copies = 0
    for b, i in ua.calls():
        c = i["callee"] or ""
        if c.endswith("copy_from_slice") and contains_value(i["args"][0], lambda y: y == out):
            copies += 1
            src = i["args"][1]
            ok = src[0] == "slice" and src[1] == inp
            s.add("S-ENCODE", un, "copy-source-is-input", s.show(src, un)[:40], i["sp"], PROVED if ok else VIOLATION,
                  "bytes copied to the output are a slice of the input" if ok else "bytes copied to the output are not a slice of the input", b)
    enc = [(b, i) for b, i in ua.calls() if (i["callee"] or "").endswith("::encode_utf8")]
    ctx.floor("S-ENCODE.encode_utf8 sites", len(enc), 1)
    ctx.instances["S-ENCODE.byte stores"] = n
    ctx.instances["S-ENCODE.copies"] = copies


def utf8_width_table(ctx, s):
    """S-TABLE: encode_utf8 writes 1 byte below 0x80, 2 below 0x800, 3 below 0x10000, 4 above - decided by evaluating its
    branch conditions at each boundary code point (the length it returns on its Ok paths)"""
    from ..srules import eval_fn_scalar_all
    fn = ctx.fn("pocket_types::json::utf8::encode_utf8")
    ctx.functions.add(fn.path)
    want = {0x00: 1, 0x7F: 1, 0x80: 2, 0x7FF: 2, 0x800: 3, 0xFFFF: 3, 0x10000: 4, 0x10FFFF: 4}
    bad = []
    unknown = []
    for cp, n in sorted(want.items()):
        rs = eval_fn_scalar_all(s, fn, lambda y: y == ("param", 1), cp)
        oks = {r[1] for r in rs if isinstance(r, tuple) and r[0] == "Ok"}
        if None in rs or not oks:
            unknown.append(cp)
        elif oks != {n}:
            bad.append((cp, sorted(oks), n))
    if bad:
        s.add("S-TABLE", fn, "utf8-width-boundaries", "0x80/0x800/0x10000", fn.sp, VIOLATION,
              "encode_utf8 writes %s bytes for U+%04X (UTF-8 needs %d): an escape of that code point decodes to a different string"
              % ("/".join(map(str, bad[0][1])), bad[0][0], bad[0][2]))
    elif unknown:
        s.add("S-TABLE", fn, "utf8-width-boundaries", "0x80/0x800/0x10000", fn.sp, UNDECIDED,
              "the encoded length could not be evaluated for %s" % ", ".join("U+%04X" % c for c in unknown[:4]))
    else:
        s.add("S-TABLE", fn, "utf8-width-boundaries", "0x80/0x800/0x10000", fn.sp, PROVED,
              "1 byte below 0x80, 2 below 0x800, 3 below 0x10000, 4 above (evaluated at the 8 boundary code points)")


def _range_of(an, v):
    """(lo, hi inclusive) of a range value built from constants (through references and promoted constants)"""
    if not isinstance(v, tuple) or not v:
        return None
    if v[0] == "promoted":
        v = an.promoted_pointee(v) or v
    if v[0] in ("ref", "byref"):
        return _range_of(an, v[1]) if isinstance(v[1], tuple) else None
    if v[0] == "init" and v[1][0] == "deref":
        return _range_of(an, v[1][1])
    if v[0] == "agg" and isinstance(v[1], str) and v[1].endswith(":Range") and len(v[2]) == 2 and all(x[0] == "const" for x in v[2]):
        return (v[2][0][1], v[2][1][1] - 1)
    if v[0] == "agg" and "RangeInclusive" in str(v[1]) and len(v[2]) >= 2 and v[2][0][0] == "const" and v[2][1][0] == "const":
        return (v[2][0][1], v[2][1][1])
    if v[0] == "call" and "range" in v[1] and v[1].endswith("::new") and len(v[2]) == 2 and all(x[0] == "const" for x in v[2]):
        return (v[2][0][1], v[2][1][1])
    return None


def surrogates_refused(ctx, s):
    """S-DOM: json_unescape hands a \\u value to encode_utf8 only after it has been tested to lie outside D800..DFFF.  A
    lone surrogate has no UTF-8 encoding: writing its three-byte form stores bytes that are not UTF-8, and a pair spelled as
    two escapes would be stored as two such forms instead of the one scalar it denotes - the stored string then differs from
    what any JSON reader reports."""
    un = ctx.fn("pocket_types::json::json_escape::json_unescape")
    ua = ctx.E.an(un)
    P = ctx.E.prover(un)
    ctx.functions.add(un.path)
    enc = [(b, i) for b, i in ua.calls() if (i["callee"] or "").endswith("::encode_utf8")]
    for b, i in enc:
        c = i["args"][0]
        facts = ctx.E.facts(un, b)
        strip = lambda y: strip(y[1]) if (isinstance(y, tuple) and y and y[0] in ("byref", "ref") and isinstance(y[1], tuple)) else y
        excluded = False
        mentioned = False
        for f in facts:
            t = f[1] if len(f) > 1 else None
            if not (isinstance(t, tuple) and t):
                continue
            if t[0] == "call" and t[1].rsplit("::", 1)[-1] == "contains" and len(t[2]) == 2 and strip(t[2][1]) == c:
                r = _range_of(ua, t[2][0])
                mentioned = True
                if f[0] == "false" and r is not None and r[0] <= 0xD800 and r[1] >= 0xDFFF:
                    excluded = True
            elif contains_value(t, lambda y: y == c):
                mentioned = True
        if not excluded:
            try:
                if P.prove_lt(c, ("const", 0xD800, "u32"), facts) or P.prove_lt(("const", 0xDFFF, "u32"), c, facts):
                    excluded = True
            except Exception:
                pass
        if not excluded and c[0] == "const":
            excluded = not (0xD800 <= c[1] <= 0xDFFF)
        if not excluded and not mentioned:
            # a test of this value anywhere (a disjunction whose arms merge before the call leaves no single dominating fact)
            mentioned = bool(s.edges_where(un, lambda f: len(f) > 1 and isinstance(f[1], tuple) and
                                           contains_value(f[1], lambda y: y == c) and
                                           not (f[0] in ("variant", "notvariant"))))
        verdict = PROVED if excluded else (UNDECIDED if mentioned else VIOLATION)
        s.add("S-DOM", un, "surrogate-refused-before-encode", s.show(c, un)[:50], i["sp"], verdict,
              "the value encoded was tested to lie outside D800..DFFF" if excluded else
              ("the value encoded is tested, but not in a form that excludes D800..DFFF: not decided" if mentioned else
               "a \\u value reaches encode_utf8 without any test against the surrogate range D800..DFFF: a surrogate escape is "
               "accepted and stored as bytes that are not UTF-8 (and an escaped pair as two of them instead of one scalar)"), b)


def raw_input_copies(ctx, s, names):
    """S-ESCFLOW (reading): string bytes go from the JSON text into the packed form only through json_unescape.  A piece of
    the input copied across as it stands is the string's value only if it holds nothing json_unescape would have changed or
    refused: no backslash (an escape), no quote, no control character.  The scan that guards such a copy is evaluated for all
    256 byte values."""
    for name in names:
        fn = ctx.fn(name)
        an = ctx.E.an(fn)
        ctx.functions.add(fn.path)
        inp = None
        for i in range(1, fn.argc + 1):
            if fn.local_name(i) == "input":
                inp = ("param", i)
        if inp is None:
            continue

        def of_input(v):
            while v[0] in ("ref", "byref", "unsize") and isinstance(v[1], tuple):
                v = v[1]
            if v[0] in ("slice", "slicefrom", "sliceto"):
                return v[1] == inp or of_input(v[1])
            return False
        n = 0
        for b, info in an.calls():
            callee = info["callee"] or ""
            last = (info["base"] or callee).rsplit("::", 1)[-1]
            if not (s.nice(callee) == "pocket_types::json::put" or last in ("copy_from_slice", "clone_from_slice", "extend_from_slice")):
                continue
            src = info["args"][-1]
            srcs = [src] + [p for p in info["pre"][-1:] if p is not None]
            hit = [x for x in srcs if of_input(x)]
            if not hit:
                continue
            n += 1
            g = bulk_scan_guard(ctx, s, fn, b, hit[0])
            if g == "?":
                verdict, why = UNDECIDED, "a piece of the input is copied without json_unescape under a scan whose predicate could not be evaluated: not decided"
            elif g is None:
                core = hit[0]
                while core[0] in ("ref", "byref", "unsize") and isinstance(core[1], tuple):
                    core = core[1]
                bounds = [x for x in core[2:] if isinstance(x, tuple)]
                scanned = any(contains_value(x, lambda y: y[0] in ("phi", "call", "proj")) for x in bounds)
                if scanned:
                    # the extent of the piece was computed by code that looked at the bytes (a loop, a search): how far it
                    # lets them through is not read off here
                    verdict, why = UNDECIDED, ("a piece of the input is copied without json_unescape; its extent comes from a scan "
                                               "whose predicate was not recognised: not decided")
                else:
                    verdict, why = VIOLATION, ("a piece of the JSON text is copied into the packed form as it stands, without "
                                               "json_unescape and without a scan of its bytes: an escape in it is stored undecoded")
            else:
                unsafe = sorted(c for c in g if c < 0x20 or c in (0x22, 0x5C))
                if unsafe:
                    verdict, why = VIOLATION, ("a piece of the JSON text is copied into the packed form without json_unescape when a scan "
                                               "of it lets %s through: an escape sequence (or a byte a JSON string may not hold) is stored "
                                               "as it stands, so the value differs from what a JSON reader reports"
                                               % ", ".join("0x%02x" % c for c in unsafe[:8]))
                elif any(c >= 0x80 for c in g):
                    verdict, why = UNDECIDED, "the copy lets bytes above 0x7F through; that they form valid UTF-8 is not decided"
                else:
                    verdict, why = PROVED, "the piece copied holds only ASCII bytes json_unescape would copy unchanged"
            s.add("S-ESCFLOW", fn, "raw-input-copy", s.show(hit[0], fn)[:50], info["sp"], verdict, why, b)
        ctx.instances["S-ESCFLOW.%s raw input copies" % name.rsplit("::", 1)[-1]] = n
