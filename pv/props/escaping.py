"""Escaping rules shared by C02, C07, C08: the escape table (S-TABLE) and the rule that data strings
reach a JSON writer's output only through json_escape (S-ESCFLOW)."""
from ..srules import S, find_values, contains_value, unbyref, deep_values
from ..guard import PROVED, VIOLATION, UNDECIDED

ESCAPE = "pocket_types::json::json_escape::json_escape"
NIP01_TABLE = {0x08: b"\\b", 0x09: b"\\t", 0x0A: b"\\n", 0x0C: b"\\f", 0x0D: b"\\r", 0x22: b'\\"', 0x5C: b"\\\\"}
SAFE_RANGES = [(0x20, 0x21), (0x23, 0x5B), (0x5D, 0x10FFFF)]


def escape_table(ctx, s):
    fn = ctx.fn(ESCAPE)
    an = ctx.E.an(fn)
    cfg = an.cfg
    ctx.functions.add(fn.path)
    # the dispatch on the code point: the switch with the most valued arms on a u32
    sw = None
    best = 0
    for b, info in an.term.items():
        if info["kind"] == "switch" and info["dty"] == "u32":
            ec = [e for e in cfg.out_edges[b] if e.label[0] == "switch"]
            if len(ec) >= 5 and len(ec) > best:
                sw, best = b, len(ec)
    from ..main import AnalysisError
    if sw is None:
        raise AnalysisError("escape dispatch not found in json_escape")
    cp = an.term[sw]["discr"]
    ext = [(b, i) for b, i in an.calls() if (i["callee"] or "").endswith("::extend")]
    ext_blocks = {b for b, i in ext}
    rets = {b for b, i in an.term.items() if i["kind"] == "return"}

    def appended(b, path):
        """constant bytes appended by the extend call in block b when reached along path (None: not a constant)"""
        i = an.term[b]
        for v in (i["args"][1], i["pre"][1] if len(i["pre"]) > 1 else None):
            if v is None:
                continue
            v = s.value_on_path(fn, path, v)
            allv = deep_values(an, v)
            if any(contains_value(x, lambda y: y[0] == "call" and y[1].rsplit("::", 1)[-1] in ("format", "must_use")) for x in allv):
                return "fmt"
            bs = find_values(v, lambda x: x[0] == "bytes")
            if bs and not contains_value(v, lambda x: x[0] == "phi"):
                return bs[0][1]
        return None
    # value -> what the first append on every feasible path from that arm writes
    table = {}
    bad_arms = []
    table_blocks = set()
    for e in cfg.out_edges[sw]:
        if e.label[0] != "switch":
            continue
        paths, other = s.paths_to_first(fn, e.node, ext_blocks | rets)
        outs = set()
        for pth in paths:
            last = pth[-1]
            if last in ext_blocks:
                outs.add(appended(last, pth))
                table_blocks.add(last)
            else:
                outs.add("return")
        if len(outs) == 1 and isinstance(next(iter(outs)), bytes):
            table[e.label[1]] = next(iter(outs))
        else:
            bad_arms.append((e.label[1], sorted(map(repr, outs))))
    ok = table == NIP01_TABLE and not bad_arms
    s.add("S-TABLE", fn, "escape-table", "NIP-01", fn.blocks[sw]["term"]["sp"], PROVED if ok else VIOLATION,
          "the seven NIP-01 escapes \\b \\t \\n \\f \\r \\\" \\\\ and nothing else are emitted as two-character escapes" if ok else
          "escape table differs from NIP-01: got %s%s" % (sorted((hex(k), v) for k, v in table.items()),
                                                          (" and arms without a single constant escape: %s" % bad_arms) if bad_arms else ""), sw)
    # the default arm: what it can append first
    default_first = set()
    for e in cfg.out_edges[sw]:
        if e.label[0] != "otherwise":
            continue
        paths, other = s.paths_to_first(fn, e.node, ext_blocks | rets)
        for pth in paths:
            if pth[-1] in ext_blocks:
                default_first.add((pth[-1], appended(pth[-1], pth)))
    # \\u00XX: lower-case hex, 4 digits
    fmt = [(b, i) for b, i in an.calls() if (i["callee"] or "").endswith("new_lower_hex")]
    tmpl = [(b, i) for b, i in an.calls() if (i["callee"] or "") == "core::fmt::{impl#4}::new" or (i["callee"] or "").endswith("Arguments::new")]
    okf = bool(fmt)
    lit = b""
    for b, i in tmpl:
        bs = find_values(i["args"][0], lambda x: x[0] == "bytes")
        if bs:
            lit = bs[0][1]
    okf = okf and lit.startswith(b"\x02\\u")
    s.add("S-TABLE", fn, "control-escape", "\\u00xx", fn.sp, PROVED if okf else VIOLATION,
          "remaining control characters are written as \\u + lower-case hex" if okf else "the fallback escape is not \\u + lower-case hex")
    # every append of the escaper is one of: the verbatim copy, a table escape (reached from a valued arm only), the
    # \\u fallback (reached from the default arm only, under a proved code point <= 0x20)
    from ..prove import lin_add, lin_const
    P = ctx.E.prover(fn)
    arms = 0
    for b, i in ext:
        src = i["args"][1]
        if src[0] == "slice":
            continue
        from_default = {x for x in default_first if x[0] == b}
        kinds = {x[1] for x in from_default}
        is_fmt = appended(b, []) == "fmt" or "fmt" in kinds
        if not is_fmt:
            arms += 1
            # a constant escape: must be a table append, and the default arm must not get there with a constant
            leak = [x for x in from_default if isinstance(x[1], bytes)]
            if b not in table_blocks or leak:
                s.add("S-TABLE", fn, "escape-outside-table", "extend", i["sp"], VIOLATION,
                      "a constant escape sequence is appended for a code point outside the seven of the NIP-01 table", b)
            continue
        g = lin_add(P.lin(cp), lin_const(-0x20))        # cp - 0x20 <= 0
        okc = P.prove_le0(g, ctx.E.facts(fn, b)) and b not in table_blocks
        s.add("S-TABLE", fn, "fallback-only-for-controls", "\\u00xx", i["sp"], PROVED if okc else VIOLATION,
              "the \\u form is produced only outside the seven table code points and only for code points <= 0x20" if okc else
              "a \\u escape (or other non-table output) can be produced for a character that NIP-01 requires verbatim or as a "
              "two-character escape", b)
    ctx.instances["C08.table-arm appends"] = arms
    # safe ranges
    sf = ctx.fn("pocket_types::json::json_escape::is_safe_char")
    sa = ctx.E.an(sf)
    ctx.functions.add(sf.path)
    rs = []
    for b, i in sa.calls():
        if (i["callee"] or "").endswith("::new") and "range" in i["callee"] and len(i["args"]) == 2:
            a, c = i["args"]
            if a[0] == "const" and c[0] == "const":
                rs.append((a[1], c[1]))
    okr = sorted(rs) == SAFE_RANGES
    s.add("S-TABLE", sf, "verbatim-ranges", "0x20-0x21,0x23-0x5B,0x5D-0x10FFFF", sf.sp, PROVED if okr else VIOLATION,
          "exactly the scalar values other than controls, quote and backslash pass verbatim" if okr else
          "the verbatim ranges are %s" % sorted((hex(a), hex(b)) for a, b in rs))
    # verbatim copy and escapes are mutually exclusive: the copy is under is_safe_char == true
    for b, i in an.calls():
        if (i["callee"] or "").endswith("::extend") and i["args"][1][0] == "slice":
            ok = any(f[0] == "true" and f[1][0] == "call" and f[1][1].endswith("::is_safe_char") for f in ctx.E.facts(fn, b))
            s.add("S-DOM", fn, "verbatim-only-if-safe", "extend(input[..])", i["sp"], PROVED if ok else VIOLATION,
                  "input bytes are copied verbatim only under is_safe_char" if ok else "input bytes can be copied verbatim without the safety test", b)
    # the inverse arms of json_unescape
    un = ctx.fn("pocket_types::json::json_escape::json_unescape")
    ua = ctx.E.an(un)
    ctx.functions.add(un.path)
    inv = {}
    for b, info in ua.term.items():
        if info["kind"] == "switch" and info["dty"] == "u8":
            for e in ua.cfg.out_edges[b]:
                if e.label[0] != "switch":
                    continue
                cur = e.dst
                for _ in range(10):
                    wrote = None
                    for si, st in enumerate(un.blocks[cur]["stmts"]):
                        v = ua.stmt_val.get((cur, si))
                        L = ua.stmt_loc.get((cur, si))
                        if v is not None and L is not None and L[0] == "deref" and v[0] == "const" and L[1][0] == "call" and \
                                L[1][1].endswith("get_unchecked_mut"):
                            wrote = v[1]
                    if wrote is not None:
                        inv[e.label[1]] = wrote
                        break
                    outs = [o for o in ua.cfg.out_edges[cur]]
                    if len(outs) == 1:
                        cur = outs[0].dst
                    elif len(outs) == 2 and ua.term[cur]["kind"] == "switch":
                        # the length test of output_byte!: follow the branch that writes
                        nxt = [o.dst for o in outs if ua.term.get(o.dst, {}).get("kind") != "call" or True]
                        cur = outs[0].dst if _writes(ua, un, outs[0].dst) else outs[1].dst
                    else:
                        break
    want_inv = {ord("b"): 8, ord("f"): 12, ord("n"): 10, ord("r"): 13, ord("t"): 9}
    got = {k: v for k, v in inv.items() if k in want_inv}
    oki = got == want_inv
    s.add("S-TABLE", un, "unescape-inverse", "\\b\\f\\n\\r\\t", un.sp, PROVED if oki else VIOLATION,
          "the single-letter escapes decode to the bytes the escaper encodes from" if oki else
          "unescape table is not the inverse of the escape table: %s" % sorted(got.items()))


def _arm_of(an, cfg, sw, b, default=False):
    """block b lies in a (default=False: valued, default=True: otherwise) arm of the dispatch sw: some out-edge of sw of
    that kind dominates b"""
    for e in cfg.out_edges[sw]:
        if (e.label[0] == "otherwise") == default and cfg.dominates(e.node, b):
            return True
    return False


def _writes(ua, un, b):
    for _ in range(4):
        for si in range(len(un.blocks[b]["stmts"])):
            L = ua.stmt_loc.get((b, si))
            if L is not None and L[0] == "deref":
                return True
        outs = ua.cfg.out_edges[b]
        if len(outs) != 1:
            return False
        b = outs[0].dst
    return False


def writer_escapes(ctx, s, nice_name, out_local_name="output", data_preds=None):
    """S-ESCFLOW: in a JSON writer, every non-constant byte string appended to the output derives from
    json_escape / hex writing / number formatting, never directly from event or filter data"""
    fn = ctx.fn(nice_name)
    an = ctx.E.an(fn)
    ctx.functions.add(fn.path)
    n = 0
    bad = []
    for b, info in an.calls():
        c = info["callee"] or ""
        if not (c.endswith("::extend") and "vec" in c):
            continue
        recv = info["args"][0]
        src = info["args"][1]
        srcv = info["pre"][1] if src[0] in ("ref", "unsize") and info["pre"][1] is not None else src
        n += 1
        if find_values(src, lambda x: x[0] == "bytes") and not _has_data(src):
            continue
        if contains_value(srcv, lambda x: x[0] == "call" and (x[1] == ESCAPE or s.nice(x[1]) == ESCAPE)) or \
                contains_value(src, lambda x: x[0] == "call" and (x[1] == ESCAPE or s.nice(x[1]) == ESCAPE)):
            continue
        allv = deep_values(an, srcv) + deep_values(an, src)
        if any(contains_value(x, lambda y: y[0] == "call" and y[1].rsplit("::", 1)[-1] in ("format", "as_json", "to_string")) for x in allv):
            continue
        if any(contains_value(x, lambda y: y[0] == "call" and (y[1] == ESCAPE or s.nice(y[1]) == ESCAPE)) for x in allv):
            continue
        # anything else that is appended to the JSON text is raw data
        bad.append((b, info))
    for b, info in bad:
        s.add("S-ESCFLOW", fn, "raw-data-in-json", s.show(info["args"][1], fn)[:60], info["sp"], VIOLATION,
              "event/filter data is appended to JSON output without passing through json_escape", b)
    if not bad:
        s.add("S-ESCFLOW", fn, "data-escaped", nice_name.split("::")[-1], fn.sp, PROVED,
              "%d appends examined: data strings reach the output only through json_escape" % n)
    ctx.instances["S-ESCFLOW.%s appends" % nice_name.split("::")[-1]] = n
    return n


def _has_data(v):
    return contains_value(v, lambda x: x[0] == "call" and x[1].startswith("pocket_types::tags::") and x[1].rsplit("::", 1)[-1] in ("next", "get_string", "get_value")) or \
        contains_value(v, lambda x: x[0] == "call" and x[1].endswith("::content"))


UNESCAPE = "pocket_types::json::json_escape::json_unescape"


def unescape_writes(ctx, s):
    """S-ENCODE: what json_unescape writes to its output is, at every write, one of: a constant byte (the single-letter
    escapes), bytes of the input copied verbatim, or the UTF-8 encoding of a \\u code point produced by encode_utf8.
    A computed value stored as a single byte is correct only below 0x80."""
    from ..prove import lin_add, lin_const
    un = ctx.fn(UNESCAPE)
    ua = ctx.E.an(un)
    P = ctx.E.prover(un)
    ctx.functions.add(un.path)
    out = ("param", 2)
    inp = ("param", 1)
    n = 0
    for (b, si), L in sorted(ua.stmt_loc.items()):
        if L is None or L[0] != "deref" or not contains_value(L, lambda y: y == out):
            continue
        v = ua.stmt_val.get((b, si))
        if v is None:
            continue
        n += 1
        sp = un.blocks[b]["stmts"][si].get("sp") or un.sp
        if v[0] == "const":
            continue
        core = v
        while core[0] == "cast":
            core = core[-1]
        if core[0] in ("index", "aload", "load") and contains_value(core, lambda y: y == inp) and not contains_value(core, lambda y: y[0] == "bin"):
            continue                # one input byte copied verbatim
        facts = ctx.E.facts(un, b)
        lc = P.lin(core)
        hi = (1 << 32) - 1
        for K in (0x7F, 0xFF, 0x7FF, 0xFFFF, 0x10FFFF):
            if P.prove_le0(lin_add(lc, lin_const(-K)), facts):
                hi = K
                break
        if hi <= 0x7F:
            s.add("S-ENCODE", un, "byte-store-below-0x80", s.show(core, un)[:40], sp, PROVED,
                  "a computed value is stored as one byte only when it is below 0x80 (where UTF-8 is the identity)", b)
        elif hi < (1 << 32) - 1:
            s.add("S-ENCODE", un, "code-point-stored-as-byte", s.show(core, un)[:40], sp, VIOLATION,
                  "a computed code point up to %#x is stored as a single raw byte: for 0x80 and above that is not its UTF-8 encoding "
                  "(invalid UTF-8 reaches the binary event)" % hi, b)
        else:
            s.add("S-ENCODE", un, "code-point-stored-as-byte", s.show(core, un)[:40], sp, UNDECIDED,
                  "a computed value is stored as one byte; its range is not bounded here (the narrowing rule judges the cast)", b)
    copies = 0
    for b, i in ua.calls():
        c = i["callee"] or ""
        if c.endswith("copy_from_slice") and contains_value(i["args"][0], lambda y: y == out):
            copies += 1
            src = i["args"][1]
            ok = src[0] == "slice" and src[1] == inp
            s.add("S-ENCODE", un, "copy-source-is-input", s.show(src, un)[:40], i["sp"], PROVED if ok else VIOLATION,
                  "bytes copied to the output are a slice of the input" if ok else "bytes copied to the output are not a slice of the input", b)
    enc = [(b, i) for b, i in ua.calls() if (i["callee"] or "").endswith("::encode_utf8")]
    ctx.floor("S-ENCODE.encode_utf8 sites", len(enc), 1)
    ctx.instances["S-ENCODE.byte stores"] = n
    ctx.instances["S-ENCODE.copies"] = copies


def utf8_width_table(ctx, s):
    """S-TABLE: encode_utf8 writes 1 byte below 0x80, 2 below 0x800, 3 below 0x10000, 4 above - decided by evaluating its
    branch conditions at each boundary code point (the length it returns on its Ok paths)"""
    from ..srules import eval_fn_scalar_all
    fn = ctx.fn("pocket_types::json::utf8::encode_utf8")
    ctx.functions.add(fn.path)
    want = {0x00: 1, 0x7F: 1, 0x80: 2, 0x7FF: 2, 0x800: 3, 0xFFFF: 3, 0x10000: 4, 0x10FFFF: 4}
    bad = []
    unknown = []
    for cp, n in sorted(want.items()):
        rs = eval_fn_scalar_all(s, fn, lambda y: y == ("param", 1), cp)
        oks = {r[1] for r in rs if isinstance(r, tuple) and r[0] == "Ok"}
        if None in rs or not oks:
            unknown.append(cp)
        elif oks != {n}:
            bad.append((cp, sorted(oks), n))
    if bad:
        s.add("S-TABLE", fn, "utf8-width-boundaries", "0x80/0x800/0x10000", fn.sp, VIOLATION,
              "encode_utf8 writes %s bytes for U+%04X (UTF-8 needs %d): an escape of that code point decodes to a different string"
              % ("/".join(map(str, bad[0][1])), bad[0][0], bad[0][2]))
    elif unknown:
        s.add("S-TABLE", fn, "utf8-width-boundaries", "0x80/0x800/0x10000", fn.sp, UNDECIDED,
              "the encoded length could not be evaluated for %s" % ", ".join("U+%04X" % c for c in unknown[:4]))
    else:
        s.add("S-TABLE", fn, "utf8-width-boundaries", "0x80/0x800/0x10000", fn.sp, PROVED,
              "1 byte below 0x80, 2 below 0x800, 3 below 0x10000, 4 above (evaluated at the 8 boundary code points)")
