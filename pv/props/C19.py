"""C19 - constructors yield faithful well-formed values or an error, never truncation."""
from ..srules import S
from ..guard import PROVED, VIOLATION, UNDECIDED
from .common import g_obligations, roots, scope_of
from . import layout

EXPLANATION = (
    "Decides, over every constructor of events, tags and filters (from_parts, the owned constructors, sign_new, "
    "the three JSON parsers) and their closure: no length, count or offset is narrowed into a u16/u32 layout field "
    "without a dominating range check or a refusing conversion (the truncated value would otherwise reach a byte "
    "encoding, a store or the result); every constant-range or guard-derivable write into the caller's output buffer "
    "is dominated by a length test that returns an error, never a panic; copy_from_slice lengths agree where "
    "derivable. Writes at loop-carried positions inside Tags::from_parts / Filter::from_parts rely on the size "
    "function matching the writer (a relational invariant over two loops) and are reported UNDECIDED, never alarmed "
    "on. That accessors reproduce the parts is not decided.")
EXPLANATION += " Also decided: no raw fixed-width arithmetic on a length, count or offset in these constructors can wrap."
EXPLANATION += " Also decided: every byte of the fixed headers (Event 0..144, Filter 0..32, Tags 0..4) is written on every success path of every constructor and parser."
EXPLANATION += ' Also decided: every public function of the crate returning an owned packed value is held to the same rules as the listed constructors; a length test that compares the same quantities as an open slice bound with a smaller constant is a violation.'
EXPLANATION += ' Also decided: the tag offset table filled by the reading pass stays inside what the counting pass sized, and Ok needs read == counted.'
ASSUMPTIONS = ["A1: usize size arithmetic does not overflow"]

ENTRY = [
    "pocket_types::Tags::from_parts", "pocket_types::OwnedTags::new", "pocket_types::Event::from_parts",
    "pocket_types::OwnedEvent::new", "pocket_types::OwnedEvent::sign_new", "pocket_types::Filter::from_parts",
    "pocket_types::OwnedFilter::new", "pocket_types::Event::from_json", "pocket_types::Filter::from_json",
    "pocket_types::Tags::from_json", "pocket_types::OwnedTags::empty",
]


def run(ctx):
    s = S(ctx)
    rts = roots(ctx, ENTRY)
    # any other public function of the crate that hands out an owned packed value is a constructor too (a new convenience
    # constructor added beside the listed ones is held to the same rules)
    extra = []
    for p, f in sorted(ctx.F.fns.items()):
        if p.startswith("pocket_types::") and f.kind != "Closure" and f.raw.get("vis") == "pub" and p not in rts:
            rt = f.locals[0]["ty"]["s"]
            if any(k in rt for k in ("OwnedTags", "OwnedEvent", "OwnedFilter")):
                extra.append(p)
                ctx.functions.add(p)
    ctx.instances["C19.other public constructors"] = len(extra)
    rts = rts + extra
    sc = scope_of(ctx, rts, within=lambda p: p.startswith("pocket_types::"))
    ctx.floor("C19.scope-functions", len(sc), 20)
    obs = g_obligations(ctx, sc, ("cast", "index", "slice", "panic", "arith"))
    ctx.floor("C19.sites", len(obs), 50)
    n_narrow = sum(1 for o in obs if o.rule == "G-NARROW")
    ctx.instances["C19.narrowing-casts"] = n_narrow
    for o in obs:
        ctx.add(o)
    # no header byte of a constructed value is left as the caller's buffer had it
    from .C02 import header_coverage
    header_coverage(ctx, s)
    layout.tag_count_agreement(ctx, s)
    # the refusing conversions are what the layout writers use: every to_ne_bytes that feeds the output of a
    # constructor takes a value produced by to_u16/to_u32 or a proven-narrow cast
    for name in ("pocket_types::json::to_u16", "pocket_types::json::to_u32"):
        if name not in ctx.F.by_nice:
            continue        # no conversion helper: every cast is judged by G-NARROW above
        f = ctx.fn(name)
        an = ctx.E.an(f)
        rk = s.return_kinds(f)
        errs = [n for n, k, v in rk if k == "err"]
        # the conversion must be able to fail (map_err on try_from)
        uses_try = any((i["callee"] or "").rsplit("::", 1)[-1] == "try_from" for b, i in an.calls())
        ok = uses_try
        s.add("S-REL", f, "refusing-conversion", name.split("::")[-1], f.sp, PROVED if ok else VIOLATION,
              "built on a checked try_from conversion" if ok else "the conversion helper no longer checks the range")
