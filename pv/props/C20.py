"""C20 - HyperLogLog sketches merge like sets and estimate without failing."""
from ..srules import S, find_values, contains_value, unbyref
from ..guard import PROVED, VIOLATION, UNDECIDED
from ..prove import lin_add, lin_const, lin_atoms
from .common import g_obligations

EXPLANATION = (
    "Decides: no index, shift, raw arithmetic on the input-controlled path or explicit failure in the closure of "
    "estimate_count, from_hex_string, to_hex_string, add_element and merge can fail for any register state the "
    "engine understands (in particular no shift by a register value); merge (AddAssign) and add_element_inner write a "
    "register only as r[i] = v under the dominating relation v > r[i] on the same i and v (pointwise max: the "
    "semilattice laws of the statement follow from that shape by argument, not mechanically); add_element rejects "
    "offsets >= 24 before indexing; the compiler-evaluated hex tables are inverse to each other (HEX_INVERSE[HEX_CHARS"
    "[i]] == i, A-F map to 10-15, every other entry 255) and the import loop stops exactly at the register count. "
    "The estimator's numerical accuracy and the finiteness of its floating-point result are not decided.")
ASSUMPTIONS = []

T = "pocket_types::Hll8::"


def run(ctx):
    s = S(ctx)
    roots = [ctx.fn(T + n).path for n in ("estimate_count", "from_hex_string", "to_hex_string", "add_element", "add_element_inner", "clear")]
    roots.append(ctx.fn("pocket_types::<Hll8 as AddAssign>::add_assign").path)
    scope = ctx.G.reachable(roots, within=lambda p: p.startswith("pocket_types::"))
    ctx.functions.update(scope)
    obs = g_obligations(ctx, scope, ("index", "slice", "arith", "cast", "shift", "div", "panic"))
    ctx.floor("C20.partial-operation-sites", len(obs), 5)
    for o in obs:
        ctx.add(o)
    for name in (T + "add_element_inner", "pocket_types::<Hll8 as AddAssign>::add_assign"):
        max_update(ctx, s, ctx.fn(name))
    merge_covers_all(ctx, s, ctx.fn("pocket_types::<Hll8 as AddAssign>::add_assign"))
    hex_tables(ctx, s)
    import_loop_bound(ctx, s)
    offset_guard(ctx, s)


def merge_covers_all(ctx, s, fn):
    """the merge visits every one of the 256 registers: its loop runs over 0..=255 / 0..256, or over the whole register
    arrays (zip of iter_mut and iter, no skip/take/step)"""
    an = ctx.E.an(fn)
    nexts = [(b, i) for b, i in an.calls() if (i["base"] or "").endswith("Iterator::next")]
    if not nexts:
        s.add("S-COVER", fn, "merge-visits-every-register", "add_assign", fn.sp, UNDECIDED, "no loop found in the merge: not decided")
        return
    for b, info in nexts:
        o = ctx.E.iter_origin(fn, info["pre"][0]) if info["pre"] and info["pre"][0] is not None else None
        verdict, why = UNDECIDED, "the loop's iterator was not recognised as a range or a walk over the register arrays"
        if o and o != "same" and o[0] in ("incl", "excl"):
            lo = o[1][1] if o[1][0] == "const" else None
            hi = o[2][1] if o[2][0] == "const" else None
            if lo is not None and hi is not None:
                full = lo == 0 and ((o[0] == "incl" and hi == 255) or (o[0] == "excl" and hi == 256))
                verdict = PROVED if full else VIOLATION
                why = "the loop runs over all 256 register indexes" if full else \
                    "the merge loop runs over %d%s%d, not over all 256 registers: the registers left out are never merged " \
                    "(merge is then neither commutative nor the union)" % (lo, "..=" if o[0] == "incl" else "..", hi)
        else:
            zc = [(zb, zi) for zb, zi in an.calls() if (zi["base"] or zi["callee"] or "").endswith("Iterator::zip")]
            adapters = [zi for zb, zi in an.calls() if (zi["base"] or zi["callee"] or "").rsplit("::", 1)[-1] in
                        ("skip", "take", "step_by", "rev", "skip_while", "take_while", "filter")]
            if len(zc) == 1 and not adapters:
                a0, a1 = zc[0][1]["args"]
                if a0[0] == "call" and a0[1].endswith("::iter_mut") and a1[0] == "call" and a1[1].rsplit("::", 1)[-1] in ("iter", "into_iter"):
                    verdict, why = PROVED, "the loop walks both register arrays whole, in lock step"
        s.add("S-COVER", fn, "merge-visits-every-register", "add_assign", info["sp"], verdict, why, b)


def max_update(ctx, s, fn):
    an = ctx.E.an(fn)
    P = ctx.E.prover(fn)
    stores = [(k, L, an.stmt_val[k]) for k, L in an.stmt_loc.items() if L[0] == "index"]
    zstores = _zip_stores(ctx, s, fn)
    ctx.instances["C20.register-stores in %s" % fn.nice.split("::")[-1]] = len(stores) + len(zstores)
    for (b, i), L, v, paired in zstores:
        # *mine = *theirs under *mine < *theirs, mine/theirs drawn in lock step from the two register arrays
        ok = False
        if v[0] == "call" and v[1].rsplit("::", 1)[-1] == "max" and len(v[2]) == 2:
            ok = True       # *mine = max(*mine, *theirs): a pointwise max by construction (operands checked by _zip_stores)
        for f in ctx.E.facts(fn, b):
            if f[0] != "le" or f[1][0] != 1:
                continue
            d = dict(f[1][1])
            cur = [a for a in d if d[a] == 1 and ((a[0] == "phi" and a[2] == L) or a == ("init", L))]
            new = [a for a in d if d[a] == -1 and a == v]
            if cur and new and len(d) == 2:
                ok = True
        sp = fn.blocks[b]["stmts"][i]["sp"]
        s.add("S-MAXUPD", fn, "register-max", "r[i]=v if v>r[i]", sp, PROVED if (ok and paired) else VIOLATION,
              "the register is overwritten only by a strictly larger value of the register at the same position (the two arrays are "
              "walked in lock step from their start)" if (ok and paired) else
              "a register store is not guarded by 'new value > stored value' at the same position: merge/add is no longer a max", b)
    if not stores and not zstores:
        s.add("S-MAXUPD", fn, "register-max", "r[i]=v if v>r[i]", fn.sp, VIOLATION,
              "no per-register store of the form r[i] = v under v > r[i] was found: merge/add is not a register-wise max "
              "(e.g. a word-at-a-time rewrite whose lane arithmetic is not a max for all byte values)")
        return
    for (b, i), L, v in stores:
        base, idx = L[1], L[2]
        ok = False
        for f in ctx.E.facts(fn, b):
            if f[0] != "le":
                continue
            d = dict(f[1][1])
            loads = [a for a in d if a[0] == "aload" and a[1] == base and a[2] == idx and d[a] == 1]
            news = [a for a in d if d[a] == -1 and (a == v or P.lin(v) == (0, ((a, 1),)))]
            if loads and news and len(d) == 2 and f[1][0] == 1:
                ok = True
        sp = fn.blocks[b]["stmts"][i]["sp"]
        s.add("S-MAXUPD", fn, "register-max", "r[i]=v if v>r[i]", sp, PROVED if ok else VIOLATION,
              "the register is overwritten only by a strictly larger value for the same index (pointwise max)" if ok else
              "a register store is not guarded by 'new value > stored value' on the same index: merge/add is no longer a max", b)


def _zip_stores(ctx, s, fn):
    """stores through the first component of the item of zip(a.iter_mut(), b.iter()) whose value is a load through the
    second component; paired = both iterators start at the beginning of a whole array/slice (no skip, rev, step...)"""
    an = ctx.E.an(fn)
    out = []
    for k, L in an.stmt_loc.items():
        if L[0] != "deref":
            continue
        nx = find_values(L, lambda y: y[0] == "call" and "zip" in y[1] and y[1].endswith("::next"))
        if not nx:
            continue
        v = an.stmt_val[k]
        if not find_values(v, lambda y: y == nx[0]):
            continue
        # components .0 (destination) and .1 (source)
        def comp(x):
            sel = [p[2][1] for p in find_values(x, lambda y: y[0] == "proj" and y[2][0] == "f" and y[1][0] == "proj" and y[1][2][0] == "f")]
            return sel[0] if sel else None
        if v[0] == "call" and v[1].rsplit("::", 1)[-1] == "max" and len(v[2]) == 2:
            comps = sorted(c for c in (comp(v[2][0]), comp(v[2][1])) if c is not None)
            if comp(L) != 0 or comps != [0, 1]:
                continue
        elif comp(L) != 0 or comp(v) != 1:
            continue
        site = nx[0][3]
        info = an.term.get(site[1]) if site else None
        paired = False
        if info is not None:
            org = info["pre"][0] if info["pre"] and info["pre"][0] is not None else info["args"][0]
            zs = find_values(org, lambda y: y[0] == "call" and y[1].endswith("::zip") and len(y[2]) == 2)
            if not zs:
                for st in an.stmt_val.values():
                    pass
            for z in zs:
                a0, a1 = z[2]
                m = a0[0] == "call" and a0[1].endswith("::iter_mut") and len(a0[2]) == 1
                r = a1[0] == "call" and a1[1].rsplit("::", 1)[-1] in ("iter", "into_iter") and len(a1[2]) == 1
                paired = paired or (m and r)
            if not zs:
                # the zip value reaches next() through the loop's iterator variable: look for the one zip call
                zc = [(b, i) for b, i in an.calls() if (i["base"] or i["callee"] or "").endswith("Iterator::zip")]
                if len(zc) == 1:
                    a0, a1 = zc[0][1]["args"]
                    m = a0[0] == "call" and a0[1].endswith("::iter_mut")
                    r = a1[0] == "call" and a1[1].rsplit("::", 1)[-1] in ("iter", "into_iter")
                    paired = m and r
        out.append((k, L, v, paired))
    return out


def hex_tables(ctx, s):
    inv = ctx.F.statics.get("pocket_types::HEX_INVERSE")
    chars = ctx.F.statics.get("pocket_types::HEX_CHARS")
    from ..main import AnalysisError
    if inv is None or chars is None or "bytes" not in inv or "bytes" not in chars:
        raise AnalysisError("hex tables not extracted")
    I, C = inv["bytes"], chars["bytes"]
    fn = ctx.fn(T + "from_hex_string")
    ok = len(C) == 16 and len(I) == 128
    bad = []
    if ok:
        for i, c in enumerate(C):
            if c >= 128 or I[c] != i:
                bad.append("HEX_INVERSE[%r]=%s, expected %d" % (chr(c), I[c] if c < 128 else "-", i))
        for k, c in enumerate(b"ABCDEF"):
            if I[c] != 10 + k:
                bad.append("HEX_INVERSE['%s']=%d" % (chr(c), I[c]))
        valid = set(C) | set(b"ABCDEF")
        for c in range(128):
            if c not in valid and I[c] != 255:
                bad.append("HEX_INVERSE[%d]=%d, expected 255" % (c, I[c]))
        if bytes(C) != b"0123456789abcdef":
            bad.append("HEX_CHARS=%r" % bytes(C))
    s.add("S-TABLE", fn, "hex-tables-inverse", "HEX_CHARS/HEX_INVERSE", fn.sp, PROVED if (ok and not bad) else VIOLATION,
          "export digits map back to themselves, A-F accepted, all 106 other entries are 255" if (ok and not bad) else
          "hex tables are not inverse: %s" % "; ".join(bad[:4]))


def import_loop_bound(ctx, s):
    """read_hex! stops exactly after `register count` bytes: the Ok exit has i + 1 == N"""
    fn = ctx.fn(T + "from_hex_string")
    an = ctx.E.an(fn)
    P = ctx.E.prover(fn)
    loops = an.cfg.natural_loops()
    ctx.floor("C20.import-loops", len(loops), 1)
    n_reg = 256
    for H, body in loops.items():
        phis = [(L, v) for L, v in an.in_state[H].items() if v[0] == "phi" and v[1] == H and (an.vtype.get(v) or {}).get("k") == "uint"]
        exits = [e for e in an.cfg.edges if e.src in body and e.dst not in body]
        good = False
        for e in exits:
            for f in s.edge_facts(fn, e.node):
                if f[0] == "eqc" and f[2] == n_reg:
                    l = P.lin(f[1])
                    if len(l[1]) == 1 and l[1][0][0][0] == "phi" and l[1][0][1] == 1 and l[0] == 1:
                        good = True
        start0 = False
        for L, v in phis:
            for e in an.cfg.in_edges[H]:
                if e.src not in body:
                    st = an.out_state[e.src]
                    if an.read(st, L) == ("const", 0, "usize"):
                        start0 = True
        ok = good and start0
        s.add("S-REL", fn, "import-visits-every-register", "i==256", fn.blocks[H]["term"]["sp"], PROVED if ok else VIOLATION,
              "the import loop starts at 0 and its success exit is taken exactly when i + 1 == 256" if ok else
              "the hex import loop does not run over exactly the 256 registers", H)


def offset_guard(ctx, s):
    fn = ctx.fn(T + "add_element")
    an = ctx.E.an(fn)
    off = ("param", 3)
    errs = [(n, v) for n, k, v in s.return_kinds(fn) if k == "err"]
    ok = False
    for n, v in errs:
        for f in ctx.E.facts(fn, n):
            if f[0] == "le" and dict(f[1][1]).get(off) == -1 and f[1][0] == 24 and len(f[1][1]) == 1:
                ok = True
    oks = [n for n, k, v in s.return_kinds(fn) if k == "ok"]
    ok2 = bool(oks)
    for n in oks:
        if not any(f[0] == "le" and dict(f[1][1]).get(off) == 1 and f[1][0] == -23 for f in ctx.E.facts(fn, n)):
            ok2 = False
    s.add("S-REL", fn, "offset-window", "offset<24", fn.sp, PROVED if (ok and ok2) else VIOLATION,
          "rejected iff offset >= 24; success only for offset <= 23" if (ok and ok2) else
          "add_element does not reject exactly the offsets >= 24")
