"""Branch facts and a small linear-arithmetic prover over the SSA-like values of sym.py.

A *fact* is collected from every conditional edge that dominates the query point
(switch arms, assert success edges).  Facts are decomposed into
   ("le", lin)        lin <= 0          lin = (const, ((atom, coeff), ...))
   ("variant", V, k)  discriminant of V is k
   ("eqc", V, c) / ("nec", V, c)
   ("in", V, frozenset)
   ("true", V) / ("false", V)   opaque boolean values (e.g. call results)
Overflow-assert edges are deliberately *not* used as facts: they hold only in builds with
overflow checks (DESIGN 2.1).
"""
from .sym import tk_bits, tk_unsigned

INF = float("inf")


# ------------------------------------------------------------------------ linear forms
def lin_const(c):
    return (c, ())


def lin_add(a, b, sb=1):
    d = dict(a[1])
    for atom, k in b[1]:
        d[atom] = d.get(atom, 0) + sb * k
    items = tuple(sorted(((at, k) for at, k in d.items() if k != 0), key=lambda x: repr(x[0])))
    return (a[0] + sb * b[0], items)


def lin_norm(l):
    """integer tightening of  l <= 0 : divide by the gcd of the coefficients, floor the bound"""
    from math import gcd
    g = 0
    for _, k in l[1]:
        g = gcd(g, abs(k))
    if g <= 1:
        return l
    # sum(k_i a_i) <= -c   ==>   sum(k_i/g a_i) <= floor(-c/g)
    bound = (-l[0]) // g
    return (-bound, tuple((a, k // g) for a, k in l[1]))


def lin_atoms(l):
    return {a for a, _ in l[1]}


def lin_subst(l, mapping, prover):
    """replace atoms by values (given as value expressions)"""
    out = (l[0], ())
    for a, k in l[1]:
        if a in mapping:
            out = lin_add(out, lin_scale(prover.lin(mapping[a]), k))
        else:
            out = lin_add(out, (0, ((a, k),)))
    return out


def lin_scale(a, k):
    if k == 0:
        return (0, ())
    return (a[0] * k, tuple((at, c * k) for at, c in a[1]))


class Prover:
    def __init__(self, an):
        self.an = an
        self._lin = {}
        self._facts_cache = {}

    # -------------------------------------------------------------------- linearisation
    def lin(self, v):
        r = self._lin.get(v)
        if r is not None:
            return r
        r = self._lin_uncached(v)
        self._lin[v] = r
        return r

    def _lin_uncached(self, v):
        t = v[0]
        if t == "const":
            return (v[1], ())
        if t == "bin":
            op = v[1]
            if op == "Add":
                return lin_add(self.lin(v[2]), self.lin(v[3]))
            if op == "Sub":
                return lin_add(self.lin(v[2]), self.lin(v[3]), -1)
            if op == "Mul":
                a, b = self.lin(v[2]), self.lin(v[3])
                if not a[1]:
                    return lin_scale(b, a[0])
                if not b[1]:
                    return lin_scale(a, b[0])
        if t == "cast" and v[1] == "IntToInt":
            src = self.an.vtype.get(v[3])
            dst = self.an.vtype.get(v)
            sb, db = tk_bits(src), tk_bits(dst)
            if sb is not None and db is not None and tk_unsigned(src) and (db > sb or (db == sb and tk_unsigned(dst))):
                return self.lin(v[3])       # value-preserving (a same-width cast to a signed type is not)
        if t == "call" and getattr(self, "engine", None) is not None and self.engine.is_local(v[1]):
            rl = self.engine.retlin(self.engine.F.fns[v[1]])
            if rl is not None and rl[0] == 0 and len(rl[1]) == 1 and rl[1][0][1] == 1 and rl[1][0][0][0] == "PT":
                rl = None       # an accessor: the call itself is the better atom
            if rl is not None:
                from .guard import _subst_params
                args = [a[1] if a[0] == "byref" else a for a in v[2]]
                out = (rl[0], ())
                ok = True
                for ph, k in rl[1]:
                    if ph[0] == "P":
                        val = args[ph[1] - 1]
                    elif ph[0] == "PL":
                        val = self.an.len_of(args[ph[1] - 1])
                    elif ph[0] == "PT":
                        val = _subst_params(ph[1], args)
                        if val[0] == "len":
                            val = self.an.len_of(val[1])
                    else:
                        ok = False
                        break
                    out = lin_add(out, lin_scale(self.lin(val), k))
                if ok:
                    return out
        return (0, ((v, 1),))

    # -------------------------------------------------------------------- intervals
    def interval(self, atom, facts):
        lo, hi = -INF, INF
        tk = self.an.vtype.get(atom)
        t = atom[0]
        if t == "len":
            lo = 0
        if tk is not None and tk["k"] in ("uint", "bool", "char"):
            lo = 0
            bits = tk_bits(tk)
            if bits is not None:
                hi = (1 << bits) - 1
        elif tk is not None and tk["k"] == "int":
            bits = tk_bits(tk)
            if bits is not None and bits < 64:
                lo, hi = -(1 << (bits - 1)), (1 << (bits - 1)) - 1
        if t == "bin":
            if atom[1] == "Rem" and atom[3][0] == "const" and atom[3][1] > 0:
                lo, hi = max(lo, 0), min(hi, atom[3][1] - 1)
            if atom[1] == "BitAnd":
                for side in (atom[2], atom[3]):
                    if side[0] == "const" and side[1] >= 0:
                        lo, hi = max(lo, 0), min(hi, side[1])
            if atom[1] == "Shr" and atom[3][0] == "const":
                ilo, ihi = self.interval_lin(self.lin(atom[2]), facts)
                if ilo >= 0 and ihi < INF:
                    lo, hi = max(lo, 0), min(hi, int(ihi) >> atom[3][1])
        if t == "call" and atom[1].rsplit("::", 1)[-1] == "min" and atom[1].startswith("core::cmp::") and len(atom[2]) == 2:
            for side in atom[2]:
                side = side[1] if side[0] == "byref" else side
                if side[0] == "const":
                    hi = min(hi, side[1])
        if t == "call" and atom[1].endswith("::bitand") and len(atom[2]) == 2:
            for side in atom[2]:
                if side[0] == "const" and side[1] >= 0:
                    lo, hi = max(lo, 0), min(hi, side[1])
        if t == "cast" and atom[1] == "IntToInt":
            # narrowing or sign-changing cast whose source range fits is handled in lin();
            # here: bound by target type only
            pass
        vals = None
        base = atom[1] if t == "elem" else None
        while base is not None and base[0] in ("unsize", "ptrcast"):
            base = base[1]
        if t == "elem" and base[0] == "static" and getattr(self, "engine", None) is not None:
            st = self.engine.F.statics.get(base[1])
            if st is not None and "bytes" in st and st["ty"]["t"]["k"] == "array" and \
                    st["ty"]["t"]["of"].get("bits") == 8:
                vals = set(st["bytes"])
        for f in facts:
            if f[0] == "in" and f[1] == atom:
                vals = set(f[2]) if vals is None else (vals & set(f[2]))
            elif f[0] == "eqc" and f[1] == atom:
                lo, hi = max(lo, f[2]), min(hi, f[2])
        if vals is not None:
            for f in facts:
                if f[0] == "nec" and f[1] == atom:
                    vals.discard(f[2])
            if vals:
                lo, hi = max(lo, min(vals)), min(hi, max(vals))
        return lo, hi

    def infeasible(self, facts):
        """are the facts contradictory (the point is unreachable)?"""
        for f in facts:
            if f[0] == "le":
                lo, hi = self.interval_lin(lin_norm(f[1]), facts)
                if lo > 0:
                    return True
            elif f[0] == "ne":
                d = lin_add(self.lin(f[1]), self.lin(f[2]), -1)
                if not d[1] and d[0] == 0:
                    return True
            elif f[0] == "nec":
                l = self.lin(f[1])
                if not l[1] and l[0] == f[2]:
                    return True
            elif f[0] == "eqc":
                l = self.lin(f[1])
                if not l[1] and l[0] != f[2]:
                    return True
        # a strict contradiction between two facts: f1 + f2 >= 1 > 0 impossible when both <= 0
        les = [lin_norm(f[1]) for f in facts if f[0] == "le"]
        for i in range(len(les)):
            for j in range(i + 1, len(les)):
                ssum = lin_add(les[i], les[j])
                if not ssum[1] and ssum[0] > 0:
                    return True
        return False

    def interval_lin(self, l, facts):
        lo = hi = l[0]
        for atom, k in l[1]:
            alo, ahi = self.interval(atom, facts)
            if k > 0:
                lo += k * alo
                hi += k * ahi
            else:
                lo += k * ahi
                hi += k * alo
        return lo, hi

    # -------------------------------------------------------------------- fact collection
    def facts_at(self, node):
        """facts from all conditional edges dominating CFG node `node`"""
        r = self._facts_cache.get(node)
        if r is not None:
            return r
        cfg = self.an.cfg
        out = []
        for d in cfg.dominators(node):
            ec = self.an.edge_cond.get(d)
            if ec is None:
                continue
            if ec[0] == "switch":
                _, D, label, dty = ec
                if label[0] == "switch":
                    self.decompose_eq(D, label[1], dty, out)
                else:
                    vals = label[1]
                    if dty == "bool" and len(vals) == 1:
                        self.decompose_eq(D, 1 - vals[0], dty, out)
                    else:
                        for v in vals:
                            self.decompose_ne(D, v, dty, out)
            elif ec[0] == "assert":
                _, c, expected, info = ec
                if info["mk"] == "BoundsCheck":
                    self.decompose_eq(c, 1 if expected else 0, "bool", out)
                # overflow / div asserts: not used (build-configuration dependent)
        self._threaded_facts(node, out)
        self._correlated_facts(node, out)
        self._facts_cache[node] = out
        return out

    def explicit_facts_at(self, node):
        """facts from the comparisons the code itself makes on the way to `node` (switch conditions of dominating edges) -
        not the implicit bounds checks of earlier index expressions, which facts_at includes as well"""
        cfg = self.an.cfg
        out = []
        for d in cfg.dominators(node):
            ec = self.an.edge_cond.get(d)
            if ec is None or ec[0] != "switch":
                continue
            _, D, label, dty = ec
            if label[0] == "switch":
                self.decompose_eq(D, label[1], dty, out)
            else:
                vals = label[1]
                if dty == "bool" and len(vals) == 1:
                    self.decompose_eq(D, 1 - vals[0], dty, out)
                else:
                    for v in vals:
                        self.decompose_ne(D, v, dty, out)
        return out

    def _correlated_facts(self, node, out):
        """a value that was branched on earlier and is branched on (or otherwise decided) again: when a switch S dominates
        `node`, none of S's arms does (the arms have merged), and the facts at `node` decide which arm S took, then what
        held when that arm was left holds at `node` - the facts of the arm's edge and those common to the edges leaving the
        arm's region.  (`match x {..}` twice on the same x, a helper consulted once to test and once to act.)"""
        cfg = self.an.cfg
        busy = self.__dict__.setdefault("_corr_busy", set())
        if node in busy:
            return
        variant = {}
        truth = {}
        eqc = {}
        for f in out:
            if f[0] == "variant":
                variant[f[1]] = f[2]
            elif f[0] in ("true", "false"):
                truth[f[1]] = (f[0] == "true")
            elif f[0] == "eqc":
                eqc[f[1]] = f[2]
        if not (variant or truth or eqc):
            return
        busy.add(node)
        try:
            have = {repr(f) for f in out}
            for d in cfg.dominators(node):
                if d >= cfg.nblocks or d == node:
                    continue
                info = self.an.term.get(d)
                if info is None or info["kind"] != "switch":
                    continue
                outs = cfg.out_edges[d]
                if any(cfg.dominates(e.node, node) for e in outs):
                    continue            # still inside one arm: its edge facts are there already
                D = info["discr"]
                k = None
                if D[0] == "discr" and D[1] in variant:
                    k = variant[D[1]]
                elif info.get("dty") == "bool":
                    D0, neg = D, False
                    while D0[0] == "not":
                        D0, neg = D0[1], not neg
                    if D0 in truth:
                        k = int(truth[D0] != neg)
                elif D in eqc:
                    k = eqc[D]
                if k is None:
                    continue
                arm = None
                for e in outs:
                    if e.label[0] == "switch" and e.label[1] == k:
                        arm = e
                if arm is None:
                    for e in outs:
                        if e.label[0] == "otherwise" and k not in e.label[1]:
                            arm = e
                if arm is None:
                    continue
                # edges leaving the region the arm dominates
                exits = [e for e in cfg.edges if cfg.dominates(arm.node, e.node) and e.node != arm.node and
                         not cfg.dominates(arm.node, e.dst)]
                common = None
                if not exits:
                    exits = [arm]
                # only exits from which `node` can still be reached matter
                exits = [e for e in exits if e.src in cfg.reachable and node in cfg.reach_from([e.node])]
                if len(exits) > 12:
                    continue
                for e in exits:
                    fs = self.facts_at(e.node)
                    keyed = {repr(f): f for f in fs}
                    common = keyed if common is None else {k2: v for k2, v in common.items() if k2 in keyed}
                for k2, f in (common or {}).items():
                    if k2 not in have:
                        out.append(f)
                        have.add(k2)
        finally:
            busy.discard(node)

    def _threaded_facts(self, node, out):
        """facts that hold on every value-feasible way into a switch arm dominating `node`: when the switch tests a
        value joined just before it and every incoming edge's value is known, the arm is entered only through the
        edges that carry that value, so what holds on all of those edges holds in the arm"""
        cfg = self.an.cfg
        tm, arms, complete = compute_threads(self.an)
        unknown = getattr(self.an, "_threads_unknown", {})
        if not unknown and not complete:
            return
        busy = self.__dict__.setdefault("_thread_busy", set())
        for d in cfg.dominators(node):
            if d < cfg.nblocks:
                continue
            e = cfg.edges[d - cfg.nblocks]
            if e.src not in complete and e.src not in unknown:
                continue
            if e.label[0] == "switch":
                ks = [e.label[1]]
            elif e.label[0] == "otherwise":
                seen = set(e.label[1])
                ks = sorted({k for (S_, k) in arms if S_ == e.src and k not in seen})
                tinfo = self.an.term.get(e.src) or {}
                if tinfo.get("dty") == "bool":
                    ks = [v for v in (0, 1) if v not in seen]
            else:
                continue
            if e.label[0] == "otherwise" and len(ks) == 1 and e.src in complete:
                ec = self.an.edge_cond.get(d)
                if ec is not None and ec[0] == "switch":
                    self.decompose_eq(ec[1], ks[0], ec[3], out)
            # the ways in whose value is known to be this arm's, plus those whose value is not known (they may take any arm)
            ins = [x for k in ks for x in arms.get((e.src, k), [])] + list(unknown.get(e.src, []))
            if not ins or (e.src, tuple(ks)) in busy:
                continue
            busy.add((e.src, tuple(ks)))
            try:
                common = None
                for x in ins:
                    fs = self.facts_at(x)
                    keyed = {repr(f): f for f in fs}
                    common = keyed if common is None else {k2: v for k2, v in common.items() if k2 in keyed}
                    if not common:
                        break
            finally:
                busy.discard((e.src, tuple(ks)))
            have = {repr(f) for f in out}
            for k2, f in (common or {}).items():
                if k2 not in have:
                    out.append(f)
            # a single way in whose flag is a computed value: in this arm that value is the arm's constant
            uv = getattr(self.an, "_threads_unknown_val", {})
            if len(ins) == 1 and ins[0] in uv and len(ks) == 1 and ks[0] in (0, 1):
                val, neg = uv[ins[0]]
                truth = bool(ks[0]) != bool(neg)
                extra = []
                self.truth(val, truth, extra)
                for f in extra:
                    if repr(f) not in have:
                        out.append(f)
                        have.add(repr(f))

    def decompose_eq(self, D, v, dty, out):
        if dty == "bool":
            self.truth(D, bool(v), out)
            return
        if D[0] == "discr":
            out.append(("variant", D[1], v))
            sg = D[1]
            if sg[0] == "try" and isinstance(sg[1], tuple) and sg[1] and sg[1][0] in ("slicegetr", "sliceget") and v in (0, 1):
                # `slice.get(..)?`: Continue (0) is Some (1), Break (1) is None (0)
                self.decompose_eq(("discr", sg[1]), 1 - v, dty, out)
                return
            if sg[0] == "slicegetr" and v == 1:
                sl = sg[1]
                ln = self.lin(self.an.len_of(sl[1]))
                if sl[0] == "slice":
                    out.append(("le", lin_add(self.lin(sl[2]), self.lin(sl[3]), -1)))
                    out.append(("le", lin_add(self.lin(sl[3]), ln, -1)))
                elif sl[0] == "slicefrom":
                    out.append(("le", lin_add(self.lin(sl[2]), ln, -1)))
                else:
                    out.append(("le", lin_add(self.lin(sl[2]), ln, -1)))
            if sg[0] == "slicegetr" and v == 0:
                # None: the range does not fit.  For ..hi and lo.. (and 0..hi) that is a single linear fact
                sl = sg[1]
                ln = self.lin(self.an.len_of(sl[1]))
                if sl[0] == "sliceto" or (sl[0] == "slice" and self.lin(sl[2]) == (0, ())):
                    hi = self.lin(sl[2] if sl[0] == "sliceto" else sl[3])
                    out.append(("le", lin_add(lin_add(ln, hi, -1), lin_const(1))))      # len + 1 <= hi
                elif sl[0] == "slicefrom":
                    out.append(("le", lin_add(lin_add(ln, self.lin(sl[2]), -1), lin_const(1))))
            if sg[0] == "sliceget":
                li, ll = self.lin(sg[2]), self.lin(self.an.len_of(sg[1]))
                if v == 1:      # Some: index < len
                    out.append(("le", lin_add(lin_add(li, ll, -1), lin_const(1))))
                elif v == 0:    # None: len <= index
                    out.append(("le", lin_add(ll, li, -1)))
            return
        out.append(("eqc", D, v))
        l = self.lin(D)
        out.append(("le", lin_add(l, lin_const(v), -1)))
        out.append(("le", lin_add(lin_const(v), l, -1)))

    TWO_VARIANT = ("core::option::Option", "core::result::Result", "core::ops::control_flow::ControlFlow")

    def decompose_ne(self, D, v, dty, out):
        if D[0] == "discr":
            out.append(("notvariant", D[1], v))
            tk = self.an.vtype.get(D[1])
            if tk is not None and tk["k"] == "adt" and tk["path"] in self.TWO_VARIANT and v in (0, 1):
                self.decompose_eq(D, 1 - v, dty, out)
            return
        out.append(("nec", D, v))

    def _const_range(self, v, depth=0):
        """(lo, hi inclusive) of a range value built from constants, through references and promoted constants"""
        if depth > 6 or not isinstance(v, tuple) or not v:
            return None
        if v[0] == "promoted":
            v = self.an.promoted_pointee(v) or v
        if v[0] in ("ref", "byref"):
            return self._const_range(v[1], depth + 1) if isinstance(v[1], tuple) else None
        if v[0] == "init" and v[1][0] == "deref":
            return self._const_range(v[1][1], depth + 1)
        if v[0] == "agg" and isinstance(v[1], str) and v[1].endswith(":Range") and len(v[2]) == 2 and all(x[0] == "const" for x in v[2]):
            return (v[2][0][1], v[2][1][1] - 1)
        if v[0] == "agg" and "RangeInclusive" in str(v[1]) and len(v[2]) >= 2 and v[2][0][0] == "const" and v[2][1][0] == "const":
            return (v[2][0][1], v[2][1][1])
        if v[0] == "call" and "range" in v[1] and v[1].endswith("::new") and len(v[2]) == 2 and all(x[0] == "const" for x in v[2]):
            return (v[2][0][1], v[2][1][1])
        return None

    def truth(self, D, val, out, depth=0):
        t = D[0]
        if t == "const":
            return
        if t == "call" and val and D[1].rsplit("::", 1)[-1] == "contains" and len(D[2]) == 2 and "range" in D[1]:
            # (lo..=hi).contains(&x) holds: lo <= x <= hi
            r = self._const_range(D[2][0])
            x = D[2][1]
            while x[0] in ("ref", "byref") and isinstance(x[1], tuple) and x[1] and isinstance(x[1][0], str):
                x = x[1]
            if r is not None and isinstance(r[0], int) and isinstance(r[1], int):
                lx = self.lin(x)
                out.append(("le", lin_add(lx, lin_const(r[1]), -1)))
                out.append(("le", lin_add(lin_const(r[0]), lx, -1)))
        if t == "not":
            self.truth(D[1], not val, out)
            return
        if t == "bin":
            op, a, b = D[1], D[2], D[3]
            if op in ("Lt", "Le", "Gt", "Ge"):
                if not val:
                    op = {"Lt": "Ge", "Le": "Gt", "Gt": "Le", "Ge": "Lt"}[op]
                la, lb = self.lin(a), self.lin(b)
                if op == "Lt":      # a < b  <=> a - b + 1 <= 0
                    out.append(("le", lin_add(lin_add(la, lb, -1), lin_const(1))))
                elif op == "Le":
                    out.append(("le", lin_add(la, lb, -1)))
                elif op == "Gt":
                    out.append(("le", lin_add(lin_add(lb, la, -1), lin_const(1))))
                else:
                    out.append(("le", lin_add(lb, la, -1)))
                return
            if op in ("Eq", "Ne"):
                eq = (op == "Eq") == val
                if eq:
                    la, lb = self.lin(a), self.lin(b)
                    out.append(("le", lin_add(la, lb, -1)))
                    out.append(("le", lin_add(lb, la, -1)))
                    out.append(("eq", a, b))
                    if b[0] == "const":
                        out.append(("eqc", a, b[1]))
                    if a[0] == "const":
                        out.append(("eqc", b, a[1]))
                else:
                    out.append(("ne", a, b))
                    if b[0] == "const":
                        out.append(("nec", a, b[1]))
                    if a[0] == "const":
                        out.append(("nec", b, a[1]))
                return
            if op == "BitAnd" and val:
                self.truth(a, True, out)
                self.truth(b, True, out)
                return
            if op == "BitOr" and not val:
                self.truth(a, False, out)
                self.truth(b, False, out)
                return
        if t == "phi" and depth < 4:
            # a boolean join (the lowering of && / ||): if the phi has this truth value and all
            # but one incoming value are the opposite constant, that one incoming edge was taken
            cfg = self.an.cfg
            ins = []
            for e in cfg.in_edges[D[1]]:
                st = self.an.out_state.get(e.src)
                if st is not None:
                    ins.append((e, self.an.read(st, D[2])))
            live = [(e, v) for e, v in ins if not (v[0] == "const" and bool(v[1]) != val)]
            if len(live) == 1 and len(ins) > 1:
                e, v = live[0]
                self.truth(v, val, out, depth + 1)
                out.extend(self.facts_at(e.node))
                return
        if t == "call":
            callee = D[1]
            if callee.endswith("::contains") and "slice" in callee and len(D[2]) == 2:
                S, x = D[2]
                bs = None
                if S[0] == "unsize" and S[1][0] == "bytes":
                    bs = S[1][1]
                elif S[0] == "bytes":
                    bs = S[1]
                elif S[0] == "unsize" and S[1][0] == "ref":
                    pass
                if bs is not None and val:
                    xv = self.pointee(x)
                    if xv is not None:
                        out.append(("in", xv, frozenset(bs)))
                    return
            # RangeInclusive / Range ::contains(&range, &x) on integer ranges
        out.append(("true" if val else "false", D))

    def pointee(self, refv):
        """value stored where reference value refv points, when expressible"""
        if refv[0] == "ref":
            L = refv[1]
            if L[0] == "index":
                base = L[1]
                if base[0] == "deref":
                    return ("elem", base[1], L[2])
                return ("elem", ("init", base), L[2])
            return ("init", L)
        return None

    # -------------------------------------------------------------------- proving
    def prove_le0(self, goal, facts, depth=3):
        """goal (a linear form) <= 0 under the facts?"""
        goal = lin_norm(goal)
        les = [lin_norm(f[1]) for f in facts if f[0] == "le"]
        goal_atoms = {a for a, _ in goal[1]}
        # x != c together with x <= c gives x <= c-1 (and symmetrically)
        if depth >= 2:
            for f in facts:
                if f[0] == "nec":
                    lx = self.lin(f[1])
                    if not (lin_atoms(lx) & goal_atoms):
                        continue
                    up = lin_add(lx, lin_const(f[2]), -1)          # x - c <= 0 ?
                    if self.prove_le0(up, [g for g in facts if g is not f], depth=1):
                        les.append(lin_add(up, lin_const(1)))      # x - c + 1 <= 0
                    dn = lin_add(lin_const(f[2]), lx, -1)          # c - x <= 0 ?
                    if self.prove_le0(dn, [g for g in facts if g is not f], depth=1):
                        les.append(lin_add(dn, lin_const(1)))

        def residual_ok(res):
            lo, hi = self.interval_lin(res, facts)
            return hi <= 0

        if residual_ok(goal):
            return True
        # restrict to facts sharing atoms (transitively) with the goal
        rel = []
        atoms = set(goal_atoms)
        changed = True
        pool = list(les)
        while changed:
            changed = False
            for f in list(pool):
                fa = {a for a, _ in f[1]}
                if fa & atoms:
                    rel.append(f)
                    pool.remove(f)
                    if not fa <= atoms:
                        atoms |= fa
                        changed = True
        rel = rel[:40]
        # goal <= sum of chosen facts (each <= 0) + residual, residual <= 0
        def search(cur, start, left):
            if residual_ok(cur):
                return True
            if left == 0:
                return False
            for i in range(start, len(rel)):
                for mult in (1, 2):
                    nxt = lin_norm(lin_add(cur, rel[i], -mult))
                    if search(nxt, i + 1, left - 1):
                        return True
            return False

        return search(goal, 0, depth)

    def prove_lt(self, a, b, facts):
        g = lin_add(lin_add(self.lin(a), self.lin(b), -1), lin_const(1))
        return self.prove_le0(g, facts)

    def prove_le(self, a, b, facts):
        g = lin_add(self.lin(a), self.lin(b), -1)
        return self.prove_le0(g, facts)

    def variant_known(self, V, facts):
        for f in facts:
            if f[0] == "variant" and f[1] == V:
                return f[2]
        return None


# ---------------------------------------------------------------------------------------------- jump threading
def _const_bool(an, v, depth=0):
    """the boolean a value is known to be: a constant, or a join all of whose inputs (other than itself) are the
    same constant (a flag that is only ever re-assigned its initial value around a loop)"""
    if v[0] == "const" and v[2] == "bool":
        return bool(v[1])
    if v[0] == "phi" and depth < 4:
        vals = set()
        for e in an.cfg.in_edges[v[1]]:
            st = an.out_state.get(e.src)
            if st is None:
                continue
            x = an.read(st, v[2])
            if x == v:
                continue
            c = _const_bool(an, x, depth + 1)
            if c is None:
                return None
            vals.add(c)
        if len(vals) == 1:
            return vals.pop()
    return None



def residual_variant(v):
    """variant index of what `?` returns early: Err (1) of a Result, None (0) of an Option"""
    return 0 if "core::option::" in v[1] else 1


def variant_index(an, agg):
    """index of the variant an aggregate value builds (None if unknown)"""
    if agg[0] != "agg" or not isinstance(agg[1], str) or not agg[1].startswith("adt:"):
        return None
    body = agg[1][4:]
    path, _, vname = body.rpartition(":")
    if path in ("core::option::Option",):
        return {"None": 0, "Some": 1}.get(vname)
    if path in ("core::result::Result",):
        return {"Ok": 0, "Err": 1}.get(vname)
    F = getattr(an, "F", None)
    adt = F.adts.get(path) if F is not None else None
    if adt is None or adt.get("kind") != "Enum":
        return None
    for i, v in enumerate(adt["variants"]):
        if v["n"] == vname:
            return v.get("discr", i) if isinstance(v.get("discr", i), int) else i
    return None


def compute_threads(an):
    """(tm, arms, complete):  tm: edge node -> [(switch block S, forced label value k)] - when a switch tests the variant
    of an enum value (or a boolean) that was joined just before it, and the value flowing in along an incoming edge of
    the join is known (an aggregate of a known variant, a constant boolean, the residual of `?`), a path entering
    through that edge can only take one arm.  Joins nested before the join (if / else-if chains building the value) are
    followed back.  arms: (S, k) -> [edge nodes forced to that arm].  complete: the switches S for which every way into
    the join is classified, so that arm k of S is entered only through arms[(S, k)]."""
    r = getattr(an, "_threads", None)
    if r is not None:
        return r
    tm, arms, complete = {}, {}, set()
    cfg = an.cfg

    headers = set(cfg.natural_loops())

    def straight(a, b):
        """the value joined at block a is still the one seen at block b, and what held on the way into a still holds at
        b: a dominates b and a is not a loop header (then no definition that dominates an incoming edge of a can be
        re-executed between a and b without passing a again)"""
        return a not in headers and cfg.dominates(a, b)

    def kind(v, boolneg):
        if isinstance(boolneg, tuple) and boolneg[0] == "payload_variant":
            # the switch tests the variant of an enum carried inside one variant of the joined value (`match f(..)? {..}`)
            _, k0, fi = boolneg
            if v[0] == "call" and v[1].endswith("from_residual"):
                return "skip" if k0 != residual_variant(v) else None
            if v[0] != "agg":
                return None
            vi = variant_index(an, v)
            if vi is None:
                return None
            if vi != k0:
                return "skip"
            if fi >= len(v[2]) or v[2][fi][0] != "agg":
                return None
            return variant_index(an, v[2][fi])
        if isinstance(boolneg, tuple) and boolneg[0] == "payload":
            # the switch tests a boolean field of one variant of the joined enum value (`if helper(..)? {..}`)
            _, k0, fi, neg = boolneg
            if v[0] == "call" and v[1].endswith("from_residual"):
                return "skip" if k0 != residual_variant(v) else None
            if v[0] != "agg":
                return None
            vi = variant_index(an, v)
            if vi is None:
                return None
            if vi != k0:
                return "skip"           # this way in leaves through the other arm of the variant test
            if fi >= len(v[2]):
                return None
            cb = _const_bool(an, v[2][fi])
            return None if cb is None else (int(not cb) if neg else int(cb))
        if boolneg == "int":
            return v[1] if v[0] == "const" and isinstance(v[1], int) else None
        if boolneg is not None:
            cb = _const_bool(an, v)
            return None if cb is None else (int(not cb) if boolneg else int(cb))
        if v[0] == "agg":
            return variant_index(an, v)
        if v[0] == "call" and v[1].endswith("from_residual"):
            return residual_variant(v)
        return None

    unknown = {}
    unknown_val = {}

    def classify(J, L, boolneg, depth=0, unk=None):
        """[(edge node, k)] for every way into join J, and whether all of them are known; the ways in whose value is
        not known are collected in unk"""
        res, allk = [], True
        for e in cfg.in_edges[J]:
            st = an.out_state.get(e.src)
            if st is None:
                continue
            v = an.read(st, L)
            k = kind(v, boolneg)
            if k == "skip":
                continue
            if k is not None:
                res.append((e.node, k))
            elif isinstance(boolneg, tuple) and boolneg[0] == "payload" and v[0] == "agg" and variant_index(an, v) == boolneg[1] \
                    and boolneg[2] < len(v[2]) and v[2][boolneg[2]][0] == "phi" and depth < 12 \
                    and (v[2][boolneg[2]][1] == e.src or straight(v[2][boolneg[2]][1], e.src)) \
                    and len(cfg.in_edges[v[2][boolneg[2]][1]]) >= 2:
                # Ok(flag) where the flag itself was joined just before (`Ok(matches!(..))`)
                p2 = v[2][boolneg[2]]
                sub, suball = classify(p2[1], p2[2], boolneg[3], depth + 1, unk)
                res += sub
                allk = allk and suball
            elif v[0] == "phi" and v != ("phi", J, L) and depth < 12 and v[1] != J and \
                    (v[1] == e.src or straight(v[1], e.src)) and len(cfg.in_edges[v[1]]) >= 2:
                sub, suball = classify(v[1], v[2], boolneg, depth + 1, unk)
                res += sub
                allk = allk and suball
            else:
                allk = False
                if unk is not None:
                    unk.append(e.node)
                    pv = v
                    if isinstance(boolneg, tuple) and boolneg[0] == "payload" and v[0] == "agg" and \
                            variant_index(an, v) == boolneg[1] and boolneg[2] < len(v[2]):
                        unknown_val[e.node] = (v[2][boolneg[2]], boolneg[3])     # (the flag carried, negated?)
                    elif boolneg is True or boolneg is False:
                        unknown_val[e.node] = (v, boolneg)
        return res, allk
    for S_ in range(cfg.nblocks):
        info = an.term.get(S_)
        if info is None or info["kind"] != "switch":
            continue
        D = info["discr"]
        boolneg = None
        tracked = None
        if D[0] == "discr" and D[1][0] == "proj" and D[1][2][0] == "f" and D[1][1][0] == "proj" and D[1][1][2][0] == "dc":
            inner = D[1][1][1]
            if inner[0] == "try":
                inner = inner[1]
            tracked, boolneg = inner, ("payload_variant", D[1][1][2][1], D[1][2][1])
        elif D[0] == "discr":
            tracked = D[1][1] if D[1][0] == "try" else D[1]
        elif info.get("dty") == "bool":
            neg = False
            D0 = D
            if D0[0] == "not":
                D0, neg = D0[1], True
            if D0[0] == "proj" and D0[2][0] == "f" and D0[1][0] == "proj" and D0[1][2][0] == "dc":
                inner = D0[1][1]
                if inner[0] == "try":
                    inner = inner[1]
                tracked, boolneg = inner, ("payload", D0[1][2][1], D0[2][1], neg)
            else:
                tracked, boolneg = D0, neg
        elif D[0] == "phi":
            tracked, boolneg = D, "int"     # a small integer chosen per branch and dispatched on right after
        if tracked is None or tracked[0] != "phi" or tracked[2][0] != "local":
            continue
        J = tracked[1]
        if J not in an.in_state or len(cfg.in_edges[J]) < 2 or not straight(J, S_):
            continue
        unk = []
        res, allk = classify(J, tracked[2], boolneg, 0, unk)
        if res:
            unknown[S_] = unk
        for n, k in res:
            lst = tm.setdefault(n, [])
            if not any(x[0] == S_ for x in lst):
                lst.append((S_, k))
                arms.setdefault((S_, k), []).append(n)
        if allk and res:
            complete.add(S_)
    an._threads = (tm, arms, complete)
    an._threads_unknown = unknown
    an._threads_unknown_val = unknown_val
    return an._threads
