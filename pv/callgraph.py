"""Whole-program call graph over the three analysed crates (resolved callees).
Closures are attached to their parent; a function value passed as an argument is an edge to it."""
from .sym import callee_of


class CallGraph:
    def __init__(self, F):
        self.F = F
        self.out = {}     # path -> set(callee path)  (in-crate and external)
        self.sites = {}   # path -> list of (block, callee, term)
        self.callers = {}
        for p, f in F.fns.items():
            outs = set()
            sites = []
            for bi, b in enumerate(f.blocks):
                if b["cleanup"]:
                    continue
                t = b["term"]
                if t["t"] in ("call", "tailcall"):
                    c = callee_of(t)
                    if c is not None:
                        outs.add(c)
                        sites.append((bi, c, t))
                    # function items passed as arguments
                    for a in t["args"]:
                        k = a.get("k")
                        if k and "fn" in k:
                            outs.add(k["fn"])
                for s in b["stmts"]:
                    if s["s"] == "assign":
                        rv = s["rv"]
                        if rv["r"] == "agg" and rv["kind"]["a"] == "closure":
                            outs.add(rv["kind"]["path"])
                        for key in ("a", "b"):
                            o = rv.get(key)
                            if isinstance(o, dict) and "k" in o and "fn" in o["k"]:
                                outs.add(o["k"]["fn"])
            self.out[p] = outs
            self.sites[p] = sites
        for p, outs in self.out.items():
            for c in outs:
                self.callers.setdefault(c, set()).add(p)

    def reachable(self, roots, within=None):
        """in-crate functions reachable from roots (paths). `within`: optional predicate on path"""
        seen = set()
        stack = list(roots)
        while stack:
            p = stack.pop()
            if p in seen or p not in self.F.fns:
                continue
            if within is not None and not within(p):
                continue
            seen.add(p)
            stack.extend(self.out.get(p, ()))
        return seen

    def reaches_external(self, roots, pred, within=None):
        """external (or any) callees matching pred reachable from roots: yields (caller, block, callee)"""
        for p in sorted(self.reachable(roots, within)):
            for bi, c, t in self.sites[p]:
                if pred(c):
                    yield p, bi, c, t

    def callers_of(self, path):
        return sorted(self.callers.get(path, ()))

    def call_sites_of(self, callee):
        for p in sorted(self.callers.get(callee, ())):
            for bi, c, t in self.sites.get(p, ()):
                if c == callee:
                    yield p, bi, t
