"""G-rules: partial operations (index, slice, raw arithmetic, narrowing cast, shift, explicit
failure) must be guarded on every path.  See DESIGN 3.1.

Verdicts: PROVED / VIOLATION / UNDECIDED.  A VIOLATION needs that every atom of the
obligation is *understood* (constants, parameters at an unconditional site, loop cursors,
cursors left behind by an in-crate helper whose body was analysed) and that no proof exists.
"""
from .sym import analyze, show, showloc, tk_bits, tk_unsigned, walk, callee_of
from .prove import (Prover, lin_add, lin_const, lin_scale, lin_atoms, lin_subst, lin_norm, INF)

PROVED, VIOLATION, UNDECIDED = "PROVED", "VIOLATION", "UNDECIDED"

LOCAL_CRATES = ("pocket_types::", "pocket_db::", "mmap_append::")


class Ob:
    def __init__(self, rule, fn, block, kind, desc, sp, goals=None, extra=None):
        self.rule = rule
        self.fn = fn
        self.block = block
        self.kind = kind
        self.desc = desc
        self.sp = sp
        self.goals = goals or []     # list of (lin, text): each lin <= 0 required
        self.extra = extra or {}
        self.verdict = UNDECIDED
        self.why = ""
        self.key = None

    def loc(self):
        sp = self.sp
        s = "%s:%d" % (sp["f"], sp["l"])
        if "x" in sp:
            s += " (in %s! %s:%d)" % (sp["x"], sp.get("xf", ""), sp.get("xl", 0))
        return s

    def to_json(self):
        return {"key": self.key, "rule": self.rule, "fn": self.fn, "kind": self.kind, "expr": self.desc,
                "at": self.loc(), "verdict": self.verdict, "why": self.why}


class Engine:
    def __init__(self, F):
        self.F = F
        self._prover = {}
        self._summ = {}
        self._retlin = {}
        self._in_progress = set()
        self._assume = {}
        self._sccs = None

    # ------------------------------------------------------------------ basics
    def an(self, fn):
        return analyze(fn, self.F)

    def prover(self, fn):
        p = self._prover.get(fn.path)
        if p is None:
            p = Prover(self.an(fn))
            p.engine = self
            p.fn = fn
            self._prover[fn.path] = p
        return p

    def is_local(self, path):
        return path is not None and path in self.F.fns

    def stable(self, v, fn):
        """line-number-free rendering used in keys"""
        an = self.an(fn)

        def s(x, d=0):
            if not isinstance(x, tuple) or not x:
                return str(x)
            if d > 10:
                return "..."
            t = x[0]
            if t == "clob":
                site = x[1]
                info = an.term.get(site[1]) if site[0] == fn.path else None
                nm = (info["callee"] if info and info.get("callee") else "?").split("::")[-1]
                return "after(%s).%d" % (nm, x[2])
            if t == "phi":
                return "loop(%s)" % sl(x[2], d + 1)
            if t == "call":
                return "%s(%s)" % (x[1].split("::")[-1], ",".join(s(a, d + 1) for a in x[2]))
            if t == "param":
                return fn.local_name(x[1])
            if t == "const":
                return str(x[1])
            if t == "init":
                return sl(x[1], d + 1)
            if t == "bin":
                sym = {"Add": "+", "Sub": "-", "Mul": "*", "Shl": "<<", "Shr": ">>", "BitAnd": "&", "BitOr": "|",
                       "Rem": "%", "Div": "/"}.get(x[1], x[1])
                return "(%s%s%s)" % (s(x[2], d + 1), sym, s(x[3], d + 1))
            if t == "len":
                return "len(%s)" % s(x[1], d + 1)
            if t == "elem":
                return "%s[%s]" % (s(x[1], d + 1), s(x[2], d + 1))
            if t == "cast":
                return "(%s as %s)" % (s(x[3], d + 1), x[2])
            if t == "slice":
                return "%s[%s..%s]" % (s(x[1], d + 1), s(x[2], d + 1), s(x[3], d + 1))
            if t == "slicefrom":
                return "%s[%s..]" % (s(x[1], d + 1), s(x[2], d + 1))
            if t == "sliceto":
                return "%s[..%s]" % (s(x[1], d + 1), s(x[2], d + 1))
            if t == "static":
                return x[1].split("::")[-1]
            if t == "unsize":
                return s(x[1], d + 1)
            if t == "ref":
                return "&" + sl(x[1], d + 1)
            if t == "bytes":
                return "b%r" % x[1][:16]
            if t == "proj":
                return "%s.%s" % (s(x[1], d + 1), x[2][1])
            if t == "try":
                return "try(%s)" % s(x[1], d + 1)
            if t == "agg":
                return "%s{%s}" % (x[1].split(":")[-1], ",".join(s(a, d + 1) for a in x[2]))
            return "%s(%s)" % (t, ",".join(s(y, d + 1) if isinstance(y, tuple) else str(y) for y in x[1:]))

        def sl(L, d=0):
            t = L[0]
            if t == "local":
                return fn.local_name(L[1])
            if t == "deref":
                return "*" + s(L[1], d + 1)
            if t == "field":
                return "%s.%s" % (sl(L[1], d + 1), L[2])
            if t == "index":
                return "%s[%s]" % (sl(L[1], d + 1), s(L[2], d + 1))
            if t == "downcast":
                return sl(L[1], d + 1)
            return str(L[0])

        return s(v)

    # ------------------------------------------------------------------ obligations
    def obligations(self, fn, classes=("index", "slice", "arith", "cast", "shift", "div", "panic", "unchecked")):
        an = self.an(fn)
        P = self.prover(fn)
        obs = []
        for b in an.cfg.block_rpo():
            info = an.term.get(b)
            if info is None:
                continue
            blk = fn.blocks[b]
            # ---- statements: narrowing casts, raw shifts without assert (release-like ops)
            if "cast" in classes:
                for i, s in enumerate(blk["stmts"]):
                    if s["s"] != "assign":
                        continue
                    rv = s["rv"]
                    if rv["r"] == "cast" and rv["kind"] in ("IntToInt", "FloatToInt"):
                        src, dst = rv["from"]["t"], rv["ty"]["t"]
                        sb, db = tk_bits(src), tk_bits(dst)
                        narrowing = False
                        if rv["kind"] == "FloatToInt":
                            narrowing = True
                        elif sb is not None and db is not None:
                            if db < sb:
                                narrowing = True
                            elif db == sb and tk_unsigned(src) != tk_unsigned(dst):
                                narrowing = False  # sign reinterpretation: not a length truncation
                        if narrowing:
                            v = an.stmt_val.get((b, i))
                            if v is None or v[0] != "cast":
                                continue
                            inner = v[3]
                            o = Ob("G-NARROW", fn.path, b, "cast:%s->%s" % (rv["from"]["s"], rv["ty"]["s"]),
                                   self.stable(inner, fn), s["sp"])
                            if rv["kind"] == "IntToInt" and db is not None:
                                hi = (1 << db) - 1 if tk_unsigned(dst) else (1 << (db - 1)) - 1
                                o.goals = [(lin_add(P.lin(inner), lin_const(hi), -1), "%s <= %d" % (o.desc, hi))]
                            o.extra = {"value": v, "inner": inner, "stmt": i, "dst_bits": db, "src": src, "dst": dst}
                            obs.append(o)
            k = info["kind"]
            if k == "assert":
                mk = info["mk"]
                if mk == "BoundsCheck" and "index" in classes:
                    idx, ln = info["index"], info["len"]
                    g = lin_add(lin_add(P.lin(idx), P.lin(ln), -1), lin_const(1))
                    o = Ob("G-GUARD", fn.path, b, "index", "%s < %s" % (self.stable(idx, fn), self.stable(ln, fn)),
                           info["sp"], [(g, "index < len")], {"index": idx, "len": ln})
                    obs.append(o)
                elif mk == "Overflow" and ("arith" in classes or "shift" in classes):
                    op = info["op"]
                    a, bb = info["a"], info["b"]
                    if op in ("Shl", "Shr"):
                        if "shift" not in classes:
                            continue
                        tk = an.vtype.get(a)
                        bits = tk_bits(tk) or 64
                        g = lin_add(P.lin(bb), lin_const(bits - 1), -1)
                        o = Ob("G-SHIFT", fn.path, b, op.lower(), "%s %s %s" % (self.stable(a, fn), op, self.stable(bb, fn)),
                               info["sp"], [(g, "amount <= %d" % (bits - 1))], {"a": a, "b": bb, "bits": bits})
                        obs.append(o)
                    else:
                        if "arith" not in classes:
                            continue
                        o = Ob("G-NOWRAP", fn.path, b, op.lower(), "%s %s %s" % (self.stable(a, fn), op, self.stable(bb, fn)),
                               info["sp"], [], {"a": a, "b": bb, "op": op, "tk": an.vtype.get(("bin", op, a, bb)) or an.vtype.get(a)})
                        obs.append(o)
                elif mk in ("DivisionByZero", "RemainderByZero") and "div" in classes:
                    a = info["a"]
                    o = Ob("G-DIV", fn.path, b, mk, self.stable(a, fn), info["sp"], [], {"a": a})
                    obs.append(o)
                elif mk == "OverflowNeg" and "arith" in classes:
                    o = Ob("G-NOWRAP", fn.path, b, "neg", self.stable(info["a"], fn), info["sp"], [], {"a": info["a"], "op": "Neg"})
                    obs.append(o)
            elif k == "call":
                v = info["value"]
                callee = info["callee"] or ""
                base = info["base"] or ""
                if v[0] in ("slice", "slicefrom", "sliceto") and "slice" in classes:
                    S = v[1]
                    ln = an.len_of(S)
                    goals = []
                    if v[0] == "slice":
                        goals.append((lin_add(P.lin(v[2]), P.lin(v[3]), -1), "start <= end"))
                        goals.append((lin_add(P.lin(v[3]), P.lin(ln), -1), "end <= len"))
                    elif v[0] == "slicefrom":
                        goals.append((lin_add(P.lin(v[2]), P.lin(ln), -1), "start <= len"))
                    else:
                        goals.append((lin_add(P.lin(v[2]), P.lin(ln), -1), "end <= len"))
                    o = Ob("G-GUARD", fn.path, b, v[0], self.stable(v, fn), info["sp"], goals, {"value": v, "len": ln})
                    obs.append(o)
                elif "panic" in classes and self.is_failure_call(base, callee):
                    o = Ob("G-PANIC", fn.path, b, self.failure_kind(base, callee),
                           self.failure_desc(fn, info), info["sp"], [], {"info": info})
                    obs.append(o)
                elif "unchecked" in classes and self.is_unchecked_call(base, callee):
                    o = Ob("G-UNCHECKED", fn.path, b, base.split("::")[-1], self.stable(("call", callee, tuple(info["args"])), fn),
                           info["sp"], [], {"info": info})
                    obs.append(o)
        # stable keys
        seen = {}
        for o in obs:
            base = "%s:%s:%s:%s" % (o.rule, short(fn.path), o.kind, o.desc)
            n = seen.get(base, 0) + 1
            seen[base] = n
            o.key = base if n == 1 else "%s#%d" % (base, n)
        return obs

    FAIL_PREFIX = ("core::panicking::", "std::rt::begin_panic", "core::option::expect_failed",
                   "core::result::unwrap_failed", "core::option::unwrap_failed")

    def is_failure_call(self, base, callee):
        for n in (base, callee):
            if not n:
                continue
            if n.startswith(self.FAIL_PREFIX):
                return True
            if n in ("core::option::{impl#0}::unwrap", "core::option::{impl#0}::expect",
                     "core::result::{impl#0}::unwrap", "core::result::{impl#0}::expect",
                     "core::slice::{impl#0}::copy_from_slice"):
                return True
        return False

    def failure_kind(self, base, callee):
        n = base or callee
        last = n.split("::")[-1]
        if n.startswith("core::panicking::") or n.startswith("std::rt::"):
            return "panic:" + last
        return last

    def failure_desc(self, fn, info):
        base = info["base"] or ""
        args = info["args"]
        if base.startswith("core::panicking::") or base.startswith("std::rt::"):
            # message if it is a constant
            for a in args:
                msg = self._const_str(a)
                if msg:
                    return msg
            return base.split("::")[-1]
        return self.stable(args[0], fn) if args else ""

    def _const_str(self, v):
        found = []

        def f(x):
            if x[0] == "bytes" and x[1]:
                try:
                    found.append(x[1].decode("utf8"))
                except Exception:
                    pass
        walk(v, f)
        return found[0] if found else None

    def is_unchecked_call(self, base, callee):
        n = base.split("::")[-1]
        return n in ("get_unchecked", "get_unchecked_mut", "from_utf8_unchecked", "from_raw_parts", "from_raw_parts_mut")


def short(path):
    """function path without crate prefix and impl numbering noise kept (impl#N is stable
    under edits that do not add impls above it; the last two segments are what a reader needs)"""
    parts = path.split("::")
    return "::".join(parts[1:])


# ======================================================================================
# decision procedures (methods added to Engine)
# ======================================================================================
def _entry_atom_to_placeholder(atom):
    """callee entry-state atoms -> placeholders usable at call sites"""
    if atom[0] == "param":
        return ("P", atom[1])
    if atom[0] == "proj":
        # a field of a by-value parameter (newtype wrappers such as Time(u64))
        path = []
        x = atom
        while x[0] == "proj":
            path.append(x[2])
            x = x[1]
        if x[0] == "param":
            return ("PP", x[1], tuple(reversed(path)))
    if atom[0] == "len" and atom[1][0] == "param":
        return ("PL", atom[1][1])
    if atom[0] == "init" and atom[1][0] == "deref" and atom[1][1][0] == "param":
        return ("PI", atom[1][1][1])
    return None


def _is_result(fn):
    return fn.output is not None and fn.output["s"].startswith(("std::result::Result<", "core::result::Result<", "Result<"))


def _is_option(fn):
    return fn.output is not None and fn.output["s"].startswith(("std::option::Option<", "core::option::Option<", "Option<"))


def _facts(self, fn, node, extra=()):
    key = (fn.path, node)
    c = self._facts_cache.get(key) if hasattr(self, "_facts_cache") else None
    if not hasattr(self, "_facts_cache"):
        self._facts_cache = {}
    if key in self._facts_cache and not extra:
        return self._facts_cache[key]
    an = self.an(fn)
    P = self.prover(fn)
    base = list(P.facts_at(node))
    out = list(base)
    out.extend(extra)
    pending = []        # (call info, payload, conditional postconditions) whose precondition is not yet established
    # summaries of in-crate callees
    ok_calls = []
    for f in base:
        if f[0] == "variant":
            V, k = f[1], f[2]
            if V[0] == "try" and k == 0:
                ok_calls.append((V[1], ("proj", ("proj", V, ("dc", 0)), ("f", 0))))
            elif V[0] == "call":
                ok_calls.append((V, ("proj", ("proj", V, ("dc", k)), ("f", 0)), k))
    for d in an.cfg.dominators(node):
        ec = an.edge_cond.get(d)
        if ec is not None and ec[0] == "callret":
            info = an.term[ec[1]]
            callee = info["callee"]
            if self.is_local(callee):
                cf = self.F.fns[callee]
                summ = self.summary(cf)
                self._instantiate(fn, info, summ.get("always", []), None, out)
                if summ.get("cond_always"):
                    pending.append((info, None, summ["cond_always"]))
    for item in ok_calls:
        V = item[0]
        if V[0] != "call" or not self.is_local(V[1]):
            continue
        site = V[3]
        if site is None:
            # pure call: everything needed is in the value itself
            info = {"args": list(V[2]), "site": None, "pre": [None] * len(V[2]), "value": V}
        else:
            if site[0] != fn.path:
                continue
            info = an.term.get(site[1])
            if info is None or info["kind"] != "call":
                continue
        cf = self.F.fns[V[1]]
        summ = self.summary(cf)
        if _is_result(cf):
            variant_ok = (len(item) == 2) or item[2] == 0
            if variant_ok:
                self._instantiate(fn, info, summ.get("ok", []), item[1], out)
                if summ.get("cond_ok"):
                    pending.append((info, item[1], summ["cond_ok"]))
        elif _is_option(cf):
            if len(item) == 3 and item[2] == 1:
                self._instantiate(fn, info, summ.get("ok", []), item[1], out)
                if summ.get("cond_ok"):
                    pending.append((info, item[1], summ["cond_ok"]))
    # conditional postconditions ("a cursor that was inside the input on entry is inside it on return"): the
    # precondition is proved from what is known so far; repeated until nothing new is established
    for _round in range(4):
        progress = False
        for item in list(pending):
            info, payload, conds = item
            left = []
            for pre, post in conds:
                tmp = []
                self._instantiate(fn, info, [pre], payload, tmp)
                if tmp and _cheaply_implied(P, tmp[0][1], out):
                    self._instantiate(fn, info, [post], payload, out)
                    progress = True
                else:
                    left.append((pre, post))
            pending.remove(item)
            if left:
                pending.append((info, payload, left))
        if not progress:
            break
    self.iter_facts(fn, base, out)
    if not extra:
        self._facts_cache[key] = out
    return out


def _cheaply_implied(P, g, facts):
    """g <= 0 follows from one fact with the same variable part, or from a shallow search"""
    gn = lin_norm(g)
    if not gn[1]:
        return gn[0] <= 0
    for f in facts:
        if f[0] == "le":
            fl = lin_norm(f[1])
            if fl[1] == gn[1] and fl[0] >= gn[0]:
                return True
    return P.prove_le0(g, facts, 1)


def _instantiate(self, fn, info, lins, payload, out):
    """turn callee summary facts (over placeholders) into caller facts"""
    if not lins:
        return
    an = self.an(fn)
    P = self.prover(fn)
    args = info["args"]
    site = info["site"]
    mapping = {}
    for i, a in enumerate(args):
        mapping[("P", i + 1)] = a
        mapping[("PL", i + 1)] = an.len_of(a)
        if site is not None:
            mapping[("PI", i + 1)] = info["pre"][i]
            mapping[("PF", i + 1)] = ("clob", site, i)
    variants = {(f[1], f[2]) for f in out if f[0] == "variant"}
    for l in lins:
        ok = True
        m2 = dict(mapping)
        for a in lin_atoms(l):
            if a[0] == "RV":
                cur = payload if payload is not None else info["value"]
                for el in a[1]:
                    if el[0] == "dc" and (cur, el[1]) not in variants:
                        ok = False      # payload variant not established on this path
                        break
                    cur = ("proj", cur, el)
                m2[a] = cur
            elif a not in m2:
                ok = False
        if ok:
            out.append(("le", lin_subst(l, m2, P)))


def _proj_path(v, path):
    for el in path:
        v = ("proj", v, el)
    return v


def _summary(self, cf):
    """postconditions of an in-crate function, over placeholders:
         always: hold at every normal return;  ok: hold at every return constructing Ok/Some.
    Functions on a recursive cycle are solved together as a greatest fixpoint (partial
    correctness: a postcondition may be assumed for the recursive calls while it is proved)."""
    s = self._summ.get(cf.path)
    if s is not None:
        return s
    if cf.path in self._assume:
        return self._assume[cf.path]
    if cf.path in self._in_progress:
        return {}
    comp = self.scc_of(cf.path)
    if comp is None:
        self._in_progress.add(cf.path)
        try:
            s = self._compute_summary(cf)
        finally:
            self._in_progress.discard(cf.path)
        self._summ[cf.path] = s
        return s
    members = [self.F.fns[p] for p in sorted(comp)]
    for g in members:
        self._in_progress.add(g.path)
    try:
        # start from "every candidate holds"
        for g in members:
            self._assume[g.path] = {}
        start = {}
        for g in members:
            start[g.path] = self._compute_summary(g, verify=False)
        self._assume.update(start)
        for _ in range(8):
            self.drop_fact_caches(comp)
            new = {}
            for g in members:
                new[g.path] = self._compute_summary(g)
            if all(set(new[p].get("ok", [])) == set(self._assume[p].get("ok", [])) and
                   set(new[p].get("always", [])) == set(self._assume[p].get("always", [])) for p in new):
                break
            self._assume.update(new)
        else:
            new = {p: {} for p in new}
    finally:
        for g in members:
            self._in_progress.discard(g.path)
            self._assume.pop(g.path, None)
    self.drop_fact_caches(comp)
    for p_, v_ in new.items():
        self._summ[p_] = v_
    return self._summ[cf.path]


def _scc_of(self, path):
    """the recursive cycle (set of paths) a function belongs to, or None"""
    if self._sccs is None:
        from .callgraph import CallGraph
        G = CallGraph(self.F)
        import sys
        sys.setrecursionlimit(20000)
        index, low, on, stack, out = {}, {}, set(), [], {}
        counter = [0]

        def strong(v):
            index[v] = low[v] = counter[0]
            counter[0] += 1
            stack.append(v)
            on.add(v)
            for w in G.out.get(v, ()):
                if w not in self.F.fns:
                    continue
                if w not in index:
                    strong(w)
                    low[v] = min(low[v], low[w])
                elif w in on:
                    low[v] = min(low[v], index[w])
            if low[v] == index[v]:
                comp = set()
                while True:
                    w = stack.pop()
                    on.discard(w)
                    comp.add(w)
                    if w == v:
                        break
                if len(comp) > 1 or v in G.out.get(v, ()):
                    for w in comp:
                        out[w] = comp
        for v in sorted(self.F.fns):
            if v not in index:
                strong(v)
        self._sccs = out
    return self._sccs.get(path)


def _drop_fact_caches(self, comp):
    if hasattr(self, "_facts_cache"):
        for k in [k for k in self._facts_cache if k[0] in comp]:
            del self._facts_cache[k]


def _ret_payload(v):
    """(kind, payload) of a returned value: kind in ok/err/some/none/plain/unknown"""
    if v[0] == "agg":
        k = v[1]
        if k.endswith(":Ok"):
            return "ok", v[2][0]
        if k.endswith(":Err"):
            return "err", v[2][0]
        if k.endswith(":Some"):
            return "ok", v[2][0]
        if k.endswith(":None"):
            return "err", None
    if v[0] == "call" and v[1].endswith("from_residual"):
        return "err", None      # `?` propagating Err / None
    return "unknown", v


def _compute_summary(self, cf, verify=True):
    an = self.an(cf)
    P = self.prover(cf)
    cfg = an.cfg
    wraps = _is_result(cf) or _is_option(cf)
    rets = []
    for b in cfg.block_rpo():
        info = an.term.get(b)
        if info and info["kind"] == "return":
            rets.append(b)
    if not rets:
        return {}
    # classify return paths by the value of _0.  A return block is usually a join; look at
    # the incoming edges' states to separate Ok and Err constructions.
    groups = {"ok": [], "err": [], "unknown": []}
    loops = cfg.natural_loops()
    work = []
    for r in rets:
        work.append((r, an.state_before_term(r), an.read(an.state_before_term(r), ("local", 0)), 0))
    seen_pts = set()

    def first_join_phi(v):
        """a phi (not at a loop header) occurring as the value or as an aggregate leaf"""
        if v[0] == "phi" and v[1] not in loops:
            return v
        if v[0] == "agg":
            for x in v[2]:
                r_ = first_join_phi(x)
                if r_ is not None:
                    return r_
        return None

    def subst(v, phi, nv):
        if v == phi:
            return nv
        if v[0] == "agg":
            return ("agg", v[1], tuple(subst(x, phi, nv) for x in v[2]))
        return v

    while work:
        node, st, v, depth = work.pop()
        if (node, v) in seen_pts:
            continue
        seen_pts.add((node, v))
        ph = first_join_phi(v) if depth < 60 else None
        if ph is not None and cfg.dominates(ph[1], node if node < cfg.nnodes else ph[1]):
            expanded = False
            for e in cfg.in_edges[ph[1]]:
                st2 = an.out_state.get(e.src)
                if st2 is not None:
                    work.append((e.node, st2, subst(v, ph, an.read(st2, ph[2])), depth + 1))
                    expanded = True
            if expanded:
                continue
        kind, payload = _ret_payload(v) if wraps else ("ok", v)
        groups[kind if kind in groups else "unknown"].append((node, st, payload))
    okpts = groups["ok"] + groups["unknown"]
    if not okpts:
        return {}
    # candidate postconditions
    slice_params = []
    cursor_params = []
    for i in range(1, cf.argc + 1):
        tk = an.local_tk[i]
        if tk["k"] == "ref":
            to = tk["to"]
            if to["k"] == "slice" or to["k"] == "str":
                slice_params.append(i)
            elif to["k"] in ("uint",) and tk["mut"]:
                cursor_params.append(i)
    cands = []
    for p in cursor_params:
        for q in slice_params:
            cands.append(lin_add(lin_add((0, ((("PF", p), 1),)), (0, ((("PL", q), 1),)), -1), lin_const(1)))  # PF < PL
            cands.append(lin_add((0, ((("PF", p), 1),)), (0, ((("PL", q), 1),)), -1))                      # PF <= PL
        cands.append(lin_add((0, ((("PI", p), 1),)), (0, ((("PF", p), 1),)), -1))                              # PI <= PF
        cands.append(lin_add(lin_add((0, ((("PI", p), 1),)), (0, ((("PF", p), 1),)), -1), lin_const(1)))      # PI < PF
    # integer leaves of the payload, with the projection path a caller uses to reach them
    def leaves(v, path, out_):
        if v is None:
            return
        if v[0] == "agg":
            k = v[1]
            if k == "tuple":
                for i_, x in enumerate(v[2]):
                    leaves(x, path + (("f", i_),), out_)
                return
            if k.startswith("adt:core::option::Option:"):
                if k.endswith(":Some"):
                    leaves(v[2][0], path + (("dc", 1), ("f", 0)), out_)
                return
            return
        tk = an.vtype.get(v)
        if tk is not None and tk["k"] == "uint" and tk_bits(tk) == 64:
            out_.add(path)
        elif tk is None and v[0] in ("bin", "phi", "const", "clob", "len"):
            out_.add(path)

    comps = set()
    for _, _, pl in okpts:
        leaves(pl, (), comps)
    for c in sorted(comps):
        rv = (0, ((("RV", c), 1),))
        for q in slice_params:
            cands.append(lin_add(rv, (0, ((("PL", q), 1),)), -1))                         # RV <= PL
            cands.append(lin_add(lin_add(rv, (0, ((("PL", q), 1),)), -1), lin_const(1)))  # RV < PL
        cands.append(lin_add(lin_const(1), rv, -1))                                       # 1 <= RV
    # exported entry-only facts from the first ok point
    node0 = okpts[0][0]
    for f in self.facts(cf, node0):
        if f[0] != "le":
            continue
        l = f[1]
        tr = []
        ok = True
        for a, k in l[1]:
            ph = _entry_atom_to_placeholder(a)
            if ph is None:
                ok = False
                break
            tr.append((ph, k))
        if ok and tr:
            cands.append((l[0], tuple(tr)))

    SKIP = "skip"

    def concretize(l, st, payload):
        mapping = {}
        for a in lin_atoms(l):
            if a[0] == "P":
                mapping[a] = ("param", a[1])
            elif a[0] == "PL":
                mapping[a] = an.len_of(("param", a[1]))
            elif a[0] == "PI":
                mapping[a] = ("init", ("deref", ("param", a[1])))
            elif a[0] == "PF":
                mapping[a] = an.read(st, ("deref", ("param", a[1])))
            elif a[0] == "RV":
                if payload is None:
                    return SKIP
                v = payload
                for el in a[1]:
                    if el[0] == "f":
                        if v[0] == "agg" and el[1] < len(v[2]):
                            v = v[2][el[1]]
                        else:
                            v = ("proj", v, el)
                    else:
                        if v[0] == "agg" and v[1].startswith("adt:"):
                            want = {1: ":Some", 0: ":None"}.get(el[1])
                            if want and not v[1].endswith(want):
                                return SKIP
                        else:
                            v = ("proj", v, el)
                mapping[a] = v
        return lin_subst(l, mapping, P)

    def holds_everywhere(l, pts):
        for node, st, payload in pts:
            g = concretize(l, st, payload)
            if g is None:
                return False
            if g == SKIP:
                continue
            facts = self.facts(cf, node)
            if P.prove_le0(g, facts):
                continue
            if self.prove_inductive(cf, g, node, facts):
                continue
            return False
        return True

    ok_facts = []
    seen = set()
    for l in cands:
        l = lin_norm(l)
        if l in seen:
            continue
        seen.add(l)
        if not verify or holds_everywhere(l, okpts):
            ok_facts.append(l)
    always = []
    if not wraps:
        always = list(ok_facts)
    else:
        allpts = okpts + groups["err"]
        for l in ok_facts:
            if any(a[0] == "RV" for a in lin_atoms(l)):
                continue
            if not verify or holds_everywhere(l, groups["err"]):
                always.append(l)
    # conditional postconditions: a cursor that was inside the slice on entry is inside it on return
    cond_ok, cond_always = [], []
    if verify:
        for p in cursor_params:
            for q in slice_params:
                pre = lin_norm(lin_add((0, ((("PI", p), 1),)), (0, ((("PL", q), 1),)), -1))      # PI <= PL
                post = lin_norm(lin_add((0, ((("PF", p), 1),)), (0, ((("PL", q), 1),)), -1))     # PF <= PL
                if post in ok_facts:
                    continue
                pre_c = concretize(pre, okpts[0][1], None)
                if pre_c is None or pre_c == SKIP:
                    continue
                assume = [("le", pre_c)]

                def holds_under(pts):
                    for node, st, payload in pts:
                        g = concretize(post, st, payload)
                        if g is None:
                            return False
                        if g == SKIP:
                            continue
                        facts = self.facts(cf, node, tuple(assume))
                        if P.prove_le0(g, facts) or self.prove_inductive(cf, g, node, facts, 0, tuple(assume)):
                            continue
                        return False
                    return True
                if holds_under(okpts):
                    cond_ok.append((pre, post))
                    if not wraps or holds_under(groups["err"]):
                        cond_always.append((pre, post))
    return {"ok": ok_facts, "always": always, "cond_ok": cond_ok, "cond_always": cond_always}


def fn_block_has_stmts(cf, b):
    return any(s["s"] == "assign" for s in cf.blocks[b]["stmts"])


def _loop_of(cfg, h):
    loops = getattr(cfg, "_loops", None)
    if loops is None:
        loops = cfg.natural_loops()
        cfg._loops = loops
    return loops.get(h)


def _defined_in(v, fnpath, blocks):
    """does value v mention something defined inside the given block set?"""
    hit = []

    def f(x):
        if x[0] == "phi" and x[1] in blocks:
            hit.append(x)
        elif x[0] in ("clob", "call", "icall") and isinstance(x[-1 if x[0] != "clob" else 1], tuple):
            site = x[1] if x[0] == "clob" else x[-1]
            if isinstance(site, tuple) and len(site) == 2 and site[0] == fnpath and site[1] in blocks:
                hit.append(x)
    walk(v, f)
    return bool(hit)


def _canon_phi(an, v, busy=None):
    """v with joins that always carry one value replaced by that value: a join all of whose inputs (ignoring itself and
    after the same simplification of the inputs) are equal IS that input - a variable carried unchanged around a loop or
    through both arms of a branch"""
    if not isinstance(v, tuple) or not v or v[0] != "phi":
        return v
    memo = an.__dict__.setdefault("_canon_phi", {})
    if v in memo:
        return memo[v]
    if busy is None:
        busy = set()
    if v in busy:
        return v
    busy.add(v)
    vals = set()
    for e in an.cfg.in_edges[v[1]]:
        st = an.out_state.get(e.src)
        if st is None:
            continue
        x = an.read(st, v[2])
        if x == v:
            continue
        x = _canon_phi(an, x, busy)
        if x == v:
            continue
        vals.add(x)
    busy.discard(v)
    r = vals.pop() if len(vals) == 1 else v
    memo[v] = r
    return r


def _trivial_phi(an, p, depth=0):
    r = _canon_phi(an, p)
    return None if r == p else r


def _prove_inductive(self, fn, goal, node, facts, depth=0, hyps=()):
    """prove goal<=0 at node by case split over join phis and as an inductive invariant of the
    loop whose phi values it mentions.  `hyps` are induction hypotheses carried along."""
    if depth > 5:
        return False
    an = self.an(fn)
    P = self.prover(fn)
    cfg = an.cfg
    loops = cfg.natural_loops() if not hasattr(cfg, "_loops") else cfg._loops
    cfg._loops = loops
    phis = set()
    for a in lin_atoms(goal):
        def f(x):
            if x[0] == "phi":
                phis.add(x)
        walk(a, f)
    if not phis:
        return False
    # ---- a join whose inputs are all the same value (or itself: a variable carried unchanged around a loop) IS that value
    triv = {}
    for p in phis:
        w = _trivial_phi(an, p)
        if w is not None:
            triv[p] = w
    if triv and all(p in lin_atoms(goal) for p in triv):
        g2 = lin_subst(goal, triv, P)
        if g2 != goal:
            if P.prove_le0(g2, facts):
                return True
            return self.prove_inductive(fn, g2, node, facts, depth, hyps)
    # ---- case split over a join (non-loop) phi
    joins = sorted({p[1] for p in phis if p[1] not in loops}, key=lambda h: -len(cfg.dominators(h)))
    for J in joins:
        if not cfg.dominates(J, node):
            continue
        mine = {p for p in phis if p[1] == J}
        if not all(p in lin_atoms(goal) for p in mine):
            continue  # nested inside a non-linear atom
        for flat in (False, True):
            good = True
            n_in = 0
            ways = []
            for e in cfg.in_edges[J]:
                st = an.out_state.get(e.src)
                if st is None:
                    continue
                mp = {p: an.read(st, p[2]) for p in mine}
                ways.append((e, mp, []))
            if flat:
                # second attempt: when exactly one joined value is at stake and what flows in is itself the value of an
                # earlier (non-loop) join, that join's ways in are taken instead, so an if / else-if ladder is one flat
                # case split instead of a recursion as deep as the ladder
                if len(mine) != 1:
                    break
                (p0,) = tuple(mine)
                grew_any = False
                for _ in range(40):
                    grew = False
                    nw = []
                    for e, mp, extra in ways:
                        v = mp[p0]
                        last_src = cfg.edges[extra[-1] - cfg.nblocks].src if extra else e.src
                        if v[0] == "phi" and v[1] not in loops and v[1] != J and len(nw) + len(ways) < 80 and \
                                cfg.dominates(v[1], last_src):
                            for e2 in cfg.in_edges[v[1]]:
                                st2 = an.out_state.get(e2.src)
                                if st2 is None:
                                    continue
                                nw.append((e, {p0: an.read(st2, v[2])}, extra + [e2.node]))
                            grew = grew_any = True
                        else:
                            nw.append((e, mp, extra))
                    ways = nw
                    if not grew:
                        break
                if not grew_any:
                    break
            for e, mapping, extra in ways:
                n_in += 1
                g2 = lin_subst(goal, mapping, P)
                fe = self.facts(fn, e.node) + list(hyps)
                for x in extra:
                    fe = fe + self.facts(fn, x)
                # facts established after the join about the phi hold for the incoming value too
                for f in facts:
                    if f[0] == "le" and (lin_atoms(f[1]) & mine):
                        fe.append(("le", lin_subst(f[1], mapping, P)))
                    elif f[0] in ("nec", "eqc") and f[1] in mine:
                        fe.append((f[0], mapping[f[1]], f[2]))
                if P.infeasible(fe):
                    continue        # this incoming edge cannot reach the site
                if P.prove_le0(g2, fe):
                    continue
                if self.prove_inductive(fn, g2, e.node, fe, depth + 1, hyps):
                    continue
                good = False
                break
            if good and n_in:
                return True
    # ---- loop induction
    headers = sorted({p[1] for p in phis if p[1] in loops}, key=lambda h: -len(cfg.dominators(h)))
    for H in headers:
        body = loops.get(H)
        if body is None or not cfg.dominates(H, node):
            continue
        mine = {p for p in phis if p[1] == H}
        ok = True
        for a in lin_atoms(goal):
            if a in mine:
                continue
            nested = []

            def g(x):
                if x[0] == "phi" and x[1] == H:
                    nested.append(x)
            walk(a, g)
            if nested:
                ok = False
                break
            if _defined_in(a, fn.path, body):
                ok = False
                break
        if not ok:
            continue
        hyp = ("le", goal)
        good = True
        for e in cfg.in_edges[H]:
            st = an.out_state.get(e.src)
            if st is None:
                continue
            mapping = {p: an.read(st, p[2]) for p in mine}
            g2 = lin_subst(goal, mapping, P)
            is_back = e.src in body
            hy = tuple(hyps) + ((hyp,) if is_back else ())
            fe = self.facts(fn, e.node) + list(hy)
            if P.prove_le0(g2, fe):
                continue
            if self.prove_inductive(fn, g2, e.node, fe, depth + 1, hy):
                continue
            good = False
            break
        if good:
            return True
    return False


Engine.facts = _facts
Engine._instantiate = _instantiate
Engine.summary = _summary
Engine.scc_of = _scc_of
Engine.drop_fact_caches = _drop_fact_caches
Engine._compute_summary = _compute_summary
Engine.prove_inductive = _prove_inductive


# ======================================================================================
# iterator payload ranges:  for i in a..b / a..=b / s.iter().enumerate()
# ======================================================================================
def _iter_origin(self, fn, v, seen=None):
    """(kind, lo, hi_exclusive_or_len) for an iterator value that is only ever advanced by next()"""
    an = self.an(fn)
    if seen is None:
        seen = set()
    if v in seen:
        return "same"
    seen.add(v)
    t = v[0]
    if t == "call":
        name = v[1]
        args = v[2]
        if name.startswith("core::slice::iter::") and name.endswith("::into_iter") and len(args) == 1:
            return ("sliceiter", args[0])
        if name.endswith("::into_iter") and len(args) == 1:
            return self.iter_origin(fn, args[0], seen)
        if name.endswith("::{impl#7}::new") and "range" in name and len(args) == 2:
            return ("incl", args[0], args[1])
        if name.endswith("::enumerate") and len(args) == 1:
            inner = self.iter_origin(fn, args[0], seen)
            if inner and inner != "same" and inner[0] == "sliceiter":
                return ("enum", inner[1])
            return None
        if name in ("core::slice::{impl#0}::iter",) and len(args) == 1:
            return ("sliceiter", args[0])
        return None
    if t == "agg" and v[1] == "adt:core::ops::range::Range:Range":
        return ("excl", v[2][0], v[2][1])
    if t == "phi":
        res = None
        for e in an.cfg.in_edges[v[1]]:
            st = an.out_state.get(e.src)
            if st is None:
                continue
            o = self.iter_origin(fn, an.read(st, v[2]), seen)
            if o is None:
                return None
            if o == "same":
                continue
            if res is None:
                res = o
            elif res != o:
                return None
        return res
    if t == "clob":
        site = v[1]
        if site[0] != fn.path:
            return None
        info = an.term.get(site[1])
        if info is None or info["kind"] != "call":
            return None
        if not (info["base"] or "").endswith("Iterator::next"):
            return None
        return self.iter_origin(fn, info["pre"][v[2]], seen)
    return None


def _iter_facts(self, fn, base_facts, out):
    an = self.an(fn)
    P = self.prover(fn)
    for f in base_facts:
        if f[0] != "variant" or f[2] != 1:
            continue
        V = f[1]
        if V[0] != "call" or not V[1].endswith("::next") or len(V) < 4:
            continue
        site = V[3]
        if site is None or site[0] != fn.path:
            continue
        info = an.term.get(site[1])
        if info is None or not (info["base"] or "").endswith("Iterator::next"):
            continue
        o = self.iter_origin(fn, info["pre"][0])
        if not o or o == "same":
            continue
        payload = ("proj", ("proj", V, ("dc", 1)), ("f", 0))
        if o[0] in ("excl", "incl"):
            lo, hi = P.lin(o[1]), P.lin(o[2])
            lp = P.lin(payload)
            out.append(("le", lin_add(lo, lp, -1)))                       # lo <= p
            if o[0] == "excl":
                out.append(("le", lin_add(lin_add(lp, hi, -1), lin_const(1))))   # p < hi
            else:
                out.append(("le", lin_add(lp, hi, -1)))                   # p <= hi
        elif o[0] == "enum":
            idx = ("proj", payload, ("f", 0))
            an.vtype.setdefault(idx, {"k": "uint", "bits": -1})
            ln = an.len_of(o[1])
            out.append(("le", lin_add(lin_add(P.lin(idx), P.lin(ln), -1), lin_const(1))))


Engine.iter_origin = _iter_origin
Engine.iter_facts = _iter_facts


# ======================================================================================
# verdicts
# ======================================================================================
RANK = {"const": 0, "param": 1, "cursor": 1, "callret": 2, "data": 5, "extern": 6, "unknown": 7, "nonlinear": 5}


def _atom_class(self, fn, a, seen=None):
    """classify an atom: const | param | cursor | data | extern | unknown | nonlinear
       cursor = loop phi / value left behind by an analysed in-crate helper, built from understood parts"""
    an = self.an(fn)
    if seen is None:
        seen = set()
    if a in seen:
        return "const"
    seen = seen | {a}
    t = a[0]
    fi = getattr(self, "free_inputs", None)
    if fi is not None and fi(a):
        return "cursor"         # declared unconstrained input of the property under check
    if t == "const":
        return "const"
    if t == "param":
        return "param"
    if t == "len":
        c = self.atom_class(fn, a[1], seen)
        return c
    if t in ("unsize", "ptrcast", "slice", "slicefrom", "sliceto", "byref"):
        cs = [self.atom_class(fn, x, seen) for x in a[1:] if isinstance(x, tuple)]
        return max(cs, key=lambda c: RANK[c]) if cs else "const"
    if t == "init":
        L = a[1]
        while L[0] in ("field", "index", "downcast", "cidx", "subslice"):
            L = L[1]
        if L[0] == "deref":
            return self.atom_class(fn, L[1], seen)
        return "unknown"
    if t == "phi":
        worst = "const"
        for e in an.cfg.in_edges[a[1]]:
            st = an.out_state.get(e.src)
            if st is None:
                continue
            v = an.read(st, a[2])
            for x in self.prover(fn).lin(v)[1]:
                c = self.atom_class(fn, x[0], seen)
                if RANK[c] > RANK[worst]:
                    worst = c
        return "cursor" if RANK[worst] <= 1 else worst
    if t == "clob":
        site = a[1]
        if site[0] == fn.path:
            info = an.term.get(site[1])
            if info and self.is_local(info["callee"]):
                return "cursor"
        return "extern"
    if t == "bin":
        cs = [self.atom_class(fn, a[2], seen), self.atom_class(fn, a[3], seen)]
        w = max(cs, key=lambda c: RANK[c])
        return w if RANK[w] >= 5 else "nonlinear"
    if t == "cast":
        return self.atom_class(fn, a[3], seen)
    if t == "call":
        if self.is_local(a[1]):
            return "callret"
        return "extern"
    if t == "proj":
        x = a
        while x[0] == "proj":
            x = x[1]
        if x[0] == "param":
            return "param"
        if x[0] == "try":
            x = x[1]
        if x[0] == "call" and x[1].endswith("::next") and len(x) > 3 and x[3] is not None and x[3][0] == fn.path:
            # the item of a range iterator: as understood as the range's own bounds (an index drawn from 0..n is a
            # cursor when n is one); the item of an enumerate over a slice likewise follows the slice
            info = an.term.get(x[3][1])
            if info is not None and info.get("pre") and info["pre"][0] is not None:
                o = self.iter_origin(fn, info["pre"][0])
                if o and o != "same" and o[0] in ("incl", "excl"):
                    cs = []
                    for bnd in (o[1], o[2]):
                        for at, k in self.prover(fn).lin(bnd)[1]:
                            cs.append(self.atom_class(fn, at, seen))
                    w = max(cs, key=lambda c: RANK[c]) if cs else "const"
                    return "cursor" if RANK[w] <= 1 else w
        if x[0] == "call" and self.is_local(x[1]):
            # component of the result of an analysed in-crate call: understood only if the
            # callee's proved postconditions say something about that component
            path = []
            y = a
            while y[0] == "proj":
                path.append(y[2])
                y = y[1]
            path.reverse()
            if y[0] == "try" and path[:2] == [("dc", 0), ("f", 0)]:
                path = path[2:]
            elif path[:1] == [("dc", 0)] or path[:1] == [("dc", 1)]:
                path = path[2:] if len(path) >= 2 else path
            summ = self.summary(self.F.fns[x[1]])
            for l in summ.get("ok", []):
                for at, k in l[1]:
                    # an upper bound on that component (positive coefficient in  lin <= 0)
                    if at[0] == "RV" and tuple(at[1]) == tuple(path) and k > 0 and len(l[1]) > 1:
                        return "callret"
            return "data"
        return "data"
    if t in ("elem", "try", "discr", "agg", "elemfe", "subslice", "aload"):
        return "data"
    if t in ("static", "bytes", "promoted", "kconst", "fn"):
        return "const"
    return "unknown"


def _site_unconditional(self, fn, block):
    """the block runs whenever the function is entered and the preceding calls succeed"""
    P = self.prover(fn)
    for f in P.facts_at(block):
        if f[0] in ("variant", "notvariant"):
            V = f[1]
            if V[0] == "try" or V[0] == "call":
                continue
            return False
        return False
    return True


def _raw_elem_of_param(self, fn, a):
    """a is (a widening of) an element of a parameter-rooted slice: arbitrary input data"""
    while a[0] == "cast":
        a = a[3]
    if a[0] != "elem":
        return False
    base = a[1]
    for _ in range(8):
        if base[0] in ("slice", "slicefrom", "sliceto", "unsize", "ptrcast"):
            base = base[1]
        elif base[0] == "call" and base[1].endswith("::as_bytes") and base[2]:
            base = base[2][0]
        else:
            break
    return base[0] == "param"


def _decide(self, fn, ob, scope=None):
    if ob.rule == "G-GUARD":
        return self.decide_guard(fn, ob, scope)
    if ob.rule == "G-NOWRAP":
        return self.decide_nowrap(fn, ob, scope)
    if ob.rule == "G-NARROW":
        return self.decide_narrow(fn, ob, scope)
    if ob.rule == "G-SHIFT":
        return self.decide_shift(fn, ob, scope)
    if ob.rule == "G-PANIC":
        return self.decide_panic(fn, ob, scope)
    ob.verdict, ob.why = UNDECIDED, "no decision procedure"
    return ob


def _open_goals(self, fn, ob):
    P = self.prover(fn)
    facts = self.facts(fn, ob.block)
    out = []
    for g, text in ob.goals:
        if self.prove(fn, g, ob.block, facts):
            continue
        out.append((g, text))
    return out


def _prove(self, fn, g, node, facts):
    P = self.prover(fn)
    if P.prove_le0(g, facts):
        return True
    if self.prove_inductive(fn, g, node, facts):
        return True
    # eliminate a non-phi atom with one fact, then try the loop-invariant argument on what is left
    gat = lin_atoms(g)
    for f in facts:
        if f[0] != "le":
            continue
        fa = lin_atoms(f[1])
        if not (fa & gat):
            continue
        g2 = lin_norm(lin_add(g, f[1], -1))
        a2 = lin_atoms(g2)
        if len([a for a in a2 if a[0] != "phi"]) < len([a for a in gat if a[0] != "phi"]) and \
                any(a[0] == "phi" for a in a2):
            if self.prove_inductive(fn, g2, node, facts):
                return True
    return False


def _classify_open(self, fn, ob, open_goals):
    """worst atom class over the open goals, and the atoms"""
    worst = "const"
    atoms = set()
    for g, _ in open_goals:
        for a in lin_atoms(g):
            atoms.add(a)
            c = self.atom_class(fn, a)
            if RANK[c] > RANK[worst]:
                worst = c
    return worst, atoms


def _decide_guard(self, fn, ob, scope):
    og = self.open_goals(fn, ob)
    if not og:
        ob.verdict, ob.why = PROVED, "guarded: " + "; ".join(t for _, t in ob.goals)
        return ob
    an = self.an(fn)
    P = self.prover(fn)
    # constant table indexed by a widened narrow integer taken from raw input
    if ob.kind == "index":
        idx, ln = ob.extra["index"], ob.extra["len"]
        if ln[0] == "const":
            l = P.lin(idx)
            if len(l[1]) == 1 and l[1][0][1] == 1 and l[0] == 0:
                a = l[1][0][0]
                lo, hi = P.interval(a, self.facts(fn, ob.block))
                if hi >= ln[1] and (self.raw_elem_of_param(fn, a) or self._rooted_in_param(a)) and hi < INF:
                    ob.verdict = VIOLATION
                    ob.why = "table of %d entries indexed by raw input byte (range 0..%d) with no bound check" % (ln[1], hi)
                    return ob
    # a length test that compares exactly the quantities of the open goal but with a smaller constant: the author tested
    # the right things and left part of the extent out (a header, a length prefix) - values that pass the test and break
    # the bound exist
    if ob.kind in ("slice", "sliceto", "slicefrom", "index"):
        facts_here = P.explicit_facts_at(ob.block)
        for g, text in og:
            gn = lin_norm(g)
            if not gn[1]:
                continue
            for f in facts_here:
                if f[0] != "le":
                    continue
                fl = lin_norm(f[1])
                if fl[1] == gn[1] and fl[0] < gn[0] and gn[0] - fl[0] <= 64:
                    ob.verdict = VIOLATION
                    ob.why = ("%s is not implied by the test before it, which compares the same quantities but admits %d more than "
                              "fit: inputs in that window pass the test and index out of range (a panic where an error is due)"
                              % (text, gn[0] - fl[0]))
                    return ob
    worst, atoms = self.classify_open(fn, ob, og)
    has_param = any(self.atom_class(fn, a) == "param" and not (a[0] == "len") for a in atoms)
    what = "; ".join(t for _, t in og)
    if RANK[worst] >= 5:
        ob.verdict = UNDECIDED
        ob.why = "not proved (%s); operand class %s (stored data / callee result / external)" % (what, worst)
        return ob
    if has_param:
        if self.site_unconditional(fn, ob.block):
            ob.verdict = UNDECIDED
            ob.why = "precondition on caller: " + what
            ob.extra["precond"] = og
            return ob
        ob.verdict, ob.why = UNDECIDED, "parameter-dependent and conditional: " + what
        return ob
    # a dominating guard that mentions the same length together with something the engine cannot
    # evaluate (a callee result, stored data) may be exactly the missing bound: do not alarm
    lens = {a for a in atoms if a[0] == "len"}
    for f in self.facts(fn, ob.block):
        if f[0] != "le":
            continue
        fa = lin_atoms(f[1])
        if fa & lens:
            for a in fa:
                inner = a[1] if a[0] == "len" else a
                opaque = inner[0] in ("call", "icall", "proj", "elem", "aload", "try", "unknown") and not (
                    getattr(self, "free_inputs", None) and self.free_inputs(a)) and RANK[self.atom_class(fn, a)] >= 2
                if RANK[self.atom_class(fn, a)] >= 5 or opaque:
                    ob.verdict = UNDECIDED
                    ob.why = "a guard on the same length involves %s, which is not evaluated: %s" % (
                        self.stable(a, fn)[:60], what)
                    return ob
    ob.verdict = VIOLATION
    ob.why = "no guard establishes %s on every path (operands: cursor/constants only)" % what
    return ob


def _retlin(self, cf):
    """return value of an in-crate integer function as a linear form over its entry placeholders"""
    if cf.path in self._retlin:
        return self._retlin[cf.path]
    self._retlin[cf.path] = None
    if cf.output is None or cf.output["t"]["k"] not in ("uint", "int"):
        return None
    an = self.an(cf)
    P = self.prover(cf)
    vals = set()
    for b, info in an.term.items():
        if info["kind"] == "return":
            vals.add(info["value"])
    if len(vals) != 1:
        return None
    v = vals.pop()
    l = P.lin(v)
    tr = []
    for a, k in l[1]:
        ph = _entry_atom_to_placeholder(a)
        if ph is None:
            ph = _param_tree_placeholder(a)
        if ph is None:
            return None
        tr.append((ph, k))
    res = (l[0], tuple(tr))
    self._retlin[cf.path] = res
    return res


def _param_tree_placeholder(a):
    """an atom that is a pure function of parameters only: ("PT", atom)"""
    ok = [True]

    def f(x):
        if x[0] in ("phi", "clob", "init", "elem", "proj", "try", "icall", "unknown"):
            ok[0] = False
        if x[0] == "call" and x[3] is not None:
            ok[0] = False
    walk(a, f)
    return ("PT", a) if ok[0] else None


def _subst_params(v, args):
    if not isinstance(v, tuple) or not v:
        return v
    if v[0] == "param":
        return args[v[1] - 1] if v[1] - 1 < len(args) else v
    return tuple(_subst_params(x, args) if isinstance(x, tuple) else x for x in v)


Engine.retlin = _retlin
Engine.atom_class = _atom_class
Engine.site_unconditional = _site_unconditional
Engine.raw_elem_of_param = _raw_elem_of_param
Engine.decide = _decide
Engine.open_goals = _open_goals
Engine.prove = _prove
Engine.classify_open = _classify_open
Engine.decide_guard = _decide_guard


# ======================================================================================
# G-NOWRAP / G-NARROW / G-SHIFT / G-PANIC
# ======================================================================================
def _type_max(tk):
    if tk is None:
        return None
    b = tk.get("bits")
    if tk["k"] == "uint":
        return (1 << (64 if b == -1 else b)) - 1
    if tk["k"] == "int":
        return (1 << ((64 if b == -1 else b) - 1)) - 1
    return None


def _is_usize(tk):
    return tk is not None and tk["k"] == "uint" and tk.get("bits") == -1


def _loop_carried(self, fn, ob):
    """is the arithmetic result fed back into one of its own operands around a loop?
       returns the loop header or None"""
    an = self.an(fn)
    a, b, op = ob.extra["a"], ob.extra["b"], ob.extra["op"]
    me = ("bin", op, a, b)
    phis = set()

    def f(x):
        if x[0] == "phi":
            phis.add(x)
    walk(a, f)
    walk(b, f)
    loops = an.cfg.natural_loops()
    for ph in phis:
        H = ph[1]
        if H not in loops:
            continue
        for e in an.cfg.in_edges[H]:
            if e.src not in loops[H]:
                continue
            st = an.out_state.get(e.src)
            if st is None:
                continue
            v = an.read(st, ph[2])
            hit = []

            def g(x):
                if x == me:
                    hit.append(1)
            walk(v, g)
            # the back-edge value may itself be a join phi of several updates
            if not hit and v[0] == "phi":
                for e2 in an.cfg.in_edges[v[1]]:
                    st2 = an.out_state.get(e2.src)
                    if st2 is not None:
                        walk(an.read(st2, v[2]), g)
            if hit:
                return H
    return None


def _loop_bounded(self, fn, H):
    """is the loop at header H driven by a range iterator with constant bounds?"""
    an = self.an(fn)
    loops = an.cfg.natural_loops()
    body = loops.get(H, set())
    for b in body:
        info = an.term.get(b)
        if info and info["kind"] == "call" and (info["base"] or "").endswith("Iterator::next"):
            o = self.iter_origin(fn, info["pre"][0])
            if o and o != "same" and o[0] in ("incl", "excl") and o[2][0] == "const":
                return True
            if o and o != "same" and o[0] in ("sliceiter", "enum") and _fixed_array_root(an, o[1]):
                return True
            if o and o != "same" and o[0] in ("sliceiter", "enum"):
                # a slice whose length was tested against a constant before the loop (`if (1..=19).contains(&n) { for b in &s[..n] ..`)
                try:
                    P = self.prover(fn)
                    ln = an.len_of(o[1])
                    if P.prove_le0(lin_add(P.lin(ln), lin_const(1 << 16), -1), self.facts(fn, H)):
                        return True
                except Exception:
                    pass
    return False


def _fixed_array_root(an, v):
    """v is (a sub-slice of) a fixed-size array: its length is bounded by a constant"""
    for _ in range(6):
        if not isinstance(v, tuple) or not v:
            return False
        tk = an.vtype.get(v)
        while tk is not None and tk["k"] in ("ref", "ptr"):
            tk = tk["to"]
        if tk is not None and tk["k"] == "array":
            return True
        if v[0] in ("slice", "slicefrom", "sliceto", "unsize", "ref", "deref", "init", "ptrcast", "proj") and len(v) > 1:
            v = v[1]
            continue
        if v[0] == "call" and v[1].startswith("core::slice::") and v[1].rsplit("::", 1)[-1] in (
                "split_at", "split_at_mut", "split_first", "split_last", "first_chunk", "last_chunk", "as_slice", "iter") and v[2]:
            v = v[2][0]         # parts of a slice are no longer than the slice
            continue
        return False
    return False


def _decide_nowrap(self, fn, ob, scope):
    an = self.an(fn)
    P = self.prover(fn)
    op = ob.extra.get("op")
    a, b = ob.extra.get("a"), ob.extra.get("b")
    tk = ob.extra.get("tk") or an.vtype.get(a)
    facts = self.facts(fn, ob.block)
    if op in ("Add", "Mul"):
        mx = _type_max(tk)
        if op == "Add":
            l = lin_add(P.lin(a), P.lin(b))
        else:
            l = P.lin(("bin", "Mul", a, b))
        if mx is not None:
            g = lin_add(l, lin_const(mx), -1)
            if P.prove_le0(g, facts) or self.prove_inductive(fn, g, ob.block, facts):
                ob.verdict, ob.why = PROVED, "result bounded by the type maximum"
                return ob
        if _is_usize(tk):
            ob.verdict, ob.why = PROVED, "usize size/cursor arithmetic (assumption A1)"
            ob.extra["assumed"] = "A1"
            return ob
        H = self.loop_carried(fn, ob)
        if H is not None:
            if self.loop_bounded(fn, H):
                ob.verdict, ob.why = UNDECIDED, "accumulator in a loop with constant trip count; bound not derived"
                return ob
            ob.verdict = VIOLATION
            ob.why = ("raw %s on a fixed-width accumulator whose trip count the input controls: "
                      "panics with overflow checks, wraps without" % op)
            return ob
        ob.verdict, ob.why = UNDECIDED, "not loop-carried; no bound derived"
        return ob
    if op == "Sub":
        signed = tk is not None and tk["k"] == "int"
        if signed:
            ob.verdict, ob.why = UNDECIDED, "signed subtraction"
            return ob
        g = lin_add(P.lin(b), P.lin(a), -1)
        if P.prove_le0(g, facts) or self.prove_inductive(fn, g, ob.block, facts):
            ob.verdict, ob.why = PROVED, "order fact b <= a holds"
            return ob
        if a[0] == "const" or b[0] == "const":
            ob.verdict, ob.why = UNDECIDED, "subtraction involving a constant without a recognised fact"
            return ob
        worst = "const"
        atoms = lin_atoms(g)
        for x in atoms:
            c = self.atom_class(fn, x)
            if RANK[c] > RANK[worst]:
                worst = c
        if RANK[worst] >= 5:
            ob.verdict, ob.why = UNDECIDED, "operands of class %s" % worst
            return ob
        if any(self.atom_class(fn, x) == "param" for x in atoms):
            ob.verdict, ob.why = UNDECIDED, "precondition on caller: b <= a"
            if self.site_unconditional(fn, ob.block):
                ob.extra["precond"] = [(g, "b <= a")]
            return ob
        ob.verdict = VIOLATION
        ob.why = "unsigned subtraction of two non-constant values with no dominating order fact"
        return ob
    if op == "Neg":
        lo, hi = P.interval_lin(P.lin(a), facts)
        tka = an.vtype.get(a)
        bits = tk_bits(tka) or 64
        if lo > -(1 << (bits - 1)):
            ob.verdict, ob.why = PROVED, "operand cannot be the type minimum"
            return ob
        # -(x as iN) with x an unsigned value of the same width: x == 2^(N-1) becomes iN::MIN, whose negation overflows
        if a[0] == "cast" and a[1] == "IntToInt":
            src = an.vtype.get(a[3])
            if src is not None and tk_unsigned(src) and tk_bits(src) == bits:
                slo, shi = P.interval_lin(P.lin(a[3]), facts)
                if shi >= (1 << (bits - 1)):
                    ob.verdict = VIOLATION
                    ob.why = ("negation of an unsigned value reinterpreted as signed: for the value %d the operand is the type "
                              "minimum (panic with overflow checks; values above it change sign)" % (1 << (bits - 1)))
                    return ob
    ob.verdict, ob.why = UNDECIDED, "operator %s" % op
    return ob


def _flows_to_layout(self, fn, ob):
    """does the truncated value reach a byte-encoding call, a store into a buffer, or the return value?"""
    an = self.an(fn)
    v = ob.extra["value"]
    why = []

    def has(x):
        hit = []

        def g(y):
            if y == v:
                hit.append(1)
        walk(x, g)
        return bool(hit)

    for b, info in an.term.items():
        if info["kind"] == "call":
            name = (info["base"] or "").rsplit("::", 1)[-1]
            if any(has(a) for a in info["args"]):
                if name in ("to_ne_bytes", "to_be_bytes", "to_le_bytes"):
                    why.append(name)
                elif self.is_local(info["callee"]) or name in ("from", "into", "from_u16", "push", "extend"):
                    why.append("passed to " + name)
        elif info["kind"] == "return":
            if has(info["value"]):
                why.append("returned")
    for (b, i), val in an.stmt_val.items():
        L = an.stmt_loc.get((b, i))
        if L is not None and L[0] in ("index", "field", "deref") and has(val):
            why.append("stored")
    return why


def _decide_narrow(self, fn, ob, scope):
    if not ob.goals:
        ob.verdict, ob.why = UNDECIDED, "float to int (saturating)"
        return ob
    og = self.open_goals(fn, ob)
    if not og:
        ob.verdict, ob.why = PROVED, "source bounded by the target type's maximum"
        return ob
    flows = self.flows_to_layout(fn, ob)
    if not flows:
        ob.verdict, ob.why = PROVED, "truncated value feeds no layout write or result (comparison only)"
        return ob
    worst, atoms = self.classify_open(fn, ob, og)
    if worst in ("extern", "unknown") or any(a[0] in ("elem", "proj") and not self.raw_elem_of_param(fn, a) for a in atoms
                                              if not (a[0] == "proj" and self._proj_of_local_call(a))):
        ob.verdict, ob.why = UNDECIDED, "source of class %s" % worst
        return ob
    ob.verdict = VIOLATION
    ob.why = "narrowing cast %s with no dominating range check; value is %s" % (ob.kind, ", ".join(sorted(set(flows))))
    return ob


def _proj_of_local_call(self, a):
    """projection of the result of an analysed in-crate call (e.g. the Ok payload of json_unescape)"""
    x = a
    while x[0] == "proj":
        x = x[1]
    if x[0] == "try":
        x = x[1]
    return x[0] == "call" and self.is_local(x[1])


def _decide_shift(self, fn, ob, scope):
    og = self.open_goals(fn, ob)
    if not og:
        ob.verdict, ob.why = PROVED, "shift amount below the bit width"
        return ob
    P = self.prover(fn)
    amt = ob.extra["b"]
    l = P.lin(amt)
    if len(l[1]) == 1 and l[1][0][1] == 1 and l[0] == 0:
        a = l[1][0][0]
        lo, hi = P.interval(a, self.facts(fn, ob.block))
        if hi >= ob.extra["bits"] and hi < INF and self._rooted_in_param(a):
            ob.verdict = VIOLATION
            ob.why = ("shift amount is a %d..%d value read from the object's own bytes with no bound check "
                      "(>= %d panics with overflow checks, is masked without)" % (max(lo, 0), hi, ob.extra["bits"]))
            return ob
    ob.verdict, ob.why = UNDECIDED, "shift amount not bounded"
    return ob


def _rooted_in_param(self, a):
    while a[0] == "cast":
        a = a[3]
    if a[0] != "elem":
        return False
    base = a[1]
    for _ in range(10):
        if base[0] in ("slice", "slicefrom", "sliceto", "unsize", "ptrcast"):
            base = base[1]
        elif base[0] == "init":
            L = base[1]
            while L[0] in ("field", "index", "downcast"):
                L = L[1]
            if L[0] == "deref":
                base = L[1]
            else:
                return False
        else:
            break
    return base[0] == "param"


def _decide_panic(self, fn, ob, scope):
    an = self.an(fn)
    P = self.prover(fn)
    facts = self.facts(fn, ob.block)
    info = ob.extra["info"]
    kind = ob.kind
    if P.infeasible(facts):
        ob.verdict, ob.why = PROVED, "unreachable: the guarding condition contradicts dominating facts"
        return ob
    if kind in ("unwrap", "expect"):
        recv = info["args"][0]
        # Some/Ok established by a fact or by construction
        for f in facts:
            if f[0] == "variant" and f[1] == recv:
                ok_variant = 1 if "option" in (info["base"] or "") else 0
                if f[2] == ok_variant:
                    ob.verdict, ob.why = PROVED, "variant established on every path"
                    return ob
        if recv[0] == "call" and recv[1].endswith(("::try_into", "::try_from")) and recv[2]:
            src = recv[2][0]
            ln = an.len_of(src)
            l = P.lin(ln)
            dst_tk = an.vtype.get(recv)
            n = None
            if dst_tk is not None and dst_tk["k"] == "adt" and dst_tk["args"]:
                t0 = dst_tk["args"][0]
                if t0["k"] == "array":
                    n = t0["n"]
            if n is not None and not l[1] and l[0] == n:
                ob.verdict, ob.why = PROVED, "slice of constant width %d converted to [u8; %d]" % (n, n)
                return ob
        ob.verdict, ob.why = UNDECIDED, "receiver variant not established"
        return ob
    if kind == "copy_from_slice":
        dst, src = info["args"][0], info["args"][1]
        ld, ls = P.lin(an.len_of(dst)), P.lin(an.len_of(src))
        d = lin_add(ld, ls, -1)
        if not d[1] and d[0] == 0:
            ob.verdict, ob.why = PROVED, "lengths are equal by construction"
            return ob
        if P.prove_le0(d, facts) and P.prove_le0(lin_scale(d, -1), facts):
            ob.verdict, ob.why = PROVED, "lengths proved equal"
            return ob
        ob.verdict, ob.why = UNDECIDED, "length equality not derived"
        return ob
    if kind.startswith("panic:"):
        last = kind.split(":", 1)[1]
        msg = ob.desc
        if last in ("panic_fmt", "panic_display", "panic_explicit", "begin_panic", "panic_str") or \
                (last == "panic" and not msg.startswith(("assertion", "internal error", "attempt to", "called `"))):
            if "internal error: entered unreachable" in msg or msg.startswith("assertion"):
                ob.verdict, ob.why = UNDECIDED, "assertion / unreachable marker"
                return ob
            ob.verdict = VIOLATION
            ob.why = "explicit panic on a condition that no dominating fact refutes"
            return ob
        ob.verdict, ob.why = UNDECIDED, "assertion whose condition is not refuted"
        return ob
    ob.verdict, ob.why = UNDECIDED, kind
    return ob


Engine.loop_carried = _loop_carried
Engine.loop_bounded = _loop_bounded
Engine.decide_nowrap = _decide_nowrap
Engine.flows_to_layout = _flows_to_layout
Engine.decide_narrow = _decide_narrow
Engine._proj_of_local_call = _proj_of_local_call
Engine.decide_shift = _decide_shift
Engine._rooted_in_param = _rooted_in_param
Engine.decide_panic = _decide_panic
