"""G-rules: partial operations (index, slice, raw arithmetic, narrowing cast, shift, explicit
failure) must be guarded on every path.  See DESIGN 3.1.

Verdicts: PROVED / VIOLATION / UNDECIDED.  A VIOLATION needs that every atom of the
obligation is *understood* (constants, parameters at an unconditional site, loop cursors,
cursors left behind by an in-crate helper whose body was analysed) and that no proof exists.
"""
from .sym import analyze, show, showloc, tk_bits, tk_unsigned, walk, callee_of
from .prove import (Prover, lin_add, lin_const, lin_scale, lin_atoms, lin_subst, lin_norm, INF)

PROVED, VIOLATION, UNDECIDED = "PROVED", "VIOLATION", "UNDECIDED"

LOCAL_CRATES = ("pocket_types::", "pocket_db::", "mmap_append::")


class Ob:
    def __init__(self, rule, fn, block, kind, desc, sp, goals=None, extra=None):
        self.rule = rule
        self.fn = fn
        self.block = block
        self.kind = kind
        self.desc = desc
        self.sp = sp
        self.goals = goals or []     # list of (lin, text): each lin <= 0 required
        self.extra = extra or {}
        self.verdict = UNDECIDED
        self.why = ""
        self.key = None

    def loc(self):
        sp = self.sp
        s = "%s:%d" % (sp["f"], sp["l"])
        if "x" in sp:
            s += " (in %s! %s:%d)" % (sp["x"], sp.get("xf", ""), sp.get("xl", 0))
        return s

    def to_json(self):
        return {"key": self.key, "rule": self.rule, "fn": self.fn, "kind": self.kind, "expr": self.desc,
                "at": self.loc(), "verdict": self.verdict, "why": self.why}


class Engine:
    def __init__(self, F):
        self.F = F
        self._prover = {}
        self._summ = {}
        self._retlin = {}
        self._in_progress = set()

    # ------------------------------------------------------------------ basics
    def an(self, fn):
        return analyze(fn, self.F)

    def prover(self, fn):
        p = self._prover.get(fn.path)
        if p is None:
            p = Prover(self.an(fn))
            p.engine = self
            p.fn = fn
            self._prover[fn.path] = p
        return p

    def is_local(self, path):
        return path is not None and path in self.F.fns

    def stable(self, v, fn):
        """line-number-free rendering used in keys"""
        an = self.an(fn)

        def s(x, d=0):
            if not isinstance(x, tuple) or not x:
                return str(x)
            if d > 10:
                return "..."
            t = x[0]
            if t == "clob":
                site = x[1]
                info = an.term.get(site[1]) if site[0] == fn.path else None
                nm = (info["callee"] if info and info.get("callee") else "?").split("::")[-1]
                return "after(%s).%d" % (nm, x[2])
            if t == "phi":
                return "loop(%s)" % sl(x[2], d + 1)
            if t == "call":
                return "%s(%s)" % (x[1].split("::")[-1], ",".join(s(a, d + 1) for a in x[2]))
            if t == "param":
                return fn.local_name(x[1])
            if t == "const":
                return str(x[1])
            if t == "init":
                return sl(x[1], d + 1)
            if t == "bin":
                sym = {"Add": "+", "Sub": "-", "Mul": "*", "Shl": "<<", "Shr": ">>", "BitAnd": "&", "BitOr": "|",
                       "Rem": "%", "Div": "/"}.get(x[1], x[1])
                return "(%s%s%s)" % (s(x[2], d + 1), sym, s(x[3], d + 1))
            if t == "len":
                return "len(%s)" % s(x[1], d + 1)
            if t == "elem":
                return "%s[%s]" % (s(x[1], d + 1), s(x[2], d + 1))
            if t == "cast":
                return "(%s as %s)" % (s(x[3], d + 1), x[2])
            if t == "slice":
                return "%s[%s..%s]" % (s(x[1], d + 1), s(x[2], d + 1), s(x[3], d + 1))
            if t == "slicefrom":
                return "%s[%s..]" % (s(x[1], d + 1), s(x[2], d + 1))
            if t == "sliceto":
                return "%s[..%s]" % (s(x[1], d + 1), s(x[2], d + 1))
            if t == "static":
                return x[1].split("::")[-1]
            if t == "unsize":
                return s(x[1], d + 1)
            if t == "ref":
                return "&" + sl(x[1], d + 1)
            if t == "bytes":
                return "b%r" % x[1][:16]
            if t == "proj":
                return "%s.%s" % (s(x[1], d + 1), x[2][1])
            if t == "try":
                return "try(%s)" % s(x[1], d + 1)
            if t == "agg":
                return "%s{%s}" % (x[1].split(":")[-1], ",".join(s(a, d + 1) for a in x[2]))
            return "%s(%s)" % (t, ",".join(s(y, d + 1) if isinstance(y, tuple) else str(y) for y in x[1:]))

        def sl(L, d=0):
            t = L[0]
            if t == "local":
                return fn.local_name(L[1])
            if t == "deref":
                return "*" + s(L[1], d + 1)
            if t == "field":
                return "%s.%s" % (sl(L[1], d + 1), L[2])
            if t == "index":
                return "%s[%s]" % (sl(L[1], d + 1), s(L[2], d + 1))
            if t == "downcast":
                return sl(L[1], d + 1)
            return str(L[0])

        return s(v)

    # ------------------------------------------------------------------ obligations
    def obligations(self, fn, classes=("index", "slice", "arith", "cast", "shift", "div", "panic", "unchecked")):
        an = self.an(fn)
        P = self.prover(fn)
        obs = []
        for b in an.cfg.block_rpo():
            info = an.term.get(b)
            if info is None:
                continue
            blk = fn.blocks[b]
            # ---- statements: narrowing casts, raw shifts without assert (release-like ops)
            if "cast" in classes:
                for i, s in enumerate(blk["stmts"]):
                    if s["s"] != "assign":
                        continue
                    rv = s["rv"]
                    if rv["r"] == "cast" and rv["kind"] in ("IntToInt", "FloatToInt"):
                        src, dst = rv["from"]["t"], rv["ty"]["t"]
                        sb, db = tk_bits(src), tk_bits(dst)
                        narrowing = False
                        if rv["kind"] == "FloatToInt":
                            narrowing = True
                        elif sb is not None and db is not None:
                            if db < sb:
                                narrowing = True
                            elif db == sb and tk_unsigned(src) != tk_unsigned(dst):
                                narrowing = False  # sign reinterpretation: not a length truncation
                        if narrowing:
                            v = an.stmt_val.get((b, i))
                            if v is None or v[0] != "cast":
                                continue
                            inner = v[3]
                            o = Ob("G-NARROW", fn.path, b, "cast:%s->%s" % (rv["from"]["s"], rv["ty"]["s"]),
                                   self.stable(inner, fn), s["sp"])
                            if rv["kind"] == "IntToInt" and db is not None:
                                hi = (1 << db) - 1 if tk_unsigned(dst) else (1 << (db - 1)) - 1
                                o.goals = [(lin_add(P.lin(inner), lin_const(hi), -1), "%s <= %d" % (o.desc, hi))]
                            o.extra = {"value": v, "inner": inner, "stmt": i, "dst_bits": db, "src": src, "dst": dst}
                            obs.append(o)
            k = info["kind"]
            if k == "assert":
                mk = info["mk"]
                if mk == "BoundsCheck" and "index" in classes:
                    idx, ln = info["index"], info["len"]
                    g = lin_add(lin_add(P.lin(idx), P.lin(ln), -1), lin_const(1))
                    o = Ob("G-GUARD", fn.path, b, "index", "%s < %s" % (self.stable(idx, fn), self.stable(ln, fn)),
                           info["sp"], [(g, "index < len")], {"index": idx, "len": ln})
                    obs.append(o)
                elif mk == "Overflow" and ("arith" in classes or "shift" in classes):
                    op = info["op"]
                    a, bb = info["a"], info["b"]
                    if op in ("Shl", "Shr"):
                        if "shift" not in classes:
                            continue
                        tk = an.vtype.get(a)
                        bits = tk_bits(tk) or 64
                        g = lin_add(P.lin(bb), lin_const(bits - 1), -1)
                        o = Ob("G-SHIFT", fn.path, b, op.lower(), "%s %s %s" % (self.stable(a, fn), op, self.stable(bb, fn)),
                               info["sp"], [(g, "amount <= %d" % (bits - 1))], {"a": a, "b": bb, "bits": bits})
                        obs.append(o)
                    else:
                        if "arith" not in classes:
                            continue
                        o = Ob("G-NOWRAP", fn.path, b, op.lower(), "%s %s %s" % (self.stable(a, fn), op, self.stable(bb, fn)),
                               info["sp"], [], {"a": a, "b": bb, "op": op, "tk": an.vtype.get(("bin", op, a, bb)) or an.vtype.get(a)})
                        obs.append(o)
                elif mk in ("DivisionByZero", "RemainderByZero") and "div" in classes:
                    a = info["a"]
                    o = Ob("G-DIV", fn.path, b, mk, self.stable(a, fn), info["sp"], [], {"a": a})
                    obs.append(o)
                elif mk == "OverflowNeg" and "arith" in classes:
                    o = Ob("G-NOWRAP", fn.path, b, "neg", self.stable(info["a"], fn), info["sp"], [], {"a": info["a"], "op": "Neg"})
                    obs.append(o)
            elif k == "call":
                v = info["value"]
                callee = info["callee"] or ""
                base = info["base"] or ""
                if v[0] in ("slice", "slicefrom", "sliceto") and "slice" in classes:
                    S = v[1]
                    ln = an.len_of(S)
                    goals = []
                    if v[0] == "slice":
                        goals.append((lin_add(P.lin(v[2]), P.lin(v[3]), -1), "start <= end"))
                        goals.append((lin_add(P.lin(v[3]), P.lin(ln), -1), "end <= len"))
                    elif v[0] == "slicefrom":
                        goals.append((lin_add(P.lin(v[2]), P.lin(ln), -1), "start <= len"))
                    else:
                        goals.append((lin_add(P.lin(v[2]), P.lin(ln), -1), "end <= len"))
                    o = Ob("G-GUARD", fn.path, b, v[0], self.stable(v, fn), info["sp"], goals, {"value": v, "len": ln})
                    obs.append(o)
                elif "panic" in classes and self.is_failure_call(base, callee):
                    o = Ob("G-PANIC", fn.path, b, self.failure_kind(base, callee),
                           self.failure_desc(fn, info), info["sp"], [], {"info": info})
                    obs.append(o)
                elif "unchecked" in classes and self.is_unchecked_call(base, callee):
                    o = Ob("G-UNCHECKED", fn.path, b, base.split("::")[-1], self.stable(("call", callee, tuple(info["args"])), fn),
                           info["sp"], [], {"info": info})
                    obs.append(o)
        # stable keys
        seen = {}
        for o in obs:
            base = "%s:%s:%s:%s" % (o.rule, short(fn.path), o.kind, o.desc)
            n = seen.get(base, 0) + 1
            seen[base] = n
            o.key = base if n == 1 else "%s#%d" % (base, n)
        return obs

    FAIL_PREFIX = ("core::panicking::", "std::rt::begin_panic", "core::option::expect_failed",
                   "core::result::unwrap_failed", "core::option::unwrap_failed")

    def is_failure_call(self, base, callee):
        for n in (base, callee):
            if not n:
                continue
            if n.startswith(self.FAIL_PREFIX):
                return True
            if n in ("core::option::{impl#0}::unwrap", "core::option::{impl#0}::expect",
                     "core::result::{impl#0}::unwrap", "core::result::{impl#0}::expect",
                     "core::slice::{impl#0}::copy_from_slice"):
                return True
        return False

    def failure_kind(self, base, callee):
        n = base or callee
        last = n.split("::")[-1]
        if n.startswith("core::panicking::") or n.startswith("std::rt::"):
            return "panic:" + last
        return last

    def failure_desc(self, fn, info):
        base = info["base"] or ""
        args = info["args"]
        if base.startswith("core::panicking::") or base.startswith("std::rt::"):
            # message if it is a constant
            for a in args:
                msg = self._const_str(a)
                if msg:
                    return msg
            return base.split("::")[-1]
        return self.stable(args[0], fn) if args else ""

    def _const_str(self, v):
        found = []

        def f(x):
            if x[0] == "bytes" and x[1]:
                try:
                    found.append(x[1].decode("utf8"))
                except Exception:
                    pass
        walk(v, f)
        return found[0] if found else None

    def is_unchecked_call(self, base, callee):
        n = base.split("::")[-1]
        return n in ("get_unchecked", "get_unchecked_mut", "from_utf8_unchecked", "from_raw_parts", "from_raw_parts_mut")


def short(path):
    """function path without crate prefix and impl numbering noise kept (impl#N is stable
    under edits that do not add impls above it; the last two segments are what a reader needs)"""
    parts = path.split("::")
    return "::".join(parts[1:])


# ======================================================================================
# decision procedures (methods added to Engine)
# ======================================================================================
def _entry_atom_to_placeholder(atom):
    """callee entry-state atoms -> placeholders usable at call sites"""
    if atom[0] == "param":
        return ("P", atom[1])
    if atom[0] == "len" and atom[1][0] == "param":
        return ("PL", atom[1][1])
    if atom[0] == "init" and atom[1][0] == "deref" and atom[1][1][0] == "param":
        return ("PI", atom[1][1][1])
    return None


def _is_result(fn):
    return fn.output is not None and fn.output["s"].startswith(("std::result::Result<", "core::result::Result<", "Result<"))


def _is_option(fn):
    return fn.output is not None and fn.output["s"].startswith(("std::option::Option<", "core::option::Option<", "Option<"))


def _facts(self, fn, node, extra=()):
    key = (fn.path, node)
    c = self._facts_cache.get(key) if hasattr(self, "_facts_cache") else None
    if not hasattr(self, "_facts_cache"):
        self._facts_cache = {}
    if key in self._facts_cache and not extra:
        return self._facts_cache[key]
    an = self.an(fn)
    P = self.prover(fn)
    base = list(P.facts_at(node))
    out = list(base)
    # summaries of in-crate callees
    ok_calls = []
    for f in base:
        if f[0] == "variant":
            V, k = f[1], f[2]
            if V[0] == "try" and k == 0:
                ok_calls.append((V[1], ("proj", ("proj", V, ("dc", 0)), ("f", 0))))
            elif V[0] == "call":
                ok_calls.append((V, ("proj", ("proj", V, ("dc", k)), ("f", 0)), k))
    for d in an.cfg.dominators(node):
        ec = an.edge_cond.get(d)
        if ec is not None and ec[0] == "callret":
            info = an.term[ec[1]]
            callee = info["callee"]
            if self.is_local(callee):
                cf = self.F.fns[callee]
                summ = self.summary(cf)
                self._instantiate(fn, info, summ.get("always", []), None, out)
    for item in ok_calls:
        V = item[0]
        if V[0] != "call" or not self.is_local(V[1]):
            continue
        site = V[3]
        if site is None:
            # pure call: everything needed is in the value itself
            info = {"args": list(V[2]), "site": None, "pre": [None] * len(V[2]), "value": V}
        else:
            if site[0] != fn.path:
                continue
            info = an.term.get(site[1])
            if info is None or info["kind"] != "call":
                continue
        cf = self.F.fns[V[1]]
        summ = self.summary(cf)
        if _is_result(cf):
            variant_ok = (len(item) == 2) or item[2] == 0
            if variant_ok:
                self._instantiate(fn, info, summ.get("ok", []), item[1], out)
        elif _is_option(cf):
            if len(item) == 3 and item[2] == 1:
                self._instantiate(fn, info, summ.get("ok", []), item[1], out)
    self.iter_facts(fn, base, out)
    out.extend(extra)
    if not extra:
        self._facts_cache[key] = out
    return out


def _instantiate(self, fn, info, lins, payload, out):
    """turn callee summary facts (over placeholders) into caller facts"""
    if not lins:
        return
    an = self.an(fn)
    P = self.prover(fn)
    args = info["args"]
    site = info["site"]
    mapping = {}
    for i, a in enumerate(args):
        mapping[("P", i + 1)] = a
        mapping[("PL", i + 1)] = an.len_of(a)
        if site is not None:
            mapping[("PI", i + 1)] = info["pre"][i]
            mapping[("PF", i + 1)] = ("clob", site, i)
    variants = {(f[1], f[2]) for f in out if f[0] == "variant"}
    for l in lins:
        ok = True
        m2 = dict(mapping)
        for a in lin_atoms(l):
            if a[0] == "RV":
                cur = payload if payload is not None else info["value"]
                for el in a[1]:
                    if el[0] == "dc" and (cur, el[1]) not in variants:
                        ok = False      # payload variant not established on this path
                        break
                    cur = ("proj", cur, el)
                m2[a] = cur
            elif a not in m2:
                ok = False
        if ok:
            out.append(("le", lin_subst(l, m2, P)))


def _proj_path(v, path):
    for el in path:
        v = ("proj", v, el)
    return v


def _summary(self, cf):
    """postconditions of an in-crate function, over placeholders:
         always: hold at every normal return;  ok: hold at every return constructing Ok/Some"""
    s = self._summ.get(cf.path)
    if s is not None:
        return s
    if cf.path in self._in_progress:
        return {}
    self._in_progress.add(cf.path)
    try:
        s = self._compute_summary(cf)
    finally:
        self._in_progress.discard(cf.path)
    self._summ[cf.path] = s
    return s


def _ret_payload(v):
    """(kind, payload) of a returned value: kind in ok/err/some/none/plain/unknown"""
    if v[0] == "agg":
        k = v[1]
        if k.endswith(":Ok"):
            return "ok", v[2][0]
        if k.endswith(":Err"):
            return "err", v[2][0]
        if k.endswith(":Some"):
            return "ok", v[2][0]
        if k.endswith(":None"):
            return "err", None
    if v[0] == "call" and v[1].endswith("from_residual"):
        return "err", None      # `?` propagating Err / None
    return "unknown", v


def _compute_summary(self, cf):
    an = self.an(cf)
    P = self.prover(cf)
    cfg = an.cfg
    wraps = _is_result(cf) or _is_option(cf)
    rets = []
    for b in cfg.block_rpo():
        info = an.term.get(b)
        if info and info["kind"] == "return":
            rets.append(b)
    if not rets:
        return {}
    # classify return paths by the value of _0.  A return block is usually a join; look at
    # the incoming edges' states to separate Ok and Err constructions.
    groups = {"ok": [], "err": [], "unknown": []}
    loops = cfg.natural_loops()
    work = []
    for r in rets:
        work.append((r, an.state_before_term(r), an.read(an.state_before_term(r), ("local", 0)), 0))
    seen_pts = set()

    def first_join_phi(v):
        """a phi (not at a loop header) occurring as the value or as an aggregate leaf"""
        if v[0] == "phi" and v[1] not in loops:
            return v
        if v[0] == "agg":
            for x in v[2]:
                r_ = first_join_phi(x)
                if r_ is not None:
                    return r_
        return None

    def subst(v, phi, nv):
        if v == phi:
            return nv
        if v[0] == "agg":
            return ("agg", v[1], tuple(subst(x, phi, nv) for x in v[2]))
        return v

    while work:
        node, st, v, depth = work.pop()
        if (node, v) in seen_pts:
            continue
        seen_pts.add((node, v))
        ph = first_join_phi(v) if depth < 6 else None
        if ph is not None and cfg.dominates(ph[1], node if node < cfg.nnodes else ph[1]):
            expanded = False
            for e in cfg.in_edges[ph[1]]:
                st2 = an.out_state.get(e.src)
                if st2 is not None:
                    work.append((e.node, st2, subst(v, ph, an.read(st2, ph[2])), depth + 1))
                    expanded = True
            if expanded:
                continue
        kind, payload = _ret_payload(v) if wraps else ("ok", v)
        groups[kind if kind in groups else "unknown"].append((node, st, payload))
    okpts = groups["ok"] + groups["unknown"]
    if not okpts:
        return {}
    # candidate postconditions
    slice_params = []
    cursor_params = []
    for i in range(1, cf.argc + 1):
        tk = an.local_tk[i]
        if tk["k"] == "ref":
            to = tk["to"]
            if to["k"] == "slice" or to["k"] == "str":
                slice_params.append(i)
            elif to["k"] in ("uint",) and tk["mut"]:
                cursor_params.append(i)
    cands = []
    for p in cursor_params:
        for q in slice_params:
            cands.append(lin_add(lin_add((0, ((("PF", p), 1),)), (0, ((("PL", q), 1),)), -1), lin_const(1)))  # PF < PL
            cands.append(lin_add((0, ((("PF", p), 1),)), (0, ((("PL", q), 1),)), -1))                      # PF <= PL
        cands.append(lin_add((0, ((("PI", p), 1),)), (0, ((("PF", p), 1),)), -1))                              # PI <= PF
        cands.append(lin_add(lin_add((0, ((("PI", p), 1),)), (0, ((("PF", p), 1),)), -1), lin_const(1)))      # PI < PF
    # integer leaves of the payload, with the projection path a caller uses to reach them
    def leaves(v, path, out_):
        if v is None:
            return
        if v[0] == "agg":
            k = v[1]
            if k == "tuple":
                for i_, x in enumerate(v[2]):
                    leaves(x, path + (("f", i_),), out_)
                return
            if k.startswith("adt:core::option::Option:"):
                if k.endswith(":Some"):
                    leaves(v[2][0], path + (("dc", 1), ("f", 0)), out_)
                return
            return
        tk = an.vtype.get(v)
        if tk is not None and tk["k"] == "uint" and tk_bits(tk) == 64:
            out_.add(path)
        elif tk is None and v[0] in ("bin", "phi", "const"):
            out_.add(path)

    comps = set()
    for _, _, pl in okpts:
        leaves(pl, (), comps)
    for c in sorted(comps):
        rv = (0, ((("RV", c), 1),))
        for q in slice_params:
            cands.append(lin_add(rv, (0, ((("PL", q), 1),)), -1))                         # RV <= PL
            cands.append(lin_add(lin_add(rv, (0, ((("PL", q), 1),)), -1), lin_const(1)))  # RV < PL
        cands.append(lin_add(lin_const(1), rv, -1))                                       # 1 <= RV
    # exported entry-only facts from the first ok point
    node0 = okpts[0][0]
    for f in self.facts(cf, node0):
        if f[0] != "le":
            continue
        l = f[1]
        tr = []
        ok = True
        for a, k in l[1]:
            ph = _entry_atom_to_placeholder(a)
            if ph is None:
                ok = False
                break
            tr.append((ph, k))
        if ok and tr:
            cands.append((l[0], tuple(tr)))

    SKIP = "skip"

    def concretize(l, st, payload):
        mapping = {}
        for a in lin_atoms(l):
            if a[0] == "P":
                mapping[a] = ("param", a[1])
            elif a[0] == "PL":
                mapping[a] = an.len_of(("param", a[1]))
            elif a[0] == "PI":
                mapping[a] = ("init", ("deref", ("param", a[1])))
            elif a[0] == "PF":
                mapping[a] = an.read(st, ("deref", ("param", a[1])))
            elif a[0] == "RV":
                if payload is None:
                    return SKIP
                v = payload
                for el in a[1]:
                    if el[0] == "f":
                        if v[0] == "agg" and el[1] < len(v[2]):
                            v = v[2][el[1]]
                        else:
                            v = ("proj", v, el)
                    else:
                        if v[0] == "agg" and v[1].startswith("adt:"):
                            want = {1: ":Some", 0: ":None"}.get(el[1])
                            if want and not v[1].endswith(want):
                                return SKIP
                        else:
                            v = ("proj", v, el)
                mapping[a] = v
        return lin_subst(l, mapping, P)

    def holds_everywhere(l, pts):
        for node, st, payload in pts:
            g = concretize(l, st, payload)
            if g is None:
                return False
            if g == SKIP:
                continue
            facts = self.facts(cf, node)
            if P.prove_le0(g, facts):
                continue
            if self.prove_inductive(cf, g, node, facts):
                continue
            return False
        return True

    ok_facts = []
    seen = set()
    for l in cands:
        l = lin_norm(l)
        if l in seen:
            continue
        seen.add(l)
        if holds_everywhere(l, okpts):
            ok_facts.append(l)
    always = []
    if not wraps:
        always = list(ok_facts)
    else:
        allpts = okpts + groups["err"]
        for l in ok_facts:
            if any(a[0] == "RV" for a in lin_atoms(l)):
                continue
            if holds_everywhere(l, groups["err"]):
                always.append(l)
    return {"ok": ok_facts, "always": always}


def fn_block_has_stmts(cf, b):
    return any(s["s"] == "assign" for s in cf.blocks[b]["stmts"])


def _loop_of(cfg, h):
    loops = getattr(cfg, "_loops", None)
    if loops is None:
        loops = cfg.natural_loops()
        cfg._loops = loops
    return loops.get(h)


def _defined_in(v, fnpath, blocks):
    """does value v mention something defined inside the given block set?"""
    hit = []

    def f(x):
        if x[0] == "phi" and x[1] in blocks:
            hit.append(x)
        elif x[0] in ("clob", "call", "icall") and isinstance(x[-1 if x[0] != "clob" else 1], tuple):
            site = x[1] if x[0] == "clob" else x[-1]
            if isinstance(site, tuple) and len(site) == 2 and site[0] == fnpath and site[1] in blocks:
                hit.append(x)
    walk(v, f)
    return bool(hit)


def _prove_inductive(self, fn, goal, node, facts, depth=0, hyps=()):
    """prove goal<=0 at node by case split over join phis and as an inductive invariant of the
    loop whose phi values it mentions.  `hyps` are induction hypotheses carried along."""
    if depth > 5:
        return False
    an = self.an(fn)
    P = self.prover(fn)
    cfg = an.cfg
    loops = cfg.natural_loops() if not hasattr(cfg, "_loops") else cfg._loops
    cfg._loops = loops
    phis = set()
    for a in lin_atoms(goal):
        def f(x):
            if x[0] == "phi":
                phis.add(x)
        walk(a, f)
    if not phis:
        return False
    # ---- case split over a join (non-loop) phi
    joins = sorted({p[1] for p in phis if p[1] not in loops}, key=lambda h: -len(cfg.dominators(h)))
    for J in joins:
        if not cfg.dominates(J, node):
            continue
        mine = {p for p in phis if p[1] == J}
        if not all(p in lin_atoms(goal) for p in mine):
            continue  # nested inside a non-linear atom
        good = True
        n_in = 0
        for e in cfg.in_edges[J]:
            st = an.out_state.get(e.src)
            if st is None:
                continue
            n_in += 1
            mapping = {p: an.read(st, p[2]) for p in mine}
            g2 = lin_subst(goal, mapping, P)
            fe = self.facts(fn, e.node) + list(hyps)
            if P.prove_le0(g2, fe):
                continue
            if self.prove_inductive(fn, g2, e.node, fe, depth + 1, hyps):
                continue
            good = False
            break
        if good and n_in:
            return True
    # ---- loop induction
    headers = sorted({p[1] for p in phis if p[1] in loops}, key=lambda h: -len(cfg.dominators(h)))
    for H in headers:
        body = loops.get(H)
        if body is None or not cfg.dominates(H, node):
            continue
        mine = {p for p in phis if p[1] == H}
        ok = True
        for a in lin_atoms(goal):
            if a in mine:
                continue
            nested = []

            def g(x):
                if x[0] == "phi" and x[1] == H:
                    nested.append(x)
            walk(a, g)
            if nested:
                ok = False
                break
            if _defined_in(a, fn.path, body):
                ok = False
                break
        if not ok:
            continue
        hyp = ("le", goal)
        good = True
        for e in cfg.in_edges[H]:
            st = an.out_state.get(e.src)
            if st is None:
                continue
            mapping = {p: an.read(st, p[2]) for p in mine}
            g2 = lin_subst(goal, mapping, P)
            is_back = e.src in body
            hy = tuple(hyps) + ((hyp,) if is_back else ())
            fe = self.facts(fn, e.node) + list(hy)
            if P.prove_le0(g2, fe):
                continue
            if self.prove_inductive(fn, g2, e.node, fe, depth + 1, hy):
                continue
            good = False
            break
        if good:
            return True
    return False


Engine.facts = _facts
Engine._instantiate = _instantiate
Engine.summary = _summary
Engine._compute_summary = _compute_summary
Engine.prove_inductive = _prove_inductive


# ======================================================================================
# iterator payload ranges:  for i in a..b / a..=b / s.iter().enumerate()
# ======================================================================================
def _iter_origin(self, fn, v, seen=None):
    """(kind, lo, hi_exclusive_or_len) for an iterator value that is only ever advanced by next()"""
    an = self.an(fn)
    if seen is None:
        seen = set()
    if v in seen:
        return "same"
    seen.add(v)
    t = v[0]
    if t == "call":
        name = v[1]
        args = v[2]
        if name.endswith("::into_iter") and len(args) == 1:
            return self.iter_origin(fn, args[0], seen)
        if name.endswith("::{impl#7}::new") and "range" in name and len(args) == 2:
            return ("incl", args[0], args[1])
        if name.endswith("::enumerate") and len(args) == 1:
            inner = self.iter_origin(fn, args[0], seen)
            if inner and inner != "same" and inner[0] == "sliceiter":
                return ("enum", inner[1])
            return None
        if name in ("core::slice::{impl#0}::iter",) and len(args) == 1:
            return ("sliceiter", args[0])
        return None
    if t == "agg" and v[1] == "adt:core::ops::range::Range:Range":
        return ("excl", v[2][0], v[2][1])
    if t == "phi":
        res = None
        for e in an.cfg.in_edges[v[1]]:
            st = an.out_state.get(e.src)
            if st is None:
                continue
            o = self.iter_origin(fn, an.read(st, v[2]), seen)
            if o is None:
                return None
            if o == "same":
                continue
            if res is None:
                res = o
            elif res != o:
                return None
        return res
    if t == "clob":
        site = v[1]
        if site[0] != fn.path:
            return None
        info = an.term.get(site[1])
        if info is None or info["kind"] != "call":
            return None
        if not (info["base"] or "").endswith("Iterator::next"):
            return None
        return self.iter_origin(fn, info["pre"][v[2]], seen)
    return None


def _iter_facts(self, fn, base_facts, out):
    an = self.an(fn)
    P = self.prover(fn)
    for f in base_facts:
        if f[0] != "variant" or f[2] != 1:
            continue
        V = f[1]
        if V[0] != "call" or not V[1].endswith("::next") or len(V) < 4:
            continue
        site = V[3]
        if site is None or site[0] != fn.path:
            continue
        info = an.term.get(site[1])
        if info is None or not (info["base"] or "").endswith("Iterator::next"):
            continue
        o = self.iter_origin(fn, info["pre"][0])
        if not o or o == "same":
            continue
        payload = ("proj", ("proj", V, ("dc", 1)), ("f", 0))
        if o[0] in ("excl", "incl"):
            lo, hi = P.lin(o[1]), P.lin(o[2])
            lp = P.lin(payload)
            out.append(("le", lin_add(lo, lp, -1)))                       # lo <= p
            if o[0] == "excl":
                out.append(("le", lin_add(lin_add(lp, hi, -1), lin_const(1))))   # p < hi
            else:
                out.append(("le", lin_add(lp, hi, -1)))                   # p <= hi
        elif o[0] == "enum":
            idx = ("proj", payload, ("f", 0))
            an.vtype.setdefault(idx, {"k": "uint", "bits": -1})
            ln = an.len_of(o[1])
            out.append(("le", lin_add(lin_add(P.lin(idx), P.lin(ln), -1), lin_const(1))))


Engine.iter_origin = _iter_origin
Engine.iter_facts = _iter_facts
