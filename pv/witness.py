"""Runs the compile-fail witnesses of /verif/witness against a repository tree and returns
{witness name: {"fail": [ok?...], "twin": [ok?...]}} from rustdoc's own verdicts (nothing is executed)."""
import os, re, subprocess, shutil, tempfile

HERE = os.path.dirname(os.path.dirname(os.path.abspath(__file__)))


def run(repo="/repo"):
    src = os.path.join(HERE, "witness")
    tmp = None
    if os.path.realpath(repo) == "/repo":
        wd = src
        target = os.path.join(src, "target")
    else:
        tmp = tempfile.mkdtemp(prefix="pvwit.")
        wd = tmp
        os.makedirs(os.path.join(wd, "src"))
        shutil.copy(os.path.join(src, "src", "lib.rs"), os.path.join(wd, "src", "lib.rs"))
        os.makedirs(os.path.join(wd, ".cargo"))
        shutil.copy(os.path.join(src, ".cargo", "config.toml"), os.path.join(wd, ".cargo", "config.toml"))
        toml = open(os.path.join(src, "Cargo.toml")).read().replace('"/repo/', '"%s/' % os.path.realpath(repo))
        open(os.path.join(wd, "Cargo.toml"), "w").write(toml)
        target = os.path.join(tmp, "target")
    try:
        shutil.copy(os.path.join(repo, "Cargo.lock"), os.path.join(wd, "Cargo.lock"))
        env = dict(os.environ)
        env["CARGO_TARGET_DIR"] = target
        env["CARGO_NET_OFFLINE"] = "true"
        env.pop("RUSTC_WRAPPER", None)
        env.pop("RUSTFLAGS", None)
        r = subprocess.run(["cargo", "+nightly", "test", "--doc", "--offline"], cwd=wd, env=env,
                           capture_output=True, text=True)
        out = r.stdout + r.stderr
        res = {}
        for m in re.finditer(r"^test src/lib\.rs - (\w+) \(line (\d+)\) - (compile fail|compile) \.\.\. (\w+)", out, re.M):
            name, line, kind, verdict = m.group(1), int(m.group(2)), m.group(3), m.group(4)
            d = res.setdefault(name, {"fail": [], "twin": []})
            d["fail" if kind == "compile fail" else "twin"].append(verdict == "ok")
        return res, out
    finally:
        if tmp:
            shutil.rmtree(tmp, ignore_errors=True)
