"""Load pvx fact files; index; pretty-print MIR for humans."""
import json, os, sys

CRATES = ["pocket_types", "pocket_db", "mmap_append"]


class Fn:
    __slots__ = ("path", "kind", "sp", "vis", "unsafe", "inputs", "output", "reachable",
                 "parent", "impl_self", "impl_trait", "derived", "body", "promoted", "crate",
                 "raw", "_cfg", "nice")

    def __init__(self, raw, crate):
        self.raw = raw
        self.crate = crate
        self.path = raw["path"]
        self.kind = raw["kind"]
        self.sp = raw["sp"]
        self.vis = raw.get("vis")
        self.unsafe = raw.get("unsafe", False)
        self.inputs = raw.get("inputs", [])
        self.output = raw.get("output")
        self.reachable = raw.get("reachable", False)
        self.parent = raw.get("parent")
        self.impl_self = raw.get("impl_self")
        self.impl_trait = raw.get("impl_trait")
        self.derived = raw.get("derived", False)
        self.body = raw["body"]
        self.promoted = raw.get("promoted", [])
        self._cfg = None
        self.nice = self._nice()

    def _nice(self):
        """readable, impl-number-free name: crate::Type::method / crate::<Type as Trait>::method"""
        parts = self.path.split("::")
        name = parts[-1]
        if self.kind == "Closure":
            return self.path
        if self.impl_self is not None:
            t = self.impl_self["t"]
            while t["k"] in ("ref",):
                t = t["to"]
            if t["k"] == "adt":
                st = t["path"].split("::")[-1]
            else:
                st = self.impl_self["s"]
            if self.impl_trait:
                return "%s::<%s as %s>::%s" % (self.crate, st, self.impl_trait.split("::")[-1], name)
            return "%s::%s::%s" % (self.crate, st, name)
        return self.path

    @property
    def blocks(self):
        return self.body["blocks"]

    @property
    def locals(self):
        return self.body["locals"]

    @property
    def argc(self):
        return self.body["argc"]

    def local_name(self, i):
        l = self.locals[i]
        return l.get("n") or "_%d" % i

    def __repr__(self):
        return "<Fn %s>" % self.path


class Facts:
    def __init__(self, d):
        self.dir = d
        self.crates = {}
        self.fns = {}
        self.adts = {}
        self.impls = []
        self.statics = {}
        self.consts = {}        # named constants: path -> {body: MIR of the initialiser, promoted}
        self._const_val = {}
        self.by_nice = {}
        self._pure = None
        for c in CRATES:
            p = os.path.join(d, c + ".json")
            with open(p) as f:
                raw = json.load(f)
            self.crates[c] = raw
            for fr in raw["fns"]:
                fn = Fn(fr, c)
                self.fns[fn.path] = fn
                self.by_nice.setdefault(fn.nice, []).append(fn)
            for a in raw["adts"]:
                self.adts[a["path"]] = a
            for i in raw["impls"]:
                i["crate"] = c
                self.impls.append(i)
            for s in raw["statics"]:
                self.statics[s["path"]] = s
            for k in raw.get("consts", []):
                self.consts[k["path"]] = k
        self.inlined_into = {}
        if not os.environ.get("PV_NO_INLINE"):
            from .inline import inline_unknown_helpers
            self.inlined_into = inline_unknown_helpers(self)
            self._drop_inlined_helpers()

    def _drop_inlined_helpers(self):
        """a helper whose every call was replaced by its body is no longer a function of the program the rules see
        (it stays available in self.helpers); one that is still called (call cycle) or referenced as a function item
        stays"""
        import json as _json
        self.helpers = {}
        if not self.inlined_into:
            return
        still = set()
        for p, f in self.fns.items():
            for b in f.body["blocks"]:
                t = b["term"]
                if t["t"] == "call":
                    c = callee_name(t)
                    if c in self.inlined_into and c != p:
                        still.add(c)
            txt = None
            for h in self.inlined_into:
                if h == p:
                    continue
                if txt is None:
                    txt = _json.dumps(f.body["blocks"])
                if '"fn": "%s"' % h in txt:
                    still.add(h)
                # a closure that is (also) handed to some other function stays a function of its own
                if self.fns[h].kind == "Closure" and '{"k": "closure", "path": "%s"}' % h in txt:
                    for b in f.body["blocks"]:
                        t = b["term"]
                        if t["t"] == "call" and '{"k": "closure", "path": "%s"}' % h in _json.dumps(t["f"].get("gat", [])):
                            still.add(h)
        for h in list(self.inlined_into):
            if h in still or not self.inlined_into[h]:
                continue
            f = self.fns.pop(h)
            self.helpers[h] = f
            l = self.by_nice.get(f.nice, [])
            if f in l:
                l.remove(f)

    def const_value(self, path):
        """symbolic value of a named constant, read off the MIR of its initialiser (None when it is not a constant,
        an aggregate of constants or a call of a constructor on constants)"""
        if path in self._const_val:
            return self._const_val[path]
        self._const_val[path] = None
        raw = self.consts.get(path)
        if raw is None:
            return None
        from .sym import Analysis

        class _PF:
            pass
        pf = _PF()
        pf.path = path
        pf.body = raw["body"]
        pf.blocks = raw["body"]["blocks"]
        pf.locals = raw["body"]["locals"]
        pf.argc = raw["body"]["argc"]
        pf.promoted = raw.get("promoted", [])
        pf._cfg = None
        pf.local_name = lambda i: "_%d" % i
        try:
            a = Analysis(pf, self)
        except Exception:
            return None
        vals = []
        for b, info in a.term.items():
            if info["kind"] == "return":
                st = a.state_before_term(b)
                vals.append(a.read(st, ("local", 0)))
        if len(vals) == 1:
            from .sym import strip_sites
            v = vals[0]
            ok = [True]

            def chk(x):
                if x[0] in ("phi", "init", "clob", "param", "local"):
                    ok[0] = False
            from .sym import walk
            walk(v, chk)
            if ok[0]:
                self._const_val[path] = strip_sites(v) if v[0] != "const" else v
        return self._const_val[path]

    def fn(self, path):
        """Exact def-path lookup; fail closed."""
        f = self.fns.get(path)
        if f is None:
            raise AnchorMissing("function", path)
        return f

    def nice(self, name):
        """lookup by readable name (see Fn.nice); must be unique; fail closed"""
        l = self.by_nice.get(name)
        if not l:
            raise AnchorMissing("function", name)
        if len(l) > 1:
            raise AnchorMissing("ambiguous function", name)
        return l[0]

    def nice_of(self, path):
        f = self.fns.get(path)
        return f.nice if f is not None else path

    @property
    def pure(self):
        if self._pure is None:
            from .purity import compute_pure
            self._pure = compute_pure(self)
        return self._pure

    def find(self, suffix):
        """All functions whose path ends with ::suffix (or equals it)."""
        return [f for p, f in self.fns.items() if p == suffix or p.endswith("::" + suffix)]

    def closures_of(self, path):
        parents = {path} | {h for h, into in self.inlined_into.items() if path in into}
        return [f for f in self.fns.values() if f.kind == "Closure" and f.parent in parents]


class AnchorMissing(Exception):
    def __init__(self, what, name):
        Exception.__init__(self, "%s %s" % (what, name))
        self.what = what
        self.name = name


# ------------------------------------------------------------------ pretty printer
def pp_place(fn, p):
    s = fn.local_name(p["l"]) if fn else "_%d" % p["l"]
    for e in p["p"]:
        if e == "*":
            s = "(*%s)" % s
        elif isinstance(e, dict):
            if "f" in e:
                s = "%s.%d" % (s, e["f"])
            elif "i" in e:
                s = "%s[%s]" % (s, fn.local_name(e["i"]) if fn else "_%d" % e["i"])
            elif "ci" in e:
                s = "%s[%s%d]" % (s, "-" if e["fe"] else "", e["ci"])
            elif "sub" in e:
                s = "%s[%d..%s%d]" % (s, e["sub"], "-" if e["fe"] else "", e["to"])
            elif "dc" in e:
                s = "(%s as %s)" % (s, e["n"] or e["dc"])
        else:
            s = "%s.<%s>" % (s, e)
    return s


def pp_op(fn, o):
    if o is None:
        return "?"
    if "c" in o:
        return pp_place(fn, o["c"])
    if "m" in o:
        return "move " + pp_place(fn, o["m"])
    if "k" in o:
        k = o["k"]
        if "v" in k:
            return "%s_%s" % (k["v"], k["ty"])
        if "fn" in k:
            return "fn:" + k["fn"]
        if "bytes" in k:
            try:
                return "b%r" % bytes(k["bytes"]).decode("latin1")
            except Exception:
                return "bytes"
        if "promoted" in k:
            return "promoted[%d]" % k["promoted"]
        return "const(%s)" % k["s"]
    if "rc" in o:
        return "rc:" + o["rc"]
    return str(o)


def pp_rv(fn, rv):
    r = rv["r"]
    if r == "use":
        return pp_op(fn, rv["a"])
    if r == "ref":
        return "&%s%s" % ("mut " if rv["mut"] else "", pp_place(fn, rv["p"]))
    if r == "rawptr":
        return "&raw %s%s" % ("mut " if rv["mut"] else "const ", pp_place(fn, rv["p"]))
    if r == "bin":
        return "%s(%s, %s)" % (rv["op"], pp_op(fn, rv["a"]), pp_op(fn, rv["b"]))
    if r == "un":
        return "%s(%s)" % (rv["op"], pp_op(fn, rv["a"]))
    if r == "cast":
        return "%s as %s [%s]" % (pp_op(fn, rv["a"]), rv["ty"]["s"], rv["kind"])
    if r == "discr":
        return "discriminant(%s)" % pp_place(fn, rv["p"])
    if r == "agg":
        k = rv["kind"]
        nm = k["a"]
        if nm == "adt":
            nm = "%s::%s" % (k["path"], k["vn"])
        elif nm == "closure":
            nm = "closure:" + k["path"]
        return "%s{%s}" % (nm, ", ".join(pp_op(fn, o) for o in rv["ops"]))
    if r == "repeat":
        return "[%s; %s]" % (pp_op(fn, rv["a"]), rv["n"])
    return r


def callee_name(term):
    f = term["f"]
    if "path" in f:
        return f.get("res") or f["path"]
    return "<indirect>"


def pp_term(fn, t):
    k = t["t"]
    if k == "goto":
        return "goto bb%d" % t["target"]
    if k == "switch":
        return "switch %s [%s, otherwise bb%d]" % (
            pp_op(fn, t["d"]), ", ".join("%d:bb%d" % (v, b) for v, b in t["targets"]), t["otherwise"])
    if k == "call":
        f = t["f"]
        nm = callee_name(t)
        if "indirect" in f:
            nm = "(%s)" % pp_op(fn, f["indirect"])
        ga = ""
        return "%s = %s%s(%s) -> %s" % (
            pp_place(fn, t["dest"]), nm, ga, ", ".join(pp_op(fn, a) for a in t["args"]),
            "bb%d" % t["target"] if t["target"] is not None else "!")
    if k == "assert":
        m = t["msg"]
        extra = ""
        if m["k"] == "BoundsCheck":
            extra = " len=%s index=%s" % (pp_op(fn, m["len"]), pp_op(fn, m["index"]))
        elif m["k"] == "Overflow":
            extra = " %s(%s,%s)" % (m["op"], pp_op(fn, m["a"]), pp_op(fn, m["b"]))
        return "assert(%s == %s, %s%s) -> bb%d" % (pp_op(fn, t["cond"]), t["expected"], m["k"], extra, t["target"])
    if k == "drop":
        return "drop(%s) -> bb%d" % (pp_place(fn, t["p"]), t["target"])
    return k


def pp_fn(fn, out=sys.stdout):
    out.write("fn %s  [%s %s:%d]\n" % (fn.path, fn.kind, fn.sp["f"], fn.sp["l"]))
    for i, l in enumerate(fn.locals):
        out.write("   let %s_%d%s: %s\n" % ("arg " if 1 <= i <= fn.argc else "", i,
                                           "(%s)" % l["n"] if "n" in l else "", l["ty"]["s"]))
    for bi, b in enumerate(fn.blocks):
        out.write(" bb%d%s:\n" % (bi, " (cleanup)" if b["cleanup"] else ""))
        for s in b["stmts"]:
            if s["s"] == "assign":
                out.write("    %s = %s    // %d%s\n" % (pp_place(fn, s["lhs"]), pp_rv(fn, s["rv"]), s["sp"]["l"],
                                                     " in %s!" % s["sp"]["x"] if "x" in s["sp"] else ""))
            else:
                out.write("    %s\n" % s["s"])
        t = b["term"]
        out.write("    %s    // %d%s\n" % (pp_term(fn, t), t["sp"]["l"], " in %s!" % t["sp"]["x"] if "x" in t["sp"] else ""))


if __name__ == "__main__":
    F = Facts(sys.argv[1])
    for pat in sys.argv[2:]:
        for f in F.find(pat):
            pp_fn(f)
