"""Inlining of helper functions the rules do not know.

The rules name functions (anchors, callees, table operations).  A refactoring that extracts a piece of one of
those functions into a new private helper must not hide the piece from a rule, and must not change a verdict.
So before any rule runs, every call to a crate-local function whose readable name is not in pv/vocabulary.txt
(the functions the rules were written against) is replaced by the callee's body: locals, blocks and promoted
constants are appended to the caller with their indices shifted, arguments are assigned to the parameter
locals, `return` becomes an assignment to the call's destination followed by a jump to the call's target.
Helpers that call each other are flattened bottom-up; helpers on a call cycle are left alone.

This is MIR-to-MIR on the extracted facts: nothing is executed and no text is matched.
"""
import copy, os

HERE = os.path.dirname(os.path.abspath(__file__))
MAX_BLOCKS = 6000


def load_vocabulary():
    """(function names, {(parent readable name, sorted capture names)} of the closures the rules know as closures)"""
    names, closures = set(), set()
    with open(os.path.join(HERE, "vocabulary.txt")) as f:
        for line in f:
            line = line.strip()
            if not line or line.startswith("#"):
                continue
            if line.startswith("closure "):
                _, parent, caps = line.split(" ", 2)
                closures.add((parent, caps[len("caps="):]))
            else:
                names.add(line)
    return names, closures


def closure_key(F, f):
    """how a closure is recognised across edits: the readable name of the function it is written in and the names of the
    variables it captures (its index among the parent's closures shifts whenever a closure is added before it)"""
    parent = f.parent
    for _ in range(4):
        pf = F.fns.get(parent)
        if pf is None or pf.kind != "Closure":
            break
        parent = pf.parent
    pn = F.fns[parent].nice if parent in F.fns else (parent or "?")
    caps = sorted({d["n"] for d in f.raw["body"].get("dbg", []) if d["p"]["l"] == 1 and d["p"]["p"]})
    return (pn, ",".join(caps))


def _shift(x, lb, pb):
    """deep copy of a JSON fragment with locals shifted by lb and promoted indices by pb"""
    if isinstance(x, dict):
        if "l" in x and "p" in x and isinstance(x["p"], list):          # a place
            return {"l": x["l"] + lb, "p": [({"i": pe["i"] + lb} if isinstance(pe, dict) and "i" in pe else copy.copy(pe))
                                            for pe in x["p"]]}
        if x.get("s") == "dead" and "l" in x:
            return {"s": "dead", "l": x["l"] + lb}
        out = {}
        for k, v in x.items():
            if k == "promoted" and isinstance(v, int):
                out[k] = v + pb
            elif k == "sp" or k == "fsp":
                out[k] = v
            else:
                out[k] = _shift(v, lb, pb)
        return out
    if isinstance(x, list):
        return [_shift(v, lb, pb) for v in x]
    return x


def _shift_term(t, lb, pb, bb):
    t = _shift(t, lb, pb)
    for k in ("target", "unwind", "otherwise"):
        if isinstance(t.get(k), int):
            t[k] = t[k] + bb
    if "targets" in t:
        t["targets"] = [[v, b + bb] for v, b in t["targets"]]
    return t


def _callee(term):
    f = term.get("f") or {}
    if "path" in f:
        return f.get("res") or f["path"]
    return None


def inline_call(caller_raw, bi, callee_fn):
    """splice callee_fn's body into caller_raw (a raw fn dict) at the call terminating block bi"""
    body = caller_raw["body"]
    cb = callee_fn.raw["body"]
    t = body["blocks"][bi]["term"]
    lb = len(body["locals"])
    bb = len(body["blocks"])
    pb = len(caller_raw.setdefault("promoted", []))
    helper = callee_fn.nice
    for i, l in enumerate(cb["locals"]):
        nl = copy.deepcopy(l)
        nl["inl"] = helper
        body["locals"].append(nl)
    for d in cb.get("dbg", []):
        body.setdefault("dbg", []).append({"n": d["n"], "p": _shift(d["p"], lb, pb), "inl": helper})
    for p in callee_fn.raw.get("promoted", []):
        caller_raw["promoted"].append(copy.deepcopy(p))
    sp = t["sp"]
    # arguments -> parameter locals
    blk = body["blocks"][bi]
    args = list(t["args"])
    if callee_fn.kind == "Closure":
        # rust-call convention: (closure or reference to it, tuple of the arguments); the body takes the tuple spread
        env, tup = args[0], args[1] if len(args) > 1 else None
        args = [env]
        for k in range(2, cb["argc"] + 1):
            pl = cb["locals"][k]
            place = (tup or {}).get("m") or (tup or {}).get("c")
            if place is None:
                raise ValueError("closure argument tuple is not a place")
            args.append({"c": {"l": place["l"], "p": list(place["p"]) + [{"f": k - 2, "ty": pl["ty"]["s"]}]}})
    for i, a in enumerate(args):
        pl = cb["locals"][i + 1]
        if i == 0 and callee_fn.kind == "Closure" and (pl["ty"]["t"] or {}).get("k") == "ref" and \
                not str((t.get("aty") or ["&"])[0]).startswith("&") and (a.get("m") or a.get("c")):
            # call_once on a closure whose body borrows its environment: the by-value shim passes a reference to it
            blk["stmts"].append({"s": "assign", "lhs": {"l": lb + 1, "p": []},
                                 "rv": {"r": "ref", "mut": str(bool(pl["ty"]["t"].get("mut"))).lower(), "fake": "false",
                                        "p": a.get("m") or a.get("c")},
                                 "lty": pl["ty"]["t"], "sp": sp, "inl_arg": helper})
            continue
        blk["stmts"].append({"s": "assign", "lhs": {"l": lb + i + 1, "p": []}, "rv": {"r": "use", "a": a},
                             "lty": pl["ty"]["t"], "sp": sp, "inl_arg": helper})
    dest, target = t["dest"], t["target"]
    blk["term"] = {"t": "goto", "target": bb, "sp": sp, "inl_call": helper}
    for b in cb["blocks"]:
        nb = {"stmts": [_shift(s, lb, pb) for s in b["stmts"]], "cleanup": b["cleanup"], "inl": helper}
        bt = b["term"]
        if bt["t"] == "return":
            nb["stmts"].append({"s": "assign", "lhs": dest, "rv": {"r": "use", "a": {"m": {"l": lb, "p": []}}},
                                "lty": cb["locals"][0]["ty"]["t"], "sp": sp, "inl_ret": helper})
            if target is None:
                nb["term"] = {"t": "unreachable", "sp": bt["sp"]}
            else:
                nb["term"] = {"t": "goto", "target": target, "sp": bt["sp"]}
        else:
            nb["term"] = _shift_term(bt, lb, pb, bb)
        body["blocks"].append(nb)


FN_TRAITS = ("core::ops::function::FnOnce::call_once", "core::ops::function::FnMut::call_mut",
             "core::ops::function::Fn::call")


def resolve_closure_calls(raw, closure_paths):
    """after a helper taking a closure parameter has been spliced in, its `body(args)` is a Fn-trait call whose receiver is
    a local of the caller: follow the receiver back through single plain assignments (moves, copies, references) to the
    closure expression that created it and record that closure as the callee.  Returns True when a callee was found."""
    body = raw["body"]
    assigns = {}
    for b in body["blocks"]:
        for st in b["stmts"]:
            if st.get("s") == "assign" and not st["lhs"]["p"]:
                assigns.setdefault(st["lhs"]["l"], []).append(st["rv"])
    # call destinations are definitions too
    for b in body["blocks"]:
        t = b["term"]
        if t["t"] == "call" and t.get("dest") and not t["dest"]["p"]:
            assigns.setdefault(t["dest"]["l"], []).append({"r": "call"})

    def origin(l, depth=0):
        if depth > 12:
            return None
        rvs = assigns.get(l, [])
        if len(rvs) != 1:
            return None
        rv = rvs[0]
        if rv.get("r") == "agg" and (rv.get("kind") or {}).get("a") == "closure":
            return rv["kind"]["path"]
        pl = None
        if rv.get("r") == "use":
            a = rv["a"]
            pl = a.get("m") or a.get("c")
        elif rv.get("r") == "ref":
            pl = rv.get("p") or rv.get("place")
        if isinstance(pl, dict) and "l" in pl and all(pe == "deref" or pe == {"deref": True} or (isinstance(pe, str) and pe == "*") for pe in pl["p"]):
            return origin(pl["l"], depth + 1)
        return None
    found = False
    for b in body["blocks"]:
        if b["cleanup"]:
            continue
        t = b["term"]
        if t["t"] != "call":
            continue
        f = t.get("f") or {}
        if f.get("path") not in FN_TRAITS or f.get("res") in closure_paths or not t["args"]:
            continue
        a = t["args"][0]
        pl = a.get("m") or a.get("c")
        if not isinstance(pl, dict) or "l" not in pl:
            continue
        if not all(pe == "*" for pe in pl["p"]):
            continue
        c = origin(pl["l"])
        if c in closure_paths:
            f["res"] = c
            f["via_param"] = True
            found = True
    return found


def inline_unknown_helpers(F):
    """mutates F.fns in place; returns {helper path: set(caller paths it was inlined into, transitively)}"""
    vocab, known_closures = load_vocabulary()
    local = {p: f for p, f in F.fns.items() if f.kind != "Closure"}
    unknown = {p for p, f in local.items() if f.nice not in vocab}
    # closures the rules do not know, when the enclosing code calls them directly (a local helper written as a closure)
    for p, f in F.fns.items():
        if f.kind == "Closure" and closure_key(F, f) not in known_closures and f.raw["body"]["argc"] >= 1:
            # the query's screen wrapper is known by what it does (it handles a ScreenResult), whatever it captures
            if closure_key(F, f)[0] == "pocket_db::Store::find_events" and \
                    any("ScreenResult" in (l.get("ty") or {}).get("s", "") for l in f.raw["body"]["locals"]):
                continue
            unknown.add(p)
    if not unknown:
        return {}
    # helper -> helpers it calls
    def calls_of(f):
        out = []
        for bi, b in enumerate(f.raw["body"]["blocks"]):
            if b["cleanup"]:
                continue
            t = b["term"]
            if t["t"] == "call":
                c = _callee(t)
                if c in unknown:
                    out.append((bi, c))
        return out
    # helpers on a cycle are not inlined
    graph = {p: {c for _, c in calls_of(F.fns[p])} for p in unknown}
    cyclic = set()
    for p in unknown:
        seen, stack = set(), list(graph[p])
        while stack:
            x = stack.pop()
            if x == p:
                cyclic.add(p)
                break
            if x in seen:
                continue
            seen.add(x)
            stack.extend(graph.get(x, ()))
    ok = unknown - cyclic
    # bottom-up order among helpers
    order, done = [], set()

    def visit(p):
        if p in done:
            return
        done.add(p)
        for c in graph[p]:
            if c in ok:
                visit(c)
        order.append(p)
    for p in sorted(ok):
        visit(p)
    inlined_into = {p: set() for p in ok}
    closure_paths = {p for p, f in F.fns.items() if f.kind == "Closure"}

    def expand(f):
        changed = False
        for _ in range(64):
            sites = [(bi, c) for bi, c in calls_of(f) if c in ok and c != f.path]
            if not sites or len(f.raw["body"]["blocks"]) > MAX_BLOCKS:
                break
            bi, c = sites[0]
            inline_call(f.raw, bi, F.fns[c])
            resolve_closure_calls(f.raw, closure_paths)
            inlined_into[c].add(f.path)
            for h, into in inlined_into.items():
                if c in into:
                    into.add(f.path)
            changed = True
        if changed:
            f.body = f.raw["body"]
            f.promoted = f.raw.get("promoted", [])
            f._cfg = None
        return changed
    for p in order:
        expand(F.fns[p])
    for p, f in F.fns.items():
        if p not in ok:
            expand(f)
    return inlined_into
