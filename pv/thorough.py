"""Thorough tier: (a) re-run the property's rules on a release-profile extraction of the current tree
(overflow checks and debug assertions off: a different MIR of the same source), (b) sensitivity self-test:
every stored mutant that is mapped to the property is applied to a scratch copy of the *current* /repo
(outside /repo and /verif, removed afterwards) and the check must report a violation there; every benign
variant must leave it silent.  A mutant that no longer applies or compiles is skipped, never a failure.
Exit status: violations on the current tree decide 1; an insensitive rule or a false alarm on a benign
variant is an ANALYSIS-ERROR (2)."""
import os, sys, json, glob, subprocess, tempfile, shutil, time
from concurrent.futures import ThreadPoolExecutor

HERE = os.path.dirname(os.path.dirname(os.path.abspath(__file__)))


def _scratch(repo):
    w = tempfile.mkdtemp(prefix="pvthor.")
    os.makedirs(os.path.join(w, "repo"))
    subprocess.run("cd %s && tar --exclude=./target --exclude=./.git -cf - . | (cd %s/repo && tar xf -)" % (repo, w),
                   shell=True, check=True)
    return w


def _run_on(prop, repo_dir, facts_dir, extra_cargo=(), rustflags="", relax=False):
    env = dict(os.environ)
    if rustflags:
        env["PVX_RUSTFLAGS"] = rustflags
    r = subprocess.run([os.path.join(HERE, "bin", "extract.sh"), facts_dir, repo_dir] + list(extra_cargo),
                       capture_output=True, text=True, env=env)
    if r.returncode != 0:
        return None, "does not compile"
    env = dict(os.environ)
    env["PV_FACTS"] = facts_dir
    env["PV_REPO"] = repo_dir
    env["PV_NO_EVIDENCE"] = "1"
    if relax:
        env["PV_RELAX_FLOORS"] = "1"
    r = subprocess.run([sys.executable, "-m", "pv.main", prop, "--tier", "quick"], cwd=HERE, capture_output=True, text=True, env=env)
    return r.returncode, r.stdout


def _mutant(prop, repo, patch):
    w = _scratch(repo)
    try:
        r = subprocess.run(["patch", "-p1", "--no-backup-if-mismatch", "-s", "-i", patch], cwd=os.path.join(w, "repo"),
                           capture_output=True, text=True)
        if r.returncode != 0:
            return "skipped (patch does not apply)", None
        rc, out = _run_on(prop, os.path.join(w, "repo"), os.path.join(w, "facts"))
        if rc is None:
            return "skipped (" + out + ")", None
        first = ""
        for l in out.splitlines():
            if l.strip().startswith("violated:") or l.startswith("ANALYSIS-ERROR"):
                first = l.strip()
                break
        return rc, first
    finally:
        shutil.rmtree(w, ignore_errors=True)


def run(prop, repo="/repo"):
    t0 = time.time()
    rc_final = 0
    report = {"property": prop, "release_profile": None, "mutants": [], "benign": []}
    # (a) release profile
    w = tempfile.mkdtemp(prefix="pvthor.")
    try:
        rc, out = _run_on(prop, repo, os.path.join(w, "facts"), extra_cargo=["--release"], relax=True)
        head = out.splitlines()[0] if out else ""
        report["release_profile"] = {"rc": rc, "summary": head}
        print("thorough[%s] release-profile extraction: rc=%s %s" % (prop, rc, head))
        if rc == 1:
            for l in out.splitlines():
                if l.startswith(("VIOLATION", "  violated", "KNOWN-FINDING")):
                    print(l)
            rc_final = 1
        elif rc not in (0, 1):
            print(out)
            rc_final = 2
    finally:
        shutil.rmtree(w, ignore_errors=True)
    # (b) sensitivity
    mp = json.load(open(os.path.join(HERE, "selftest", "MAP.json")))
    mine = sorted(f for f, props in mp.items() if not f.startswith("_") and prop in props)
    seeded = sorted(glob.glob(os.path.join(HERE, "seeded", "*", "meta.json")))
    jobs = [("mutant", os.path.join(HERE, "selftest", "mutants", f)) for f in mine]
    for m in seeded:
        meta = json.load(open(m))
        if prop in meta.get("expected_to_fire", []):
            jobs.append(("seeded", os.path.join(os.path.dirname(m), "patch.diff")))
    # a benign variant that touches no crate the property analyses cannot change the property's verdict: it is recorded as
    # "not relevant" instead of being re-analysed (the crates come from the functions the quick pass just analysed)
    crates = None
    try:
        evq = json.load(open(os.path.join(HERE, "evidence", "%s.json" % prop)))
        crates = {f.split("::", 1)[0] for f in evq["coverage"].get("functions", [])}
    except Exception:
        crates = None
    dirs = {"pocket_types": "pocket-types/", "pocket_db": "pocket-db/"}
    skipped = 0
    for b in sorted(glob.glob(os.path.join(HERE, "selftest", "benign", "*.diff")) +
                    glob.glob(os.path.join(HERE, "selftest", "benign_r", "*.diff"))):
        if crates:
            touched = set()
            for line in open(b, errors="replace"):
                if line.startswith("+++ b/") or line.startswith("--- a/"):
                    touched.add(line[6:].strip())
            rel = any(any(t.startswith(dirs[c]) for c in crates if c in dirs) for t in touched)
            if touched and not rel:
                skipped += 1
                continue
        jobs.append(("benign", b))
    report["benign_not_relevant"] = skipped
    fired = applicable = 0
    # the self-test is bounded in time: mutants and seeds first, then the benign variants; what does not start within the
    # budget is recorded as not run (it says nothing about the tree under test either way)
    budget = float(os.environ.get("PV_THOROUGH_BUDGET_S", "900"))
    report["budget_s"] = budget

    def bounded(j):
        if time.time() - t0 > budget:
            return (j, ("skipped (time budget)", None))
        return (j, _mutant(prop, repo, j[1]))
    with ThreadPoolExecutor(max_workers=int(os.environ.get("PV_THOROUGH_WORKERS", "8"))) as ex:
        results = list(ex.map(bounded, jobs))
    report["not_run_time_budget"] = sum(1 for _, (rc, _f) in results if rc == "skipped (time budget)")
    for (kind, path), (rc, first) in results:
        name = os.path.relpath(path, HERE)
        if isinstance(rc, str):
            print("thorough[%s] %s %s: %s" % (prop, kind, name, rc))
            report["mutants" if kind != "benign" else "benign"].append({"patch": name, "result": rc})
            continue
        if kind == "benign":
            ok = rc == 0
            print("thorough[%s] benign %s: %s" % (prop, name, "silent" if ok else "FALSE ALARM rc=%s %s" % (rc, first)))
            report["benign"].append({"patch": name, "result": "silent" if ok else "false alarm", "detail": first})
            if not ok:
                print("ANALYSIS-ERROR property=%s false alarm on benign variant %s" % (prop, name))
                rc_final = max(rc_final, 2)
        else:
            applicable += 1
            ok = rc == 1
            fired += 1 if ok else 0
            print("thorough[%s] %s %s: %s" % (prop, kind, name, ("caught: " + first) if ok else "MISSED rc=%s %s" % (rc, first)))
            report["mutants"].append({"patch": name, "result": "caught" if ok else "missed", "detail": first})
            if not ok:
                print("ANALYSIS-ERROR property=%s rule insensitive to %s" % (prop, name))
                rc_final = max(rc_final, 2) if rc_final != 1 else 1
    report["applicable"] = applicable
    report["caught"] = fired
    report["wall_s"] = round(time.time() - t0, 1)
    # append to the evidence file written by the quick pass
    evp = os.path.join(HERE, "evidence", "%s.json" % prop)
    try:
        ev = json.load(open(evp))
        ev["tier"] = "thorough"
        ev["coverage"]["thorough"] = report
        ev["wall_s"] = round(ev.get("wall_s", 0) + report["wall_s"], 1)
        json.dump(ev, open(evp, "w"), indent=1)
    except Exception as e:
        print("thorough: could not extend evidence: %s" % e)
    return rc_final
