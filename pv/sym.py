"""Symbolic value analysis of one MIR body.

Produces SSA-like value expressions: every expression denotes one runtime value defined at a
single program point that dominates its uses (parameters and initial memory at entry, call
results and clobbers at their call site, phi values at their join block).  Because of that, a
branch fact about expressions established on an edge that dominates a point holds at that
point (standard SSA argument; see DESIGN 3.1).

Locations:  ("local",i) ("deref",V) ("field",L,f) ("index",L,V) ("cidx",L,n,fe)
            ("subslice",L,a,b,fe) ("downcast",L,v)
Values: see the constructors below.
"""
from .cfg import get_cfg
from .purity import std_pure as _std_pure

MISSING = ("missing",)

PURE_LEN = {
    "core::slice::{impl#0}::len",
}


# std functions that are pure in the *value* of their (shared reference / Copy) arguments
PURE_STD = {
    "core::str::{impl#0}::as_bytes",
    "core::str::{impl#0}::len",
    "core::slice::{impl#0}::as_ptr",
}


def is_loc_prefix(a, b):
    """location a is b or an ancestor of b"""
    while True:
        if a == b:
            return True
        if b[0] in ("field", "index", "cidx", "subslice", "downcast"):
            b = b[1]
        else:
            return False


def loc_parent(l):
    if l[0] in ("field", "index", "cidx", "subslice", "downcast"):
        return l[1]
    return None


def tk_bits(tk):
    if tk is None:
        return None
    if tk["k"] in ("uint", "int"):
        b = tk["bits"]
        return 64 if b == -1 else b
    if tk["k"] == "bool":
        return 1
    if tk["k"] == "char":
        return 32
    return None


def tk_unsigned(tk):
    return tk is not None and tk["k"] in ("uint", "bool", "char")


def callee_of(term):
    f = term["f"]
    if "path" in f:
        return f.get("res") or f["path"]
    return None


FN_TRAIT_CALLS = ("core::ops::function::FnMut::call_mut", "core::ops::function::Fn::call",
                  "core::ops::function::FnOnce::call_once")


class Analysis:
    def __init__(self, fn, facts=None):
        self.fn = fn
        self.F = facts
        self.cfg = get_cfg(fn)
        self.vtype = {}          # value -> tk
        self.in_state = {}
        self.out_state = {}
        self.converged = False
        self._cur = (0, 0)
        self.sticky = set()      # (block, loc) pairs that have become phi (monotone)
        # results of the recording pass
        self.stmt_val = {}       # (b,i) -> value assigned
        self.stmt_loc = {}       # (b,i) -> location assigned
        self.term = {}           # b -> dict(kind=..., args=[values], callee=..., dest=loc, discr=value, cond=value, msg=...)
        self.edge_cond = {}      # edge node -> (value, label) for switch; ("assert", cond, expected)
        self.local_tk = [l["ty"]["t"] for l in fn.locals]
        self.run()

    # ------------------------------------------------------------------ state helpers
    def read(self, st, L, _depth=0):
        v = st.get(L)
        if v is not None:
            return v
        k = L[0]
        if k == "field":
            pv = self.read_opt(st, L[1])
            if pv is not None:
                return self.project(pv, ("f", L[2]))
            return ("init", L)
        if k == "downcast":
            pv = self.read_opt(st, L[1])
            if pv is not None:
                return ("proj", pv, ("dc", L[2]))
            return ("init", L)
        if k == "index":
            if self.mutable_root(L[1]):
                # element of a local array / of memory behind a &mut: stores to elements are not
                # tracked, so each load is its own value
                return ("aload", L[1], L[2], self._cur)
            pv = self.read_opt(st, L[1])
            if pv is not None:
                base = pv
            elif L[1][0] == "deref":
                base = L[1][1]      # element of what this pointer value points to
            else:
                base = ("init", L[1])
            return ("elem", base, L[2])
        if k == "cidx":
            pv = self.read_opt(st, L[1])
            base = pv if pv is not None else ("init", L[1])
            if not L[3]:
                return ("elem", base, ("const", L[2], "usize"))
            return ("elemfe", base, L[2])
        if k == "subslice":
            pv = self.read_opt(st, L[1])
            base = pv if pv is not None else ("init", L[1])
            return ("subslice", base, L[2], L[3], L[4])
        if k == "deref" and L[1][0] == "promoted":
            pv = self.promoted_pointee(L[1])
            if pv is not None:
                return pv
        return ("init", L)

    def promoted_pointee(self, pv):
        """the constant a promoted `&CONST` points to"""
        if self.F is None or pv[1] != self.fn.path:
            return None
        idx = pv[2]
        cache = self.__dict__.setdefault("_promoted", {})
        if idx in cache:
            return cache[idx]
        cache[idx] = None
        try:
            raw = self.fn.promoted[idx]
        except IndexError:
            return None
        class _PF:
            pass
        pf = _PF()
        pf.path = self.fn.path + "::promoted[%d]" % idx
        pf.body = raw
        pf.blocks = raw["blocks"]
        pf.locals = raw["locals"]
        pf.argc = raw["argc"]
        pf.promoted = []
        pf._cfg = None
        pf.local_name = lambda i: "_%d" % i
        try:
            a = Analysis(pf, self.F)
        except Exception:
            return None
        for b, info in a.term.items():
            if info["kind"] == "return":
                v = info["value"]
                if v[0] == "ref":
                    st = a.state_before_term(b)
                    val = a.read(st, v[1])
                    if val[0] in ("const", "bytes", "agg", "repeat"):
                        cache[idx] = val
                    elif val[0] == "call" and all(isinstance(x, tuple) and x and x[0] == "const" for x in val[2]):
                        cache[idx] = strip_sites(val)       # a constructor applied to constants (a named range)
                        self.vtype.setdefault(val, a.vtype.get(val))
        return cache[idx]

    def mutable_root(self, L):
        """is the array/slice location L writable in this function (local storage or behind &mut)?"""
        while L[0] in ("field", "index", "downcast", "cidx", "subslice"):
            L = L[1]
        if L[0] == "local":
            i = L[1]
            if 1 <= i <= self.fn.argc:
                return False   # by-value parameter arrays are not modified in this code base
            return bool(self.fn.locals[i].get("mut", True))
        if L[0] == "deref":
            tk = self.vtype.get(L[1])
            if tk is not None and tk["k"] in ("ref", "ptr"):
                return bool(tk["mut"])
            return False
        return False

    def read_opt(self, st, L):
        """value of L if it is known (directly or derivable), else None"""
        v = st.get(L)
        if v is not None:
            return v
        k = L[0]
        if k in ("field", "downcast"):
            pv = self.read_opt(st, L[1])
            if pv is not None:
                if k == "field":
                    return self.project(pv, ("f", L[2]))
                return ("proj", pv, ("dc", L[2]))
        return None

    def project(self, pv, elem):
        if elem[0] == "f":
            f = elem[1]
            if pv[0] == "proj" and pv[2] == ("dc", 1) and pv[1][0] == "sliceget" and f == 0:
                sg = pv[1]
                return ("ref", ("index", ("deref", sg[1]), sg[2]))
            if pv[0] == "proj" and pv[2] == ("dc", 1) and pv[1][0] == "slicegetr" and f == 0:
                return pv[1][1]     # the sub-slice value itself
            if pv[0] == "agg" and f < len(pv[2]):
                return pv[2][f]
            if pv[0] == "checked":
                if f == 0:
                    return ("bin", pv[1], pv[2], pv[3])
                return ("ovf", pv[1], pv[2], pv[3])
            if pv[0] == "proj" and pv[2][0] == "dc":
                inner = pv[1]
                if inner[0] == "agg" and f < len(inner[2]):
                    return inner[2][f]
        return ("proj", pv, elem)

    def write(self, st, L, V):
        dead = [K for K in st if K != L and (is_loc_prefix(L, K) or is_loc_prefix(K, L))]
        for K in dead:
            # writing a field of a known aggregate: update the aggregate in place
            del st[K]
        st[L] = V
        if L[0] == "local":
            self.vtype.setdefault(V, self.local_tk[L[1]])

    def clobber(self, st, L, V):
        dead = [K for K in st if K != L and is_loc_prefix(L, K)]
        for K in dead:
            del st[K]
        # ancestors that cache an aggregate become stale too
        anc = [K for K in st if K != L and is_loc_prefix(K, L)]
        for K in anc:
            del st[K]
        st[L] = V

    # ------------------------------------------------------------------ evaluation
    def loc(self, st, place):
        L = ("local", place["l"])
        for e in place["p"]:
            if e == "*":
                v = self.read(st, L)
                if v[0] == "ref":
                    L = v[1]
                else:
                    L = ("deref", v)
            elif isinstance(e, dict):
                if "f" in e:
                    L = ("field", L, e["f"])
                elif "i" in e:
                    L = ("index", L, self.read(st, ("local", e["i"])))
                elif "ci" in e:
                    L = ("cidx", L, e["ci"], e["fe"])
                elif "sub" in e:
                    L = ("subslice", L, e["sub"], e["to"], e["fe"])
                elif "dc" in e:
                    L = ("downcast", L, e["dc"])
                else:
                    L = ("field", L, "?")
            else:
                pass  # opaque casts etc.: value unchanged
        return L

    def const(self, k):
        if "v" in k:
            return ("const", k["v"], k["ty"])
        if "fn" in k:
            return ("fn", k["fn"])
        if "static" in k:
            return ("static", k["static"])
        if "bytes" in k:
            return ("bytes", bytes(k["bytes"]), k["ty"])
        if "promoted" in k:
            return ("promoted", self.fn.path, k["promoted"])
        if "uneval" in k:
            if self.F is not None and hasattr(self.F, "const_value"):
                v = self.F.const_value(k["uneval"])
                if v is not None:
                    return v
            return ("kconst", k["uneval"], k["ty"])
        s = k["s"]
        return ("kconst", s, k["ty"])

    def operand(self, st, o):
        if "c" in o:
            return self.read(st, self.loc(st, o["c"]))
        if "m" in o:
            return self.read(st, self.loc(st, o["m"]))
        if "k" in o:
            v = self.const(o["k"])
            self.vtype.setdefault(v, o["k"].get("t"))
            return v
        if "rc" in o:
            return ("rc", o["rc"])
        return ("unknown",)

    def len_of(self, v):
        if v[0] == "slice":
            return ("bin", "Sub", v[3], v[2])
        if v[0] == "slicefrom":
            return ("bin", "Sub", self.len_of(v[1]), v[2])
        if v[0] == "sliceto":
            return v[2]
        if v[0] == "unsize":
            return ("const", v[2], "usize")
        if v[0] == "bytes":
            # &[u8; N] or &[u8] / &str constant
            return ("const", len(v[1]), "usize")
        if v[0] == "call" and v[1].rsplit("::", 1)[-1] in ("from_raw_parts", "from_raw_parts_mut") and len(v[2]) == 2:
            return v[2][1]
        if v[0] == "static":
            s = self.F.statics.get(v[1]) if self.F else None
            if s is not None:
                t = s["ty"]["t"]
                if t["k"] == "array":
                    return ("const", t["n"], "usize")
        tk = self.vtype.get(v)
        if tk is not None:
            t = tk
            while t["k"] == "ref":
                t = t["to"]
            if t["k"] == "array" and t["n"] >= 0:
                return ("const", t["n"], "usize")
        r = ("len", v)
        self.vtype.setdefault(r, {"k": "uint", "bits": -1})
        return r

    def rvalue(self, st, rv, site):
        r = rv["r"]
        if r == "use":
            return self.operand(st, rv["a"])
        if r in ("ref", "rawptr"):
            L = self.loc(st, rv["p"])
            if L[0] == "deref":
                return L[1]
            return ("ref", L)
        if r == "bin":
            a = self.operand(st, rv["a"])
            b = self.operand(st, rv["b"])
            op = rv["op"]
            ta = rv.get("ta")
            if ta is not None:
                self.vtype.setdefault(a, ta)
            tb = rv.get("tb")
            if tb is not None:
                self.vtype.setdefault(b, tb)
            if op.endswith("WithOverflow"):
                base = op[:-len("WithOverflow")]
                v = ("checked", base, a, b)
                inner = ("bin", base, a, b)
                if ta is not None:
                    self.vtype.setdefault(inner, ta)
                return v
            if op.endswith("Unchecked"):
                op = op[:-len("Unchecked")]
            v = ("bin", op, a, b)
            if op in ("Add", "Sub", "Mul", "Div", "Rem", "BitAnd", "BitOr", "BitXor", "Shl", "Shr") and ta is not None:
                self.vtype.setdefault(v, ta)
            return v
        if r == "un":
            a = self.operand(st, rv["a"])
            if rv["op"] == "PtrMetadata":
                return self.len_of(a)
            if rv["op"] == "Not":
                v = ("not", a)
                ta = rv.get("ta")
                if ta is not None:
                    self.vtype.setdefault(v, ta)
                return v
            return ("un", rv["op"], a)
        if r == "cast":
            a = self.operand(st, rv["a"])
            kind = rv["kind"]
            self.vtype.setdefault(a, rv["from"]["t"])
            if kind == "PointerCoercion:Unsize":
                ft = rv["from"]["t"]
                t = ft
                while t["k"] in ("ref", "ptr"):
                    t = t["to"]
                if t["k"] == "array":
                    v = ("unsize", a, t["n"])
                    return v
                return ("cast", kind, rv["ty"]["s"], a)
            if kind in ("PtrToPtr", "Transmute", "Subtype") or kind.startswith("PointerCoercion"):
                # pointer-preserving casts keep the identity of what is pointed to
                return ("ptrcast", rv["ty"]["s"], a)
            v = ("cast", kind, rv["ty"]["s"], a)
            self.vtype.setdefault(v, rv["ty"]["t"])
            return v
        if r == "discr":
            L = self.loc(st, rv["p"])
            return ("discr", self.read(st, L))
        if r == "agg":
            k = rv["kind"]
            if k["a"] == "adt":
                kind = "adt:%s:%s" % (k["path"], k["vn"])
            elif k["a"] == "closure":
                kind = "closure:" + k["path"]
            else:
                kind = k["a"]
            return ("agg", kind, tuple(self.operand(st, o) for o in rv["ops"]))
        if r == "repeat":
            return ("repeat", self.operand(st, rv["a"]), rv["n"])
        return ("unknown", r, site)

    RANGE_ADT = {
        "adt:core::ops::range::Range:Range": "range",
        "adt:core::ops::range::RangeFrom:RangeFrom": "from",
        "adt:core::ops::range::RangeTo:RangeTo": "to",
        "adt:core::ops::range::RangeInclusive:RangeInclusive": "incl",
    }

    def call_value(self, st, t, args, site):
        callee = callee_of(t)
        f = t["f"]
        t_aty = t.get("aty", [])
        if callee is None:
            return ("icall", self.operand(st, f["indirect"]), tuple(args), site)
        base = f["path"]
        if callee in PURE_LEN or base in PURE_LEN:
            return self.len_of(args[0])
        # s[a..b] etc. on slices (and through Vec/array Index impls that forward to slices)
        if base in ("core::ops::index::Index::index", "core::ops::index::IndexMut::index_mut") and len(args) == 2:
            rng = args[1]
            if rng[0] == "agg" and rng[1] in self.RANGE_ADT:
                kind = self.RANGE_ADT[rng[1]]
                S = args[0]
                if kind == "range":
                    return ("slice", S, rng[2][0], rng[2][1])
                if kind == "from":
                    return ("slicefrom", S, rng[2][0])
                if kind == "to":
                    return ("sliceto", S, rng[2][0])
        if base in ("core::slice::{impl#0}::get", "core::slice::{impl#0}::get_mut") and len(args) == 2:
            tk = self.vtype.get(args[1])
            if tk is not None and tk["k"] == "uint" and base.endswith("::get"):
                # Some(&S[i]) iff i < len(S): the payload is a reference to that element
                return ("sliceget", args[0], args[1])
            rng = args[1]
            if rng[0] == "agg" and rng[1] in self.RANGE_ADT:
                kind = self.RANGE_ADT[rng[1]]
                # Some(sub-slice) iff the range lies inside S
                if kind == "range":
                    return ("slicegetr", ("slice", args[0], rng[2][0], rng[2][1]))
                if kind == "from":
                    return ("slicegetr", ("slicefrom", args[0], rng[2][0]))
                if kind == "to":
                    return ("slicegetr", ("sliceto", args[0], rng[2][0]))
        if base == "core::slice::{impl#0}::is_empty" and len(args) == 1:
            v = ("bin", "Eq", self.len_of(args[0]), ("const", 0, "usize"))
            return v
        if base.endswith("::as_slice") and base.startswith("core::array::") and len(args) == 1:
            tk = self.vtype.get(args[0])
            t = tk
            while t is not None and t["k"] in ("ref", "ptr"):
                t = t["to"]
            if t is not None and t["k"] == "array" and t["n"] >= 0:
                return ("unsize", args[0], t["n"])
        if base == "core::ops::try_trait::Try::branch":
            return ("try", args[0])
        if base in PURE_STD and all(a[0] != "ref" for a in args):
            return ("call", callee, tuple(args), None)
        if self.F is not None and (callee in self.F.pure or (
                callee not in self.F.fns and base not in self.F.fns and
                (_std_pure(callee) or _std_pure(base)) and
                not base.endswith(("::branch", "::from_residual")) and
                not any(t.startswith("&mut") for t in t_aty))):
            # pure function: identity of the call site is irrelevant; arguments that are
            # references to locals are replaced by the value they point to
            a2 = []
            for a in args:
                if a[0] == "ref":
                    a2.append(("byref", self.read(st, a[1])))
                else:
                    a2.append(a)
            return ("call", callee, tuple(a2), None)
        return ("call", callee, tuple(args), site)

    # ------------------------------------------------------------------ transfer
    def transfer(self, b, st, record=False):
        blk = self.fn.blocks[b]
        for i, s in enumerate(blk["stmts"]):
            self._cur = (b, i)
            if s["s"] == "assign":
                L = self.loc(st, s["lhs"])
                v = self.rvalue(st, s["rv"], (b, i))
                lty = s.get("lty")
                if lty is not None:
                    self.vtype.setdefault(v, lty)
                if L[0] in ("index", "cidx", "subslice"):
                    # element stores are not tracked (reads of elements are never cached)
                    if record:
                        self.stmt_val[(b, i)] = v
                        self.stmt_loc[(b, i)] = L
                    continue
                self.write(st, L, v)
                if record:
                    self.stmt_val[(b, i)] = v
                    self.stmt_loc[(b, i)] = L
            elif s["s"] == "setdiscr":
                L = self.loc(st, s["lhs"])
                self.clobber(st, L, ("setdiscr", s["v"], (b, i)))
            elif s["s"] == "dead":
                root = ("local", s["l"])
                for K in [K for K in st if is_loc_prefix(root, K)]:
                    del st[K]
        t = blk["term"]
        k = t["t"]
        self._cur = (b, "t")
        if k == "call":
            args = [self.operand(st, a) for a in t["args"]]
            site = (self.fn.path, b)
            if callee_of(t) in FN_TRAIT_CALLS and args:
                # a call through Fn/FnMut/FnOnce whose receiver is (a reference to) a local closure of this function
                # - as left by inlining a generic helper that took the closure as a parameter - is a call of that closure
                r = args[0]
                while r[0] in ("ref", "deref", "byref") and len(r) > 1 and isinstance(r[1], tuple):
                    r = r[1]
                if r[0] == "local" and self.local_tk[r[1]].get("k") == "closure":
                    t = dict(t)
                    t["f"] = dict(t["f"], res=self.local_tk[r[1]]["path"])
                elif r[0] == "local":
                    # a generic parameter of an inlined helper holding a closure or a function item
                    val = self.read_opt(st, r)
                    if val is not None and val[0] == "agg" and isinstance(val[1], str) and val[1].startswith("closure:"):
                        t = dict(t)
                        t["f"] = dict(t["f"], res=val[1][len("closure:"):])
                    elif val is not None and val[0] == "fn":
                        t = dict(t)
                        t["f"] = dict(t["f"], res=val[1], untupled=True)
                        tup = args[1] if len(args) > 1 else None
                        if tup is not None and tup[0] == "agg" and tup[1] == "tuple":
                            args = list(tup[2])
                elif r[0] == "fn":
                    t = dict(t)
                    t["f"] = dict(t["f"], res=r[1], untupled=True)
                    tup = args[1] if len(args) > 1 else None
                    if tup is not None and tup[0] == "agg" and tup[1] == "tuple":
                        args = list(tup[2])
            v = self.call_value(st, t, args, site)
            dest = self.loc(st, t["dest"])
            # value of what each pointer argument points to, before the call
            pre = []
            for a in args:
                a0 = a
                while a0[0] in ("unsize", "ptrcast"):
                    a0 = a0[1] if a0[0] == "unsize" else a0[2]
                if a0[0] == "ref":
                    pre.append(self.read(st, a0[1]))
                else:
                    pre.append(self.read(st, ("deref", a0)))
            # clobber what is reachable through &mut arguments
            for ai, (a, aty) in enumerate(zip(args, t["aty"])):
                if aty.startswith("&mut ") or aty.startswith("*mut "):
                    if a[0] == "ref":
                        tgt = a[1]
                    elif a[0] in ("slice", "slicefrom", "sliceto", "unsize", "subslice"):
                        continue  # contents of slices are never cached
                    else:
                        tgt = ("deref", a)
                    self.clobber(st, tgt, ("clob", site, ai))
            self.write(st, dest, v)
            dl = t["dest"]
            if not dl["p"]:
                self.vtype.setdefault(v, self.local_tk[dl["l"]])
            if record:
                self.term[b] = {"kind": "call", "callee": callee_of(t), "base": t["f"].get("path"),
                                "args": args, "aty": t["aty"], "dest": dest, "value": v, "sp": t["sp"],
                                "f": t["f"], "site": site, "pre": pre}
                for e in self.cfg.out_edges[b]:
                    self.edge_cond[e.node] = ("callret", b)
        elif k == "switch":
            d = self.operand(st, t["d"])
            if record:
                self.term[b] = {"kind": "switch", "discr": d, "dty": t["dty"], "sp": t["sp"]}
                for e in self.cfg.out_edges[b]:
                    self.edge_cond[e.node] = ("switch", d, e.label, t["dty"])
        elif k == "assert":
            c = self.operand(st, t["cond"])
            m = t["msg"]
            info = {"kind": "assert", "cond": c, "expected": t["expected"], "mk": m["k"], "sp": t["sp"]}
            if m["k"] == "BoundsCheck":
                info["len"] = self.operand(st, m["len"])
                info["index"] = self.operand(st, m["index"])
            elif m["k"] == "Overflow":
                info["op"] = m["op"]
                info["a"] = self.operand(st, m["a"])
                info["b"] = self.operand(st, m["b"])
            elif m["k"] in ("OverflowNeg", "DivisionByZero", "RemainderByZero"):
                info["a"] = self.operand(st, m["a"])
            if record:
                self.term[b] = info
                for e in self.cfg.out_edges[b]:
                    self.edge_cond[e.node] = ("assert", c, t["expected"], info)
        elif k == "drop":
            if record:
                self.term[b] = {"kind": "drop", "loc": self.loc(st, t["p"]), "pty": t["pty"], "sp": t["sp"]}
        elif k == "return":
            if record:
                self.term[b] = {"kind": "return", "value": self.read(st, ("local", 0)), "sp": t["sp"]}
        else:
            if record:
                self.term[b] = {"kind": k, "sp": t["sp"]}
        return st

    def join(self, b, pred_states):
        if len(pred_states) == 1:
            return dict(pred_states[0])
        keys = set()
        for ps in pred_states:
            keys.update(ps.keys())
        out = {}
        for L in keys:
            phi = ("phi", b, L)
            vals = []
            for ps in pred_states:
                v = ps.get(L)
                if v is None:
                    v = self.read(ps, L)
                vals.append(v)
            distinct = set(vals)
            distinct.discard(phi)
            if len(distinct) == 1 and (b, L) not in self.sticky:
                out[L] = distinct.pop()
            else:
                self.sticky.add((b, L))
                out[L] = phi
                # type of phi = type of any incoming
                for v in vals:
                    tk = self.vtype.get(v)
                    if tk is not None:
                        self.vtype.setdefault(phi, tk)
                        break
                if L[0] == "local":
                    self.vtype.setdefault(phi, self.local_tk[L[1]])
        return out

    def run(self):
        cfg = self.cfg
        order = cfg.block_rpo()
        init = {}
        for i in range(1, self.fn.argc + 1):
            v = ("param", i)
            init[("local", i)] = v
            self.vtype[v] = self.local_tk[i]
        passes = 0
        changed = True
        while changed and passes < 40:
            changed = False
            passes += 1
            for b in order:
                if b == cfg.entry:
                    st = dict(init)
                else:
                    preds = [self.out_state[e.src] for e in cfg.in_edges[b] if e.src in self.out_state]
                    if not preds:
                        continue
                    st = self.join(b, preds)
                if self.in_state.get(b) == st and b in self.out_state:
                    continue
                self.in_state[b] = st
                self.out_state[b] = self.transfer(b, dict(st))
                changed = True
        self.converged = not changed
        self.passes = passes
        # recording pass
        for b in order:
            if b in self.in_state:
                self.transfer(b, dict(self.in_state[b]), record=True)

    # ------------------------------------------------------------------ queries
    def state_before_term(self, b):
        """state just before the terminator of b (statements applied)"""
        st = dict(self.in_state[b])
        blk = self.fn.blocks[b]
        saved = blk["term"]
        # apply statements only
        for i, s in enumerate(blk["stmts"]):
            if s["s"] == "assign":
                L = self.loc(st, s["lhs"])
                v = self.rvalue(st, s["rv"], (b, i))
                if L[0] in ("index", "cidx", "subslice"):
                    continue
                self.write(st, L, v)
        return st

    def calls(self):
        """iterate (block, terminfo) over recorded call terminators"""
        for b, info in sorted(self.term.items()):
            if info["kind"] == "call":
                yield b, info


_cache = {}


def analyze(fn, facts=None):
    a = _cache.get(id(fn))
    if a is None:
        a = Analysis(fn, facts)
        _cache[id(fn)] = a
    return a


# ---------------------------------------------------------------------- value utilities
def walk(v, fn_):
    """pre-order walk over a value tree"""
    stack = [v]
    while stack:
        x = stack.pop()
        if not isinstance(x, tuple) or not x:
            continue
        if isinstance(x[0], str):
            fn_(x)
            rest = x[1:]
        else:
            rest = x
        for y in rest:
            if isinstance(y, tuple):
                stack.append(y)


def contains(v, pred):
    found = []

    def f(x):
        if pred(x):
            found.append(x)
    walk(v, f)
    return bool(found)


def strip_sites(v):
    """drop call-site identities so that equal pure calls compare equal"""
    if not isinstance(v, tuple):
        return v
    if v and v[0] == "call":
        return ("call", v[1], tuple(strip_sites(a) for a in v[2]))
    if v and v[0] == "icall":
        return ("icall", strip_sites(v[1]), tuple(strip_sites(a) for a in v[2]))
    return tuple(strip_sites(x) for x in v)


def show(v, fn=None, depth=0):
    """compact human rendering of a value"""
    if not isinstance(v, tuple) or not v:
        return repr(v)
    if depth > 8:
        return "..."
    t = v[0]
    s = lambda x: show(x, fn, depth + 1)
    if t == "param":
        return fn.local_name(v[1]) if fn else "arg%d" % v[1]
    if t == "const":
        return str(v[1])
    if t == "bytes":
        return "b%r" % v[1].decode("latin1")
    if t == "init":
        return showloc(v[1], fn, depth + 1)
    if t == "ref":
        return "&" + showloc(v[1], fn, depth + 1)
    if t == "bin":
        sym = {"Add": "+", "Sub": "-", "Mul": "*", "Lt": "<", "Le": "<=", "Gt": ">", "Ge": ">=", "Eq": "==",
               "Ne": "!=", "BitAnd": "&", "BitOr": "|", "Shl": "<<", "Shr": ">>", "Rem": "%", "Div": "/"}.get(v[1], v[1])
        return "(%s %s %s)" % (s(v[2]), sym, s(v[3]))
    if t == "checked":
        return "checked(%s %s %s)" % (s(v[2]), v[1], s(v[3]))
    if t == "len":
        return "len(%s)" % s(v[1])
    if t == "call":
        nm = v[1].split("::")
        nm = "::".join(nm[-2:])
        return "%s(%s)" % (nm, ", ".join(s(a) for a in v[2]))
    if t == "clob":
        return "clob@%s#%d" % (v[1][1], v[2])
    if t == "phi":
        return "phi@bb%d(%s)" % (v[1], showloc(v[2], fn, depth + 1))
    if t == "elem":
        return "%s[%s]" % (s(v[1]), s(v[2]))
    if t == "cast":
        return "(%s as %s)" % (s(v[3]), v[2])
    if t in ("slice",):
        return "%s[%s..%s]" % (s(v[1]), s(v[2]), s(v[3]))
    if t == "slicefrom":
        return "%s[%s..]" % (s(v[1]), s(v[2]))
    if t == "sliceto":
        return "%s[..%s]" % (s(v[1]), s(v[2]))
    if t == "not":
        return "!%s" % s(v[1])
    if t == "discr":
        return "discr(%s)" % s(v[1])
    if t == "try":
        return "try(%s)" % s(v[1])
    if t == "proj":
        return "%s.%s" % (s(v[1]), v[2][1])
    if t == "agg":
        return "%s{%s}" % (v[1].split(":")[-1], ", ".join(s(a) for a in v[2]))
    if t == "unsize":
        return s(v[1])
    if t == "static":
        return v[1].split("::")[-1]
    return "%s(%s)" % (t, ", ".join(s(x) if isinstance(x, tuple) else str(x) for x in v[1:]))


def showloc(L, fn=None, depth=0):
    t = L[0]
    if t == "local":
        return fn.local_name(L[1]) if fn else "_%d" % L[1]
    if t == "deref":
        return "*%s" % show(L[1], fn, depth + 1)
    if t == "field":
        return "%s.%s" % (showloc(L[1], fn, depth + 1), L[2])
    if t == "index":
        return "%s[%s]" % (showloc(L[1], fn, depth + 1), show(L[2], fn, depth + 1))
    if t == "downcast":
        return "(%s as v%s)" % (showloc(L[1], fn, depth + 1), L[2])
    return str(L)
