"""Control-flow graph over extracted MIR, with edge nodes, dominators, post-dominators, loops.

Cleanup (unwind) blocks are excluded: a panic is itself what the G-rules look for, and no rule
reasons about state after unwinding.

Node numbering: block b is node b.  Every CFG edge (b -> t, label) additionally gets an *edge
node* so that "edge e dominates point p" is an ordinary dominance query.  Edge nodes are
numbered from nblocks upward.
"""


class Edge:
    __slots__ = ("src", "dst", "label", "node")

    def __init__(self, src, dst, label, node):
        self.src = src
        self.dst = dst
        self.label = label  # ("goto",) | ("switch", value) | ("otherwise", (values...)) |
        #                     ("assert_ok",) | ("call_ret",) | ("drop",)
        self.node = node

    def __repr__(self):
        return "E(bb%d->bb%d %s)" % (self.src, self.dst, self.label)


class CFG:
    def __init__(self, fn):
        self.fn = fn
        blocks = fn.blocks
        n = len(blocks)
        self.nblocks = n
        self.live = [not b["cleanup"] for b in blocks]
        self.edges = []
        self.out_edges = [[] for _ in range(n)]
        self.in_edges = [[] for _ in range(n)]
        for bi, b in enumerate(blocks):
            if not self.live[bi]:
                continue
            t = b["term"]
            k = t["t"]
            outs = []
            if k == "goto":
                outs.append((t["target"], ("goto",)))
            elif k == "switch":
                vals = []
                for v, tb in t["targets"]:
                    outs.append((tb, ("switch", v)))
                    vals.append(v)
                outs.append((t["otherwise"], ("otherwise", tuple(vals))))
            elif k == "call":
                if t["target"] is not None:
                    outs.append((t["target"], ("call_ret",)))
            elif k == "assert":
                outs.append((t["target"], ("assert_ok",)))
            elif k == "drop":
                outs.append((t["target"], ("drop",)))
            for dst, label in outs:
                if not self.live[dst]:
                    continue
                e = Edge(bi, dst, label, n + len(self.edges))
                self.edges.append(e)
                self.out_edges[bi].append(e)
                self.in_edges[dst].append(e)
        self.nnodes = n + len(self.edges)
        # node-level successor lists (block -> edge node -> block)
        self.succ = [[] for _ in range(self.nnodes)]
        self.pred = [[] for _ in range(self.nnodes)]
        for e in self.edges:
            self.succ[e.src].append(e.node)
            self.pred[e.node].append(e.src)
            self.succ[e.node].append(e.dst)
            self.pred[e.dst].append(e.node)
        self.entry = 0
        self._rpo = None
        self._idom = None
        self._ipdom = None
        self._domdepth = None
        self.reachable = set(self.rpo())

    # ---------------------------------------------------------------- orders
    def rpo(self):
        if self._rpo is None:
            seen = set()
            order = []
            stack = [(self.entry, iter(self.succ[self.entry]))]
            seen.add(self.entry)
            while stack:
                node, it = stack[-1]
                adv = False
                for s in it:
                    if s not in seen:
                        seen.add(s)
                        stack.append((s, iter(self.succ[s])))
                        adv = True
                        break
                if not adv:
                    order.append(node)
                    stack.pop()
            order.reverse()
            self._rpo = order
        return self._rpo

    def block_rpo(self):
        return [x for x in self.rpo() if x < self.nblocks]

    # ---------------------------------------------------------------- dominators
    @staticmethod
    def _compute_idom(order, preds, entry):
        # Cooper-Harvey-Kennedy
        idx = {n: i for i, n in enumerate(order)}
        idom = {entry: entry}
        changed = True
        while changed:
            changed = False
            for n in order:
                if n == entry:
                    continue
                new = None
                for p in preds[n]:
                    if p in idom and p in idx:
                        if new is None:
                            new = p
                        else:
                            a, b = p, new
                            while a != b:
                                while idx[a] > idx[b]:
                                    a = idom[a]
                                while idx[b] > idx[a]:
                                    b = idom[b]
                            new = a
                if new is not None and idom.get(n) != new:
                    idom[n] = new
                    changed = True
        return idom

    def idom(self):
        if self._idom is None:
            self._idom = self._compute_idom(self.rpo(), self.pred, self.entry)
            depth = {}
            for n in self.rpo():
                if n == self.entry:
                    depth[n] = 0
                else:
                    depth[n] = depth[self._idom[n]] + 1
            self._domdepth = depth
        return self._idom

    def dominates(self, a, b):
        """node a dominates node b (reflexive)."""
        idom = self.idom()
        if a not in idom or b not in idom:
            return False
        da = self._domdepth[a]
        while self._domdepth[b] > da:
            b = idom[b]
        return a == b

    def dominators(self, b):
        idom = self.idom()
        out = []
        if b not in idom:
            return out
        while True:
            out.append(b)
            if b == self.entry:
                break
            b = idom[b]
        return out

    # post-dominators w.r.t. a virtual exit joining all return blocks (and only those:
    # panicking / diverging exits are not "normal" exits)
    def ipdom(self, exit_blocks=None):
        key = tuple(sorted(exit_blocks)) if exit_blocks is not None else None
        if self._ipdom is None:
            self._ipdom = {}
        if key in self._ipdom:
            return self._ipdom[key]
        VEXIT = self.nnodes
        if exit_blocks is None:
            exit_blocks = [bi for bi in range(self.nblocks)
                           if self.live[bi] and self.fn.blocks[bi]["term"]["t"] == "return"]
        rsucc = {n: list(self.pred[n]) for n in range(self.nnodes)}
        rsucc[VEXIT] = list(exit_blocks)
        rpred = {n: list(self.succ[n]) for n in range(self.nnodes)}
        rpred[VEXIT] = []
        for b in exit_blocks:
            rpred[b] = rpred[b] + [VEXIT]
        # reverse post-order on the reversed graph
        seen = {VEXIT}
        order = []
        stack = [(VEXIT, iter(rsucc[VEXIT]))]
        while stack:
            node, it = stack[-1]
            adv = False
            for s in it:
                if s not in seen:
                    seen.add(s)
                    stack.append((s, iter(rsucc[s])))
                    adv = True
                    break
            if not adv:
                order.append(node)
                stack.pop()
        order.reverse()
        res = self._compute_idom(order, rpred, VEXIT)
        self._ipdom[key] = res
        return res

    def postdominates(self, a, b, exit_blocks=None):
        """node a post-dominates node b: every path from b to a normal exit passes a."""
        ip = self.ipdom(exit_blocks)
        VEXIT = self.nnodes
        if b not in ip:
            return False  # b cannot reach exit
        x = b
        while True:
            if x == a:
                return True
            if x == VEXIT:
                return False
            nx = ip.get(x)
            if nx is None or nx == x:
                return False
            x = nx

    # ---------------------------------------------------------------- loops
    def back_edges(self):
        out = []
        for e in self.edges:
            if e.src in self.reachable and self.dominates(e.dst, e.src):
                out.append(e)
        return out

    def natural_loops(self):
        """header -> set of blocks in the loop (merged over back edges to the same header)."""
        loops = {}
        for e in self.back_edges():
            h = e.dst
            body = loops.setdefault(h, {h})
            stack = [e.src]
            while stack:
                x = stack.pop()
                if x in body:
                    continue
                body.add(x)
                for ie in self.in_edges[x]:
                    if ie.src in self.reachable:
                        stack.append(ie.src)
        return loops

    def reach_from(self, start_nodes, avoid=()):
        """blocks/nodes reachable from the given nodes without entering `avoid` nodes."""
        avoid = set(avoid)
        seen = set()
        stack = [s for s in start_nodes if s not in avoid]
        while stack:
            x = stack.pop()
            if x in seen:
                continue
            seen.add(x)
            for s in self.succ[x]:
                if s not in avoid and s not in seen:
                    stack.append(s)
        return seen

    def edge(self, src, dst, label_kind=None):
        for e in self.out_edges[src]:
            if e.dst == dst and (label_kind is None or e.label[0] == label_kind):
                return e
        return None


def get_cfg(fn):
    if fn._cfg is None:
        fn._cfg = CFG(fn)
    return fn._cfg
