// pvx: MIR fact extractor for the pocket verification rules.
//
// Runs as RUSTC_WRAPPER: argv[1] is the real rustc path (dropped), the rest are the
// rustc arguments.  For the crates named in PVX_CRATES it dumps, after analysis, one JSON
// fact file `<PVX_OUT>/<crate>.json` (one write per process); for every other crate it is
// a transparent rustc.
#![feature(rustc_private)]

extern crate rustc_abi;
extern crate rustc_driver;
extern crate rustc_hir;
extern crate rustc_interface;
extern crate rustc_middle;
extern crate rustc_span;

use rustc_driver::{Callbacks, Compilation};
use rustc_hir::def::DefKind;
use rustc_hir::def_id::{DefId, LOCAL_CRATE};
use rustc_middle::mir::{self, *};
use rustc_middle::ty::{self, Ty, TyCtxt};
use rustc_span::Span;
use std::fmt::Write as _;

// ---------------------------------------------------------------- tiny JSON writer
fn jstr(out: &mut String, s: &str) {
    out.push('"');
    for c in s.chars() {
        match c {
            '"' => out.push_str("\\\""),
            '\\' => out.push_str("\\\\"),
            '\n' => out.push_str("\\n"),
            '\r' => out.push_str("\\r"),
            '\t' => out.push_str("\\t"),
            c if (c as u32) < 0x20 => {
                let _ = write!(out, "\\u{:04x}", c as u32);
            }
            c => out.push(c),
        }
    }
    out.push('"');
}

fn js(s: &str) -> String {
    let mut o = String::new();
    jstr(&mut o, s);
    o
}

fn jlist(items: Vec<String>) -> String {
    let mut o = String::from("[");
    for (i, it) in items.iter().enumerate() {
        if i > 0 {
            o.push(',');
        }
        o.push_str(it);
    }
    o.push(']');
    o
}

fn jobj(items: Vec<(&str, String)>) -> String {
    let mut o = String::from("{");
    for (i, (k, v)) in items.iter().enumerate() {
        if i > 0 {
            o.push(',');
        }
        jstr(&mut o, k);
        o.push(':');
        o.push_str(v);
    }
    o.push('}');
    o
}

// ---------------------------------------------------------------- extraction
struct Cx<'tcx> {
    tcx: TyCtxt<'tcx>,
}

impl<'tcx> Cx<'tcx> {
    fn span(&self, sp: Span) -> String {
        let sm = self.tcx.sess.source_map();
        // The span attributed to user code: walk out of macro expansions to the call site.
        let from_exp = sp.from_expansion();
        let mut mac = String::new();
        if from_exp {
            let mut s = sp;
            // innermost macro name
            let data = s.ctxt().outer_expn_data();
            if let rustc_span::ExpnKind::Macro(_, name) = data.kind {
                mac = name.to_string();
            } else {
                mac = format!("{:?}", data.kind);
            }
            // outermost call site
            while s.from_expansion() {
                s = s.ctxt().outer_expn_data().call_site;
            }
            let lo = sm.lookup_char_pos(s.lo());
            let inner = sm.lookup_char_pos(sp.lo());
            return jobj(vec![
                ("f", js(&lo.file.name.prefer_local_unconditionally().to_string())),
                ("l", lo.line.to_string()),
                ("c", lo.col.0.to_string()),
                ("x", js(&mac)),
                ("xf", js(&inner.file.name.prefer_local_unconditionally().to_string())),
                ("xl", inner.line.to_string()),
            ]);
        }
        let lo = sm.lookup_char_pos(sp.lo());
        let hi = sm.lookup_char_pos(sp.hi());
        jobj(vec![
            ("f", js(&lo.file.name.prefer_local_unconditionally().to_string())),
            ("l", lo.line.to_string()),
            ("c", lo.col.0.to_string()),
            ("l2", hi.line.to_string()),
        ])
    }

    fn path(&self, d: DefId) -> String {
        // crate-qualified, untrimmed, stable path
        let krate = self.tcx.crate_name(d.krate).to_string();
        let p = self.tcx.def_path(d).to_string_no_crate_verbose();
        format!("{}{}", krate, p)
    }

    fn tk(&self, t: Ty<'tcx>, depth: usize) -> String {
        if depth > 4 {
            return jobj(vec![("k", js("deep"))]);
        }
        match t.kind() {
            ty::Bool => jobj(vec![("k", js("bool"))]),
            ty::Char => jobj(vec![("k", js("char"))]),
            ty::Int(i) => jobj(vec![
                ("k", js("int")),
                ("bits", i.bit_width().map(|b| b as i64).unwrap_or(-1).to_string()),
            ]),
            ty::Uint(u) => jobj(vec![
                ("k", js("uint")),
                ("bits", u.bit_width().map(|b| b as i64).unwrap_or(-1).to_string()),
            ]),
            ty::Float(_) => jobj(vec![("k", js("float")), ("s", js(&t.to_string()))]),
            ty::Str => jobj(vec![("k", js("str"))]),
            ty::Ref(_, inner, m) => jobj(vec![
                ("k", js("ref")),
                ("mut", m.is_mut().to_string()),
                ("to", self.tk(*inner, depth + 1)),
            ]),
            ty::RawPtr(inner, m) => jobj(vec![
                ("k", js("ptr")),
                ("mut", m.is_mut().to_string()),
                ("to", self.tk(*inner, depth + 1)),
            ]),
            ty::Slice(inner) => jobj(vec![("k", js("slice")), ("of", self.tk(*inner, depth + 1))]),
            ty::Array(inner, n) => {
                let nn = n.try_to_target_usize(self.tcx).map(|v| v as i128).unwrap_or(-1);
                jobj(vec![
                    ("k", js("array")),
                    ("of", self.tk(*inner, depth + 1)),
                    ("n", nn.to_string()),
                ])
            }
            ty::Adt(def, args) => {
                let mut a = vec![];
                for g in args.iter() {
                    if let Some(t2) = g.as_type() {
                        a.push(self.tk(t2, depth + 1));
                    }
                }
                jobj(vec![
                    ("k", js("adt")),
                    ("path", js(&self.path(def.did()))),
                    ("args", jlist(a)),
                ])
            }
            ty::Tuple(ts) => {
                let a: Vec<String> = ts.iter().map(|x| self.tk(x, depth + 1)).collect();
                jobj(vec![("k", js("tuple")), ("of", jlist(a))])
            }
            ty::Closure(d, _) => jobj(vec![("k", js("closure")), ("path", js(&self.path(*d)))]),
            ty::FnDef(d, _) => jobj(vec![("k", js("fndef")), ("path", js(&self.path(*d)))]),
            ty::Param(p) => jobj(vec![("k", js("param")), ("name", js(p.name.as_str()))]),
            ty::Never => jobj(vec![("k", js("never"))]),
            _ => jobj(vec![("k", js("other")), ("s", js(&t.to_string()))]),
        }
    }

    fn ty(&self, t: Ty<'tcx>) -> String {
        jobj(vec![("s", js(&t.to_string())), ("t", self.tk(t, 0))])
    }

    fn place(&self, p: &Place<'tcx>) -> String {
        let mut projs = vec![];
        for e in p.projection.iter() {
            let s = match e {
                ProjectionElem::Deref => js("*"),
                ProjectionElem::Field(f, t) => jobj(vec![
                    ("f", f.as_usize().to_string()),
                    ("ty", js(&t.to_string())),
                ]),
                ProjectionElem::Index(l) => jobj(vec![("i", l.as_usize().to_string())]),
                ProjectionElem::ConstantIndex { offset, min_length, from_end } => jobj(vec![
                    ("ci", offset.to_string()),
                    ("min", min_length.to_string()),
                    ("fe", from_end.to_string()),
                ]),
                ProjectionElem::Subslice { from, to, from_end } => jobj(vec![
                    ("sub", from.to_string()),
                    ("to", to.to_string()),
                    ("fe", from_end.to_string()),
                ]),
                ProjectionElem::Downcast(name, v) => jobj(vec![
                    ("dc", v.as_usize().to_string()),
                    ("n", js(&name.map(|s| s.to_string()).unwrap_or_default())),
                ]),
                ProjectionElem::OpaqueCast(_) => js("opaque"),
                ProjectionElem::UnwrapUnsafeBinder(_) => js("unwrapbinder"),
            };
            projs.push(s);
        }
        jobj(vec![("l", p.local.as_usize().to_string()), ("p", jlist(projs))])
    }

    fn constant(&self, c: &ConstOperand<'tcx>, env: ty::TypingEnv<'tcx>) -> String {
        let t = c.const_.ty();
        let mut items = vec![("ty", js(&t.to_string())), ("t", self.tk(t, 0))];
        // scalar value
        let mut have_v = false;
        if t.is_integral() || t.is_bool() || t.is_char() {
            if let Some(si) = c.const_.try_eval_scalar_int(self.tcx, env) {
                let size = si.size();
                let bits = si.to_bits(size);
                let v: i128 = if t.is_signed() {
                    size.sign_extend(bits) as i128
                } else {
                    bits as i128
                };
                items.push(("v", v.to_string()));
                have_v = true;
            }
        }
        if let ty::FnDef(d, args) = t.kind() {
            items.push(("fn", js(&self.path(*d))));
            let a: Vec<String> = args.iter().map(|g| js(&g.to_string())).collect();
            items.push(("ga", jlist(a)));
        }
        // byte strings / str slices
        if !have_v {
            if let Ok(val) = c.const_.eval(self.tcx, env, c.span) {
                if let mir::ConstValue::Slice { .. } = val {
                    if let Some(bytes) = val.try_get_slice_bytes_for_diagnostics(self.tcx) {
                        let b: Vec<String> = bytes.iter().map(|x| x.to_string()).collect();
                        items.push(("bytes", jlist(b)));
                    }
                }
            }
        }
        // pointer to a static / global allocation
        if let mir::Const::Val(mir::ConstValue::Scalar(rustc_middle::mir::interpret::Scalar::Ptr(ptr, _)), _) = c.const_ {
            let aid = ptr.provenance.alloc_id();
            match self.tcx.global_alloc(aid) {
                rustc_middle::mir::interpret::GlobalAlloc::Static(d) => {
                    items.push(("static", js(&self.path(d))));
                }
                rustc_middle::mir::interpret::GlobalAlloc::Memory(m) => {
                    let ia = m.inner();
                    if ia.provenance().ptrs().is_empty() && ia.len() <= 4096 {
                        let bytes = ia.inspect_with_uninit_and_ptr_outside_interpreter(0..ia.len());
                        let b: Vec<String> = bytes.iter().map(|x| x.to_string()).collect();
                        items.push(("bytes", jlist(b)));
                    }
                }
                _ => {}
            }
        }
        // promoted / unevaluated reference
        if let mir::Const::Unevaluated(u, _) = c.const_ {
            if let Some(p) = u.promoted {
                items.push(("promoted", p.as_usize().to_string()));
            } else {
                items.push(("uneval", js(&self.path(u.def))));
            }
        }
        items.push(("s", js(&format!("{}", c.const_))));
        jobj(items)
    }

    fn operand(&self, o: &Operand<'tcx>, env: ty::TypingEnv<'tcx>) -> String {
        match o {
            Operand::Copy(p) => jobj(vec![("c", self.place(p))]),
            Operand::Move(p) => jobj(vec![("m", self.place(p))]),
            Operand::Constant(c) => jobj(vec![("k", self.constant(c, env))]),
            Operand::RuntimeChecks(rc) => jobj(vec![("rc", js(&format!("{:?}", rc)))]),
        }
    }

    fn rvalue(&self, rv: &Rvalue<'tcx>, env: ty::TypingEnv<'tcx>, body: &Body<'tcx>) -> String {
        match rv {
            Rvalue::Use(o, _) => jobj(vec![("r", js("use")), ("a", self.operand(o, env))]),
            Rvalue::Repeat(o, n) => jobj(vec![
                ("r", js("repeat")),
                ("a", self.operand(o, env)),
                ("n", js(&n.to_string())),
            ]),
            Rvalue::Ref(_, bk, p) => {
                let m = matches!(bk, BorrowKind::Mut { .. });
                let fake = matches!(bk, BorrowKind::Fake(_));
                jobj(vec![
                    ("r", js("ref")),
                    ("mut", m.to_string()),
                    ("fake", fake.to_string()),
                    ("p", self.place(p)),
                ])
            }
            Rvalue::ThreadLocalRef(d) => jobj(vec![("r", js("tls")), ("d", js(&self.path(*d)))]),
            Rvalue::RawPtr(k, p) => jobj(vec![
                ("r", js("rawptr")),
                ("mut", matches!(k, RawPtrKind::Mut).to_string()),
                ("p", self.place(p)),
            ]),
            Rvalue::Cast(k, o, t) => {
                let ks = match k {
                    CastKind::PointerCoercion(pc, _) => format!("PointerCoercion:{:?}", pc),
                    other => format!("{:?}", other),
                };
                jobj(vec![
                    ("r", js("cast")),
                    ("kind", js(&ks)),
                    ("a", self.operand(o, env)),
                    ("ty", self.ty(*t)),
                    ("from", self.ty(o.ty(body, self.tcx))),
                ])
            }
            Rvalue::BinaryOp(op, ab) => jobj(vec![
                ("r", js("bin")),
                ("op", js(&format!("{:?}", op))),
                ("a", self.operand(&ab.0, env)),
                ("b", self.operand(&ab.1, env)),
                ("ta", self.tk(ab.0.ty(body, self.tcx), 0)),
                ("tb", self.tk(ab.1.ty(body, self.tcx), 0)),
            ]),
            Rvalue::UnaryOp(op, a) => jobj(vec![
                ("r", js("un")),
                ("op", js(&format!("{:?}", op))),
                ("a", self.operand(a, env)),
                ("ta", self.tk(a.ty(body, self.tcx), 0)),
            ]),
            Rvalue::Discriminant(p) => jobj(vec![("r", js("discr")), ("p", self.place(p))]),
            Rvalue::Aggregate(k, ops) => {
                let ks = match &**k {
                    AggregateKind::Array(_) => jobj(vec![("a", js("array"))]),
                    AggregateKind::Tuple => jobj(vec![("a", js("tuple"))]),
                    AggregateKind::Adt(d, v, _, _, _) => {
                        let adt = self.tcx.adt_def(*d);
                        let vn = adt.variant(*v).name.to_string();
                        jobj(vec![
                            ("a", js("adt")),
                            ("path", js(&self.path(*d))),
                            ("v", v.as_usize().to_string()),
                            ("vn", js(&vn)),
                        ])
                    }
                    AggregateKind::Closure(d, _) => {
                        jobj(vec![("a", js("closure")), ("path", js(&self.path(*d)))])
                    }
                    AggregateKind::RawPtr(_, _) => jobj(vec![("a", js("rawptr"))]),
                    _ => jobj(vec![("a", js("other"))]),
                };
                let o: Vec<String> = ops.iter().map(|x| self.operand(x, env)).collect();
                jobj(vec![("r", js("agg")), ("kind", ks), ("ops", jlist(o))])
            }
            Rvalue::CopyForDeref(p) => jobj(vec![("r", js("use")), ("a", jobj(vec![("c", self.place(p))]))]),
            Rvalue::WrapUnsafeBinder(o, _) => jobj(vec![("r", js("use")), ("a", self.operand(o, env))]),
        }
    }

    fn callee(
        &self,
        func: &Operand<'tcx>,
        env: ty::TypingEnv<'tcx>,
        body: &Body<'tcx>,
    ) -> String {
        let fty = func.ty(body, self.tcx);
        if let ty::FnDef(d, args) = fty.kind() {
            let mut items = vec![("path", js(&self.path(*d)))];
            let ga: Vec<String> = args.iter().map(|g| js(&g.to_string())).collect();
            items.push(("ga", jlist(ga)));
            let gat: Vec<String> = args
                .iter()
                .filter_map(|g| g.as_type())
                .map(|t| self.tk(t, 0))
                .collect();
            items.push(("gat", jlist(gat)));
            // resolve trait methods to the concrete impl where possible
            let dk = self.tcx.def_kind(*d);
            if matches!(dk, DefKind::Fn | DefKind::AssocFn) {
                if let Ok(Some(inst)) = ty::Instance::try_resolve(self.tcx, env, *d, args) {
                    let rd = inst.def_id();
                    items.push(("res", js(&self.path(rd))));
                    items.push(("resk", js(&format!("{:?}", std::mem::discriminant(&inst.def)))));
                    let kind = match inst.def {
                        ty::InstanceKind::Item(_) => "item",
                        ty::InstanceKind::Intrinsic(_) => "intrinsic",
                        ty::InstanceKind::Virtual(..) => "virtual",
                        ty::InstanceKind::ClosureOnceShim { .. } => "closure_once",
                        ty::InstanceKind::FnPtrShim(..) => "fnptr",
                        ty::InstanceKind::DropGlue(..) => "dropglue",
                        ty::InstanceKind::CloneShim(..) => "cloneshim",
                        _ => "other",
                    };
                    items.push(("rk", js(kind)));
                    let rga: Vec<String> = inst.args.iter().map(|g| js(&g.to_string())).collect();
                    items.push(("rga", jlist(rga)));
                }
            }
            if let Some(tr) = self.tcx.trait_of_assoc(*d) {
                items.push(("trait", js(&self.path(tr))));
            }
            jobj(items)
        } else {
            jobj(vec![("indirect", self.operand(func, env)), ("fty", self.ty(fty))])
        }
    }

    fn assert_msg(&self, m: &AssertKind<Operand<'tcx>>, env: ty::TypingEnv<'tcx>) -> String {
        match m {
            AssertKind::BoundsCheck { len, index } => jobj(vec![
                ("k", js("BoundsCheck")),
                ("len", self.operand(len, env)),
                ("index", self.operand(index, env)),
            ]),
            AssertKind::Overflow(op, a, b) => jobj(vec![
                ("k", js("Overflow")),
                ("op", js(&format!("{:?}", op))),
                ("a", self.operand(a, env)),
                ("b", self.operand(b, env)),
            ]),
            AssertKind::OverflowNeg(a) => {
                jobj(vec![("k", js("OverflowNeg")), ("a", self.operand(a, env))])
            }
            AssertKind::DivisionByZero(a) => {
                jobj(vec![("k", js("DivisionByZero")), ("a", self.operand(a, env))])
            }
            AssertKind::RemainderByZero(a) => {
                jobj(vec![("k", js("RemainderByZero")), ("a", self.operand(a, env))])
            }
            other => jobj(vec![("k", js(&format!("Other:{:?}", std::mem::discriminant(other))))]),
        }
    }

    fn terminator(
        &self,
        t: &Terminator<'tcx>,
        env: ty::TypingEnv<'tcx>,
        body: &Body<'tcx>,
    ) -> String {
        let sp = self.span(t.source_info.span);
        let unwind = |u: &UnwindAction| -> String {
            match u {
                UnwindAction::Cleanup(b) => b.as_usize().to_string(),
                _ => "null".to_string(),
            }
        };
        match &t.kind {
            TerminatorKind::Goto { target } => jobj(vec![
                ("t", js("goto")),
                ("target", target.as_usize().to_string()),
                ("sp", sp),
            ]),
            TerminatorKind::SwitchInt { discr, targets } => {
                let mut ts = vec![];
                for (v, b) in targets.iter() {
                    ts.push(format!("[{},{}]", v, b.as_usize()));
                }
                let dty = discr.ty(body, self.tcx);
                jobj(vec![
                    ("t", js("switch")),
                    ("d", self.operand(discr, env)),
                    ("dty", js(&dty.to_string())),
                    ("targets", jlist(ts)),
                    ("otherwise", targets.otherwise().as_usize().to_string()),
                    ("sp", sp),
                ])
            }
            TerminatorKind::Return => jobj(vec![("t", js("return")), ("sp", sp)]),
            TerminatorKind::Unreachable => jobj(vec![("t", js("unreachable")), ("sp", sp)]),
            TerminatorKind::UnwindResume => jobj(vec![("t", js("resume")), ("sp", sp)]),
            TerminatorKind::UnwindTerminate(_) => jobj(vec![("t", js("terminate")), ("sp", sp)]),
            TerminatorKind::Drop { place, target, unwind: u, .. } => jobj(vec![
                ("t", js("drop")),
                ("p", self.place(place)),
                ("pty", js(&place.ty(body, self.tcx).ty.to_string())),
                ("target", target.as_usize().to_string()),
                ("unwind", unwind(u)),
                ("sp", sp),
            ]),
            TerminatorKind::Call { func, args, destination, target, unwind: u, fn_span, .. } => {
                let a: Vec<String> = args.iter().map(|x| self.operand(&x.node, env)).collect();
                let aty: Vec<String> = args
                    .iter()
                    .map(|x| js(&x.node.ty(body, self.tcx).to_string()))
                    .collect();
                jobj(vec![
                    ("t", js("call")),
                    ("f", self.callee(func, env, body)),
                    ("args", jlist(a)),
                    ("aty", jlist(aty)),
                    ("dest", self.place(destination)),
                    (
                        "target",
                        target.map(|b| b.as_usize().to_string()).unwrap_or("null".to_string()),
                    ),
                    ("unwind", unwind(u)),
                    ("sp", sp),
                    ("fsp", self.span(*fn_span)),
                ])
            }
            TerminatorKind::TailCall { func, args, .. } => {
                let a: Vec<String> = args.iter().map(|x| self.operand(&x.node, env)).collect();
                jobj(vec![
                    ("t", js("tailcall")),
                    ("f", self.callee(func, env, body)),
                    ("args", jlist(a)),
                    ("sp", sp),
                ])
            }
            TerminatorKind::Assert { cond, expected, msg, target, unwind: u } => jobj(vec![
                ("t", js("assert")),
                ("cond", self.operand(cond, env)),
                ("expected", expected.to_string()),
                ("msg", self.assert_msg(msg, env)),
                ("target", target.as_usize().to_string()),
                ("unwind", unwind(u)),
                ("sp", sp),
            ]),
            TerminatorKind::FalseEdge { real_target, .. } => jobj(vec![
                ("t", js("goto")),
                ("target", real_target.as_usize().to_string()),
                ("sp", sp),
            ]),
            TerminatorKind::FalseUnwind { real_target, .. } => jobj(vec![
                ("t", js("goto")),
                ("target", real_target.as_usize().to_string()),
                ("sp", sp),
            ]),
            other => jobj(vec![
                ("t", js("other")),
                ("s", js(&format!("{:?}", std::mem::discriminant(other)))),
                ("sp", sp),
            ]),
        }
    }

    fn body(&self, body: &Body<'tcx>, env: ty::TypingEnv<'tcx>) -> String {
        // locals
        let mut names: Vec<Option<String>> = vec![None; body.local_decls.len()];
        let mut dbg = vec![];
        for vdi in body.var_debug_info.iter() {
            if let VarDebugInfoContents::Place(p) = &vdi.value {
                if p.projection.is_empty() {
                    names[p.local.as_usize()] = Some(vdi.name.to_string());
                }
                dbg.push(jobj(vec![("n", js(&vdi.name.to_string())), ("p", self.place(p))]));
            }
        }
        let mut locals = vec![];
        for (i, d) in body.local_decls.iter_enumerated() {
            let mut it = vec![("ty", self.ty(d.ty))];
            if let Some(n) = &names[i.as_usize()] {
                it.push(("n", js(n)));
            }
            it.push(("mut", d.mutability.is_mut().to_string()));
            locals.push(jobj(it));
        }
        let mut blocks = vec![];
        for (_bb, data) in body.basic_blocks.iter_enumerated() {
            let mut stmts = vec![];
            for s in data.statements.iter() {
                match &s.kind {
                    StatementKind::Assign(b) => {
                        let (p, rv) = &**b;
                        stmts.push(jobj(vec![
                            ("s", js("assign")),
                            ("lhs", self.place(p)),
                            ("rv", self.rvalue(rv, env, body)),
                            ("lty", self.tk(p.ty(body, self.tcx).ty, 0)),
                            ("sp", self.span(s.source_info.span)),
                        ]));
                    }
                    StatementKind::StorageDead(l) => {
                        stmts.push(jobj(vec![("s", js("dead")), ("l", l.as_usize().to_string())]));
                    }
                    StatementKind::SetDiscriminant { place, variant_index } => {
                        stmts.push(jobj(vec![
                            ("s", js("setdiscr")),
                            ("lhs", self.place(place)),
                            ("v", variant_index.as_usize().to_string()),
                            ("sp", self.span(s.source_info.span)),
                        ]));
                    }
                    StatementKind::Intrinsic(i) => {
                        let k = match &**i {
                            NonDivergingIntrinsic::Assume(_) => "assume",
                            NonDivergingIntrinsic::CopyNonOverlapping(_) => "copy_nonoverlapping",
                        };
                        stmts.push(jobj(vec![
                            ("s", js("intrinsic")),
                            ("k", js(k)),
                            ("sp", self.span(s.source_info.span)),
                        ]));
                    }
                    _ => {}
                }
            }
            let term = self.terminator(data.terminator(), env, body);
            blocks.push(jobj(vec![
                ("stmts", jlist(stmts)),
                ("term", term),
                ("cleanup", data.is_cleanup.to_string()),
            ]));
        }
        jobj(vec![
            ("argc", body.arg_count.to_string()),
            ("locals", jlist(locals)),
            ("dbg", jlist(dbg)),
            ("blocks", jlist(blocks)),
        ])
    }

    fn function(&self, ldid: rustc_hir::def_id::LocalDefId) -> Option<String> {
        let tcx = self.tcx;
        let did = ldid.to_def_id();
        let dk = tcx.def_kind(did);
        if !matches!(dk, DefKind::Fn | DefKind::AssocFn | DefKind::Closure) {
            return None;
        }
        if !tcx.is_mir_available(did) {
            return None;
        }
        let env = ty::TypingEnv::post_analysis(tcx, did);
        let body = tcx.optimized_mir(did);
        let mut items = vec![
            ("path", js(&self.path(did))),
            ("kind", js(&format!("{:?}", dk))),
            ("sp", self.span(tcx.def_span(did))),
        ];
        if matches!(dk, DefKind::Fn | DefKind::AssocFn) {
            let vis = tcx.visibility(did);
            let v = match vis {
                ty::Visibility::Public => "pub".to_string(),
                ty::Visibility::Restricted(m) => {
                    if m == tcx.parent_module_from_def_id(ldid).to_def_id() {
                        "private".to_string()
                    } else {
                        format!("restricted:{}", self.path(m))
                    }
                }
            };
            items.push(("vis", js(&v)));
            let sig = tcx.fn_sig(did).instantiate_identity().skip_norm_wip().skip_binder();
            items.push(("unsafe", (!sig.safety().is_safe()).to_string()));
            let ins: Vec<String> = sig.inputs().iter().map(|t| self.ty(*t)).collect();
            items.push(("inputs", jlist(ins)));
            items.push(("output", self.ty(sig.output())));
            // effective (reachable from outside the crate) visibility
            let eff = tcx.effective_visibilities(()).is_reachable(ldid);
            items.push(("reachable", eff.to_string()));
        }
        if dk == DefKind::Closure {
            let parent = tcx.typeck_root_def_id(did);
            items.push(("parent", js(&self.path(parent))));
        }
        // impl-of information
        if let Some(imp) = tcx.impl_of_assoc(did) {
            let self_ty = tcx.type_of(imp).instantiate_identity().skip_norm_wip();
            items.push(("impl_self", self.ty(self_ty)));
            if let Some(tr) = tcx.impl_opt_trait_id(imp) {
                items.push(("impl_trait", js(&self.path(tr))));
            }
            items.push((
                "derived",
                tcx.is_automatically_derived(imp).to_string(),
            ));
        }
        items.push(("body", self.body(body, env)));
        let promoted = tcx.promoted_mir(did);
        let mut ps = vec![];
        for p in promoted.iter() {
            ps.push(self.body(p, env));
        }
        items.push(("promoted", jlist(ps)));
        Some(jobj(items))
    }

    /// named constants of the crate (`const X: T = ..`), with the MIR that computes them: the rules read the
    /// initialiser instead of guessing at the evaluated memory layout
    fn consts(&self) -> String {
        let tcx = self.tcx;
        let mut out = vec![];
        let mut owners: Vec<_> = tcx.hir_body_owners().collect();
        owners.sort_by_key(|d| tcx.def_path_hash(d.to_def_id()));
        for ldid in owners {
            let did = ldid.to_def_id();
            let dk = tcx.def_kind(did);
            if !matches!(dk, DefKind::Const { .. } | DefKind::AssocConst { .. }) {
                continue;
            }
            if tcx.generics_of(did).count() != 0 {
                continue;
            }
            let env = ty::TypingEnv::post_analysis(tcx, did);
            let body = tcx.mir_for_ctfe(did);
            let promoted = tcx.promoted_mir(did);
            let mut ps = vec![];
            for p in promoted.iter() {
                ps.push(self.body(p, env));
            }
            out.push(jobj(vec![
                ("path", js(&self.path(did))),
                ("kind", js(&format!("{:?}", dk))),
                ("sp", self.span(tcx.def_span(did))),
                ("body", self.body(body, env)),
                ("promoted", jlist(ps)),
            ]));
        }
        jlist(out)
    }

    fn adts(&self) -> String {
        let tcx = self.tcx;
        let mut out = vec![];
        for id in tcx.hir_free_items() {
            let did = id.owner_id.to_def_id();
            let dk = tcx.def_kind(did);
            if matches!(dk, DefKind::Struct | DefKind::Enum) {
                let adt = tcx.adt_def(did);
                let mut variants = vec![];
                for v in adt.variants().iter() {
                    let mut fields = vec![];
                    for f in v.fields.iter() {
                        let fty = tcx.type_of(f.did).instantiate_identity().skip_norm_wip();
                        let vis = match f.vis {
                            ty::Visibility::Public => "pub",
                            _ => "restricted",
                        };
                        fields.push(jobj(vec![
                            ("n", js(&f.name.to_string())),
                            ("ty", self.ty(fty)),
                            ("vis", js(vis)),
                        ]));
                    }
                    variants.push(jobj(vec![
                        ("n", js(&v.name.to_string())),
                        ("fields", jlist(fields)),
                    ]));
                }
                out.push(jobj(vec![
                    ("path", js(&self.path(did))),
                    ("kind", js(&format!("{:?}", dk))),
                    ("variants", jlist(variants)),
                    ("sp", self.span(tcx.def_span(did))),
                ]));
            }
        }
        jlist(out)
    }

    fn impls(&self) -> String {
        let tcx = self.tcx;
        let mut out = vec![];
        for id in tcx.hir_free_items() {
            let did = id.owner_id.to_def_id();
            if let DefKind::Impl { of_trait } = tcx.def_kind(did) {
                let self_ty = tcx.type_of(did).instantiate_identity().skip_norm_wip();
                let mut it = vec![("self", self.ty(self_ty))];
                if of_trait {
                    if let Some(tr) = tcx.impl_opt_trait_id(did) {
                        it.push(("trait", js(&self.path(tr))));
                    }
                }
                it.push(("derived", tcx.is_automatically_derived(did).to_string()));
                out.push(jobj(it));
            }
        }
        jlist(out)
    }

    fn statics(&self) -> String {
        let tcx = self.tcx;
        let mut out = vec![];
        for id in tcx.hir_free_items() {
            let did = id.owner_id.to_def_id();
            if let DefKind::Static { .. } = tcx.def_kind(did) {
                let t = tcx.type_of(did).instantiate_identity().skip_norm_wip();
                let mut it = vec![("path", js(&self.path(did))), ("ty", self.ty(t))];
                if let Ok(alloc) = tcx.eval_static_initializer(did) {
                    let a = alloc.inner();
                    let n = a.len();
                    // only plain byte tables (no provenance) are dumped
                    if a.provenance().ptrs().is_empty() {
                        let bytes = a.inspect_with_uninit_and_ptr_outside_interpreter(0..n);
                        let b: Vec<String> = bytes.iter().map(|x| x.to_string()).collect();
                        it.push(("bytes", jlist(b)));
                    } else {
                        // a reference to a byte table: follow one level
                        for (_, prov) in a.provenance().ptrs().iter() {
                            let aid = prov.alloc_id();
                            if let rustc_middle::mir::interpret::GlobalAlloc::Memory(m) =
                                tcx.global_alloc(aid)
                            {
                                let ia = m.inner();
                                if ia.provenance().ptrs().is_empty() {
                                    let bytes = ia
                                        .inspect_with_uninit_and_ptr_outside_interpreter(0..ia.len());
                                    let b: Vec<String> =
                                        bytes.iter().map(|x| x.to_string()).collect();
                                    it.push(("bytes", jlist(b)));
                                }
                            }
                        }
                    }
                }
                out.push(jobj(it));
            }
        }
        jlist(out)
    }
}

struct Extract {
    out_dir: String,
}

impl Callbacks for Extract {
    fn after_analysis<'tcx>(
        &mut self,
        _compiler: &rustc_interface::interface::Compiler,
        tcx: TyCtxt<'tcx>,
    ) -> Compilation {
        let cx = Cx { tcx };
        let krate = tcx.crate_name(LOCAL_CRATE).to_string();
        let mut fns = vec![];
        let mut owners: Vec<_> = tcx.hir_body_owners().collect();
        owners.sort_by_key(|d| tcx.def_path_hash(d.to_def_id()));
        for ldid in owners {
            if let Some(f) = cx.function(ldid) {
                fns.push(f);
            }
        }
        let nf = fns.len();
        let doc = jobj(vec![
            ("crate", js(&krate)),
            ("nfns", nf.to_string()),
            ("debug_assertions", tcx.sess.opts.debug_assertions.to_string()),
            ("overflow_checks", tcx.sess.overflow_checks().to_string()),
            ("fns", jlist(fns)),
            ("adts", cx.adts()),
            ("impls", cx.impls()),
            ("statics", cx.statics()),
            ("consts", cx.consts()),
        ]);
        let path = format!("{}/{}.json", self.out_dir, krate);
        let tmp = format!("{}.tmp.{}", path, std::process::id());
        std::fs::write(&tmp, doc).expect("pvx: cannot write fact file");
        std::fs::rename(&tmp, &path).expect("pvx: cannot rename fact file");
        Compilation::Continue
    }
}

struct Plain;
impl Callbacks for Plain {}

fn main() {
    let mut args: Vec<String> = std::env::args().collect();
    // RUSTC_WRAPPER protocol: argv[1] is the path of the real rustc; drop it.
    if args.len() > 1 && (args[1].ends_with("rustc") || args[1].contains("/rustc")) {
        let _ = args.remove(1);
    }
    let want: Vec<String> = std::env::var("PVX_CRATES")
        .unwrap_or_else(|_| "pocket_types,pocket_db,mmap_append".to_string())
        .split(',')
        .map(|s| s.to_string())
        .collect();
    let mut crate_name = String::new();
    let mut i = 0;
    while i < args.len() {
        if args[i] == "--crate-name" && i + 1 < args.len() {
            crate_name = args[i + 1].clone();
        }
        i += 1;
    }
    let is_test_harness = args.iter().any(|a| a == "--test");
    let out_dir = std::env::var("PVX_OUT").unwrap_or_default();
    if !out_dir.is_empty() && want.contains(&crate_name) && !is_test_harness {
        let mut cb = Extract { out_dir };
        rustc_driver::run_compiler(&args, &mut cb);
    } else {
        let mut cb = Plain;
        rustc_driver::run_compiler(&args, &mut cb);
    }
}
